(* PV.C12.Refuted — counter-models: one per guard conjunct that exists because the CODE fails.
   All witnesses live over the [strG] engine (symbolic leaves are their srepr texts), which
   satisfies the engine assumptions (Proofs.strG_ok); each was reproduced on the real code
   (known_findings.d/C12.json holds the matching inputs). *)
From Coq Require Import QArith ZArith List Bool Arith String.
From PV Require Import C12.Model C12.Proofs C12.Check.
Import ListNotations.
Local Open Scope nat_scope.
Local Open Scope string_scope.

(* ---- objects ---- *)
Definition zero : string := "Integer(0)".
Definition one : string := "Integer(1)".
Definition central : compartment strG :=
  mkComp strG "CENTRAL" "Function('A_CENTRAL')(Symbol('t'))" [Bolus strG "Symbol('AMT')" 1%Z] zero zero one.
Definition periph : compartment strG :=
  mkComp strG "PERIPHERAL" "Function('A_PERIPHERAL')(Symbol('t'))" [] zero zero one.
Definition k12 : string := "Symbol('K12')".
Definition k21 : string := "Symbol('K21')".
Definition kel : string := "Symbol('K')".

(* the same system entered CENTRAL, PERIPHERAL and PERIPHERAL, CENTRAL *)
Definition sys_cp : csys strG :=
  mkCs strG [(NOut strG, []);
             (NComp strG central, [(NComp strG periph, k12); (NOut strG, kel)]);
             (NComp strG periph, [(NComp strG central, k21)])] "Symbol('t')".
Definition sys_pc : csys strG :=
  mkCs strG [(NOut strG, []);
             (NComp strG periph, [(NComp strG central, k21)]);
             (NComp strG central, [(NComp strG periph, k12); (NOut strG, kel)])] "Symbol('t')".

Definition no_rvs : rvs strG := mkRvs strG [] [] [].
Definition no_di : datainfo strG := mkDi strG [] None "," "-99".
Definition model_of (st : list (stmt strG)) (es : list (step strG)) (di : datainfo strG) (ie : option pyv) : model strG :=
  mkModel strG "m" "" [] no_rvs st es di "PREDICTION" [("Symbol('Y')", 1%Z)] [("Symbol('Y')", "Symbol('Y')")] ie.
Definition M_cp : model strG := model_of [SOde strG sys_cp] [] no_di None.
Definition M_pc : model strG := model_of [SOde strG sys_pc] [] no_di None.

(* ---- C12-HASH-ORDER: equal content, different key ---- *)
(* two well-formed systems that == calls equal have different dictionaries *)
Theorem to_dict_order_refuted :
  exists a b : csys strG,
    cs_ok strG a = true /\ cs_ok strG b = true /\ cs_eq strG a b = Some true /\
    same_order (OCs a) (OCs b) = false /\
    normalise (cs_to_dict strG a) <> normalise (cs_to_dict strG b).
Proof.
  exists sys_cp, sys_pc. repeat split; try (vm_compute; reflexivity).
  apply pyv_same_false. vm_compute. reflexivity.
Qed.

(* hence two models that == calls equal get different keys: for every dumps that separates the
   two dictionaries and every digest that separates the two inputs (any dataset bytes) *)
Theorem hash_order_refuted :
  exists M M' : model strG,
    model_eq strG M M' = Some true /\ same_order (OModel M) (OModel M') = false /\
    forall (dumps : pyv -> string) (digest : Type) (H : string -> digest) (ds : string),
      let d := model_to_dict strG (blank strG M) in let d' := model_to_dict strG (blank strG M') in
      dumps_sep dumps d d' -> H_sep H (ds ++ dumps d) (ds ++ dumps d') ->
      key strG dumps digest H ds M <> key strG dumps digest H ds M'.
Proof.
  exists M_cp, M_pc. split; [vm_compute; reflexivity|]. split; [vm_compute; reflexivity|].
  intros dumps digest H ds d d' DS HS. apply key_separates_model; try assumption; try (vm_compute; reflexivity).
  apply pyv_same_false. vm_compute. reflexivity.
Qed.

(* the order of the dependent variables leaks the same way *)
Definition M_yz : model strG :=
  mkModel strG "m" "" [] no_rvs [] [] no_di "PREDICTION" [("Symbol('Y')", 1%Z); ("Symbol('Z')", 2%Z)]
          [("Symbol('Y')", "Symbol('Y')"); ("Symbol('Z')", "Symbol('Z')")] None.
Definition M_zy : model strG :=
  mkModel strG "m" "" [] no_rvs [] [] no_di "PREDICTION" [("Symbol('Z')", 2%Z); ("Symbol('Y')", 1%Z)]
          [("Symbol('Z')", "Symbol('Z')"); ("Symbol('Y')", "Symbol('Y')")] None.
Theorem hash_depvar_order_refuted :
  model_eq strG M_yz M_zy = Some true /\ same_order (OModel M_yz) (OModel M_zy) = false /\
  normalise (model_to_dict strG (blank strG M_yz)) <> normalise (model_to_dict strG (blank strG M_zy)).
Proof.
  split; [vm_compute; reflexivity|]. split; [vm_compute; reflexivity|].
  apply pyv_same_false. vm_compute. reflexivity.
Qed.

(* ---- C12-JSON-TUPLE: from_dict keeps JSON lists where the object holds tuples ---- *)
Definition joint : dist strG :=
  DJoint strG (mkJoint strG STuple ["ETA_1"; "ETA_2"] "IIV" "MutableDenseMatrix([[Integer(0)], [Integer(0)]])"
                       "MutableDenseMatrix([[Symbol('O11'), Symbol('O21')], [Symbol('O21'), Symbol('O22')]])").
Theorem json_names_refuted :
  exists x : dist strG, passthrough_tuple_free (ODist x) = false /\
    exists y, dist_from_dict strG (normalise (dist_to_dict strG x)) = Some y /\ dist_eqb strG y x = false.
Proof. exists joint. split; [reflexivity|]. eexists. split; vm_compute; reflexivity. Qed.

Definition est_default : eststep strG :=
  mkEst strG "FOCE" true (Some "SANDWICH") false (Some 99999%Z) false None None None None
        STuple ["CWRES"; "RES"] STuple ["CIPREDI"; "PRED"] (DStrs strG STuple []) false
        (mkCommon None None (Some (NFloat (FFin (1 # 1000000000000)))) []).
Theorem json_step_refuted :
  exists x : step strG, passthrough_tuple_free (OStep x) = false /\ derivs_free (OStep x) = true /\
    (exists y, step_from_dict strG (step_to_dict strG x) = Some y /\ step_eqb strG y x = true) /\
    exists y, step_from_dict strG (normalise (step_to_dict strG x)) = Some y /\ step_eqb strG y x = false.
Proof.
  exists (StEst strG est_default). split; [reflexivity|]. split; [reflexivity|]. split; eexists; split; vm_compute; reflexivity.
Qed.

Definition col_apgr : column strG :=
  mkColumn strG "APGR" "covariate" one "ratio" (Some false) (PTuple [PInt 1%Z; PInt 2%Z; PInt 3%Z]) false "float64" None.
Theorem json_categories_refuted :
  exists x : column strG, passthrough_tuple_free (OColumn x) = false /\
    exists y, column_from_dict strG (normalise (column_to_dict strG x)) = Some y /\ column_eqb strG y x = false.
Proof. exists col_apgr. split; [reflexivity|]. eexists. split; vm_compute; reflexivity. Qed.

(* so the generic model code (json.dumps of to_dict; read by json.loads, from_dict) of a model with
   one default estimation step does not parse back to an equal model *)
Theorem generic_code_refuted :
  exists m : model strG, passthrough_tuple_free (OModel m) = false /\
    exists y, model_from_dict strG (normalise (model_to_dict strG m)) = Some y /\ model_eq strG y m = Some false.
Proof.
  exists (model_of [] [StEst strG est_default] no_di None). split; [reflexivity|].
  eexists. split; vm_compute; reflexivity.
Qed.

(* ---- C12-DERIVATIVES-TEXT: to_dict flattens derivatives to text, from_dict leaves them so ---- *)
Definition est_deriv : eststep strG :=
  mkEst strG "FOCE" true None false None false None None None None
        STuple [] STuple [] (DSyms strG [["Symbol('EPS_1')"; "Symbol('ETA_1')"]; ["Symbol('ETA_1')"]]) false
        (mkCommon None None None []).
Theorem derivatives_refuted :
  exists x : step strG, derivs_free (OStep x) = false /\
    exists y, step_from_dict strG (step_to_dict strG x) = Some y /\ step_eqb strG y x = false.
Proof. exists (StEst strG est_deriv). split; [reflexivity|]. eexists. split; vm_compute; reflexivity. Qed.

(* ---- C12-JSON-INTKEY: int dictionary keys come back as text ---- *)
Definition iie_frame : pyv :=
  PDict [(KStr "ETA_1", PDict [(KInt 1%Z, PFloat (FFin (1 # 8))); (KInt 2%Z, PFloat (FFin (1 # 4)))])].
Theorem json_intkey_refuted :
  exists m : model strG, int_key_free (OModel m) = false /\ passthrough_tuple_free (OModel m) = true /\
    exists y, model_from_dict strG (normalise (model_to_dict strG m)) = Some y /\ model_eq strG y m = Some false.
Proof.
  exists (model_of [] [] no_di (Some iie_frame)). split; [reflexivity|]. split; [reflexivity|].
  eexists. split; vm_compute; reflexivity.
Qed.

(* ---- C12-CATEGORIES-MAPPING: to_dict hands out a frozenmapping, json.dumps refuses it: no key ---- *)
Definition col_sex : column strG :=
  mkColumn strG "SEX" "covariate" one "nominal" (Some false)
           (PMapping [(KInt 1%Z, PStr "male"); (KInt 2%Z, PStr "female")]) false "float64" None.
Theorem mapping_refuted :
  exists m : model strG, jsonable (model_to_dict strG m) = false /\
    forall (dumps : pyv -> string) (digest : Type) (H : string -> digest) (ds : string),
      key strG dumps digest H ds m = None.
Proof.
  exists (model_of [] [] (mkDi strG [col_sex] None "," "-99") None). split; [reflexivity|].
  intros. reflexivity.
Qed.

(* ---- not findings, but the reasons for two side conditions ---- *)
(* a NaN bound: the round trip is exact, yet == says False (NaN != NaN) *)
Example nan_bound_unequal :
  let p := mkParameter "X" (NFloat (FFin 1)) (NFloat FNaN) (NFloat FInf) false in
  param_from_dict (param_to_dict p) = Some p /\ param_eqb p p = false /\ param_no_nan p = false.
Proof. repeat split; reflexivity. Qed.

(* a system without a dosing compartment: == raises (ValueError) even against itself *)
Definition sys_nodose : csys strG :=
  mkCs strG [(NOut strG, []); (NComp strG periph, [(NOut strG, kel)])] "Symbol('t')".
Example eq_raises_without_dose :
  cs_ok strG sys_nodose = true /\ cs_from_dict strG (cs_to_dict strG sys_nodose) = Some sys_nodose /\
  cs_eq strG sys_nodose sys_nodose = None.
Proof. repeat split; vm_compute; reflexivity. Qed.

(* ---- C12-SREPR-DISTRIBUTES: the engine assumption deser (ser e) = Some e is what the real engine
   breaks: symengine keeps (1/2)*(A + B) (here [true]), sympy's srepr is that of A/2 + B/2 and
   parse_expr returns the distributed sum (here [false]); symengine's == is structural.  An engine
   with this behaviour makes the round trip of an assignment fail. ---- *)
Definition distG : engine :=
  mkEngine bool Bool.eqb (fun _ => "Add(Mul(Rational(1, 2), Symbol('A')), Mul(Rational(1, 2), Symbol('B')))")
           (fun _ => Some false) (fun _ => "") (fun _ => false) (fun _ => "")
           string String.eqb (fun s => s) (fun s => Some s)
           string String.eqb (fun s => s) (fun s => s) (fun s => Some s).
Theorem srepr_contract_refuted :
  exists (a : assignment distG),
    (exists e, deser distG (ser distG e) <> Some e) /\
    exists b, assign_from_dict distG (assign_to_dict distG a) = Some b /\ assign_eqb distG b a = false.
Proof.
  exists (mkAssign distG false true). split.
  - exists true. cbn. discriminate.
  - eexists. split; vm_compute; reflexivity.
Qed.
