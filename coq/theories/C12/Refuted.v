(* PV.C12.Refuted — counter-models for the guards that still exist because the CODE fails (open
   findings C12-DERIVATIVES-TEXT, C12-JSON-INTKEY, C12-EQ-DOSING-ORDER, C12-SREPR-DISTRIBUTES), and
   regression Examples of the repaired behaviour for the findings fixed in /repo (C12-HASH-ORDER
   ddb8814, C12-HASH-DEPVAR-ORDER eb87ce1, C12-GENERIC-VALUE-TYPE 7115d86,
   C12-MODELFIT-GRADIENTS-DEFAULT 36ee5f2, C12-JSON-TUPLE cee2988, C12-CATEGORIES-MAPPING e582408, C12-GENERIC-READ 30e26dc, and
   C05-EQ-RAISES-NO-DOSE 876afb2): their former witnesses, now satisfying the property.
   All witnesses live over the [strG] engine (symbolic leaves are their srepr texts). *)
From Coq Require Import QArith ZArith List Bool Arith String.
From PV Require Import C12.Model C12.Proofs C12.Check.
Import ListNotations.
Local Open Scope nat_scope.
Local Open Scope string_scope.

(* ---- objects ---- *)
Definition zero : string := "Integer(0)".
Definition one : string := "Integer(1)".
Definition central : compartment strG :=
  mkComp strG "CENTRAL" "Function('A_CENTRAL')(Symbol('t'))" [Bolus strG "Symbol('AMT')" 1%Z] zero zero one.
Definition periph : compartment strG :=
  mkComp strG "PERIPHERAL" "Function('A_PERIPHERAL')(Symbol('t'))" [] zero zero one.
Definition k12 : string := "Symbol('K12')".
Definition k21 : string := "Symbol('K21')".
Definition kel : string := "Symbol('K')".

(* the same system entered CENTRAL, PERIPHERAL and PERIPHERAL, CENTRAL *)
Definition sys_cp : csys strG :=
  mkCs strG [(NOut strG, []);
             (NComp strG central, [(NComp strG periph, k12); (NOut strG, kel)]);
             (NComp strG periph, [(NComp strG central, k21)])] "Symbol('t')".
Definition sys_pc : csys strG :=
  mkCs strG [(NOut strG, []);
             (NComp strG periph, [(NComp strG central, k21)]);
             (NComp strG central, [(NComp strG periph, k12); (NOut strG, kel)])] "Symbol('t')".

Definition no_rvs : rvs strG := mkRvs strG [] [] [].
Definition no_di : datainfo strG := mkDi strG [] None "," "-99".
Definition model_of (st : list (stmt strG)) (es : list (step strG)) (di : datainfo strG) (ie : option pyv) : model strG :=
  mkModel strG "m" "" [] no_rvs st es di "PREDICTION" [("Symbol('Y')", 1%Z)] [("Symbol('Y')", "Symbol('Y')")] ie.
Definition M_cp : model strG := model_of [SOde strG sys_cp] [] no_di None.
Definition M_pc : model strG := model_of [SOde strG sys_pc] [] no_di None.

(* ==== fixed: C12-HASH-ORDER (ddb8814) ==== *)
(* the two systems still have different dictionaries, but are encoded identically ... *)
Example order_fixed_encoding :
  cs_eq strG sys_cp sys_pc = true /\
  pyv_same (cs_to_dict strG sys_cp) (cs_to_dict strG sys_pc) = false /\
  cs_canon strG sys_cp = cs_canon strG sys_pc.
Proof. repeat split; vm_compute; reflexivity. Qed.

(* ... and the two models get the same key, for every dumps, digest and dataset *)
Example order_fixed_key :
  model_eq strG M_cp M_pc = true /\
  forall (dumps : pyv -> string) (digest : Type) (H : string -> digest) (ds : string),
    key strG dumps digest H ds M_cp = key strG dumps digest H ds M_pc.
Proof.
  split; [vm_compute; reflexivity|]. intros. apply key_same_dict. vm_compute. reflexivity.
Qed.

(* ==== fixed: C12-HASH-DEPVAR-ORDER (eb87ce1): the order of the dependent variables no longer leaks ==== *)
Definition M_yz : model strG :=
  mkModel strG "m" "" [] no_rvs [] [] no_di "PREDICTION" [("Symbol('Y')", 1%Z); ("Symbol('Z')", 2%Z)]
          [("Symbol('Y')", "Symbol('Y')"); ("Symbol('Z')", "Symbol('Z')")] None.
Definition M_zy : model strG :=
  mkModel strG "m" "" [] no_rvs [] [] no_di "PREDICTION" [("Symbol('Z')", 2%Z); ("Symbol('Y')", 1%Z)]
          [("Symbol('Z')", "Symbol('Z')"); ("Symbol('Y')", "Symbol('Y')")] None.
Example depvar_order_fixed :
  model_eq strG M_yz M_zy = true /\
  pyv_same (model_to_dict strG M_yz) (model_to_dict strG M_zy) = false /\
  forall (dumps : pyv -> string) (digest : Type) (H : string -> digest) (ds : string),
    key strG dumps digest H ds M_yz = key strG dumps digest H ds M_zy.
Proof.
  split; [vm_compute; reflexivity|]. split; [vm_compute; reflexivity|].
  intros. apply key_same_dict. vm_compute. reflexivity.
Qed.

(* ==== fixed: C12-JSON-TUPLE (cee2988) ==== *)
Definition joint : dist strG :=
  DJoint strG (mkJoint strG ["ETA_1"; "ETA_2"] "IIV" "MutableDenseMatrix([[Integer(0)], [Integer(0)]])"
                       "MutableDenseMatrix([[Symbol('O11'), Symbol('O21')], [Symbol('O21'), Symbol('O22')]])").
Example json_names_fixed :
  dist_from_dict strG (normalise (dist_to_dict strG joint)) = Some joint /\ dist_eqb strG joint joint = true.
Proof. split; vm_compute; reflexivity. Qed.

Definition est_default : eststep strG :=
  mkEst strG "FOCE" true (Some "SANDWICH") false (Some 99999%Z) false None None None None
        ["CWRES"; "RES"] ["CIPREDI"; "PRED"] (DStrs strG []) false
        (mkCommon None None (Some (NFloat (FFin (1 # 1000000000000)))) []).
Example json_step_fixed :
  step_from_dict strG (normalise (step_to_dict strG (StEst strG est_default))) = Some (StEst strG est_default) /\
  step_eqb strG (StEst strG est_default) (StEst strG est_default) = true.
Proof. split; vm_compute; reflexivity. Qed.

Definition col_apgr : column strG :=
  mkColumn strG "APGR" "covariate" one "ratio" (Some false) (CTuple [PInt 1%Z; PInt 2%Z; PInt 3%Z]) false "float64" None.
Example json_categories_fixed :
  column_from_dict strG (normalise (column_to_dict strG col_apgr)) = Some col_apgr /\
  column_eqb strG col_apgr col_apgr = true.
Proof. split; vm_compute; reflexivity. Qed.

(* the generic model code of a model with one default estimation step and a categories column
   parses back to an equal model *)
Definition M_generic : model strG := model_of [] [StEst strG est_default] (mkDi strG [col_apgr] None "," "-99") None.
Example generic_code_fixed :
  model_from_dict strG (normalise (model_to_dict strG M_generic)) = Some (strip strG M_generic) /\
  model_eq strG (strip strG M_generic) M_generic = true.
Proof. split; vm_compute; reflexivity. Qed.

(* ==== open: C12-DERIVATIVES-TEXT ==== *)
Definition est_deriv : eststep strG :=
  mkEst strG "FOCE" true None false None false None None None None
        [] [] (DSyms strG [["Symbol('EPS_1')"; "Symbol('ETA_1')"]; ["Symbol('ETA_1')"]]) false
        (mkCommon None None None []).
Theorem derivatives_refuted :
  exists x : step strG, derivs_free (OStep x) = false /\
    exists y, step_from_dict strG (step_to_dict strG x) = Some y /\ step_eqb strG y x = false.
Proof. exists (StEst strG est_deriv). split; [reflexivity|]. eexists. split; vm_compute; reflexivity. Qed.

(* ==== open: C12-JSON-INTKEY ==== *)
Definition iie_frame : pyv :=
  PDict [(KStr "ETA_1", PDict [(KInt 1%Z, PFloat (FFin (1 # 8))); (KInt 2%Z, PFloat (FFin (1 # 4)))])].
Theorem json_intkey_refuted :
  exists m : model strG, int_key_free (OModel m) = false /\ derivs_free (OModel m) = true /\
    exists y, model_from_dict strG (normalise (model_to_dict strG m)) = Some y /\ model_eq strG y m = false.
Proof.
  exists (model_of [] [] no_di (Some iie_frame)). split; [reflexivity|]. split; [reflexivity|].
  eexists. split; vm_compute; reflexivity.
Qed.

(* ==== fixed: C12-CATEGORIES-MAPPING (e582408): a mapping is written as a plain dict; the
   dictionary is JSON, comes back exactly, and the model has a key.  What remains of this witness
   is its int keys (C12-JSON-INTKEY). ==== *)
Definition col_sex : column strG :=
  mkColumn strG "SEX" "covariate" one "nominal" (Some false)
           (CMap [(KInt 1%Z, PStr "male"); (KInt 2%Z, PStr "female")]) false "float64" None.
Example mapping_fixed :
  column_from_dict strG (column_to_dict strG col_sex) = Some col_sex /\
  is_json (normalise (column_to_dict strG col_sex)) = true /\
  int_key_free (OColumn col_sex) = false /\
  (exists y, column_from_dict strG (normalise (column_to_dict strG col_sex)) = Some y /\ column_eqb strG y col_sex = false).
Proof. repeat split; try (vm_compute; reflexivity). eexists. split; vm_compute; reflexivity. Qed.
Definition col_sex_str : column strG :=
  mkColumn strG "SEX" "covariate" one "nominal" (Some false)
           (CMap [(KStr "1", PStr "male"); (KStr "2", PStr "female")]) false "float64" None.
Example mapping_fixed_json :
  column_from_dict strG (normalise (column_to_dict strG col_sex_str)) = Some col_sex_str.
Proof. vm_compute. reflexivity. Qed.

(* ==== fixed: C05-EQ-RAISES-NO-DOSE (876afb2): == on a system without a dosing compartment ==== *)
Definition sys_nodose : csys strG :=
  mkCs strG [(NOut strG, []); (NComp strG periph, [(NOut strG, kel)])] "Symbol('t')".
Example eq_without_dose_fixed :
  cs_ok strG sys_nodose = true /\ dosing strG (cs_g strG sys_nodose) = None /\
  cs_from_dict strG (cs_to_dict strG sys_nodose) = Some sys_nodose /\
  cs_eq strG sys_nodose sys_nodose = true.
Proof. repeat split; vm_compute; reflexivity. Qed.

(* ==== open: C12-EQ-DOSING-ORDER — == depends on the graph order through dosing_compartments: the
   same two-output system entered in two orders has the same t, compartments and flows and the same
   encoding (hence the same key), yet == says False ==== *)
Definition perdose : compartment strG :=
  mkComp strG "PERIPHERAL2" "Function('A_PERIPHERAL2')(Symbol('t'))" [Bolus strG "Symbol('AMT')" 1%Z] zero zero one.
Definition metab : compartment strG :=
  mkComp strG "METABOLITE" "Function('A_METABOLITE')(Symbol('t'))" [] zero zero one.
Definition sys_pm : csys strG :=
  mkCs strG [(NOut strG, []); (NComp strG perdose, [(NOut strG, "Symbol('K2')")]); (NComp strG metab, [(NOut strG, "Symbol('K1')")])] "Symbol('t')".
Definition sys_mp : csys strG :=
  mkCs strG [(NOut strG, []); (NComp strG metab, [(NOut strG, "Symbol('K1')")]); (NComp strG perdose, [(NOut strG, "Symbol('K2')")])] "Symbol('t')".
Theorem eq_dosing_order_refuted :
  cs_ok strG sys_pm = true /\ cs_ok strG sys_mp = true /\ dosing_agree (OCs sys_pm) (OCs sys_mp) = false /\
  cs_math_equal sys_pm sys_mp = true /\ cs_canon strG sys_pm = cs_canon strG sys_mp /\
  cs_eq strG sys_pm sys_mp = false.
Proof. repeat split; vm_compute; reflexivity. Qed.

(* ---- not a finding, but the reason for a side condition: a NaN bound (only the plain
   constructor accepts one since caae827): the round trip is exact, yet == says False ---- *)
Example nan_bound_unequal :
  let p := mkParameter "X" (NFloat (FFin 1)) (NFloat FNaN) (NFloat FInf) false in
  param_from_dict (param_to_dict p) = Some p /\ param_eqb p p = false /\ param_no_nan p = false.
Proof. repeat split; reflexivity. Qed.

(* ---- C12-SREPR-DISTRIBUTES: the engine assumption deser (ser e) = Some e is what the real engine
   breaks: symengine keeps (1/2)*(A + B) (here [true]), sympy's srepr is that of A/2 + B/2 and
   parse_expr returns the distributed sum (here [false]); symengine's == is structural.  An engine
   with this behaviour makes the round trip of an assignment fail. ---- *)
Definition distG : engine :=
  mkEngine bool Bool.eqb (fun _ => "Add(Mul(Rational(1, 2), Symbol('A')), Mul(Rational(1, 2), Symbol('B')))")
           (fun _ => Some false) (fun _ => "") (fun _ => false) (fun _ => "")
           string String.eqb (fun s => s) (fun s => Some s)
           string String.eqb (fun s => s) (fun s => s) (fun s => Some s).
Theorem srepr_contract_refuted :
  exists (a : assignment distG),
    (exists e, deser distG (ser distG e) <> Some e) /\
    exists b, assign_from_dict distG (assign_to_dict distG a) = Some b /\ assign_eqb distG b a = false.
Proof.
  exists (mkAssign distG false true). split.
  - exists true. cbn. discriminate.
  - eexists. split; vm_compute; reflexivity.
Qed.

(* ==== open: C12-HASH-TOOLOPTIONS-ORDER — tool options are compared order blind but written and
   encoded in insertion order: equal models, different keys ==== *)
Definition est_tool (tool : list (pkey * pyv)) : step strG :=
  StEst strG (mkEst strG "FOCE" true None false None false None None None None [] [] (DStrs strG []) false
                    (mkCommon None None None tool)).
Definition M_tool (tool : list (pkey * pyv)) : model strG := model_of [] [est_tool tool] no_di None.
Definition tool_ab : list (pkey * pyv) := [(KStr "NITER", PInt 5%Z); (KStr "ISAMPLE", PInt 20%Z)].
Definition tool_ba : list (pkey * pyv) := [(KStr "ISAMPLE", PInt 20%Z); (KStr "NITER", PInt 5%Z)].
Theorem hash_tooloptions_order_refuted :
  model_eq strG (M_tool tool_ab) (M_tool tool_ba) = true /\
  tool_order_same (OModel (M_tool tool_ab)) (OModel (M_tool tool_ba)) = false /\
  forall (dumps : pyv -> string) (digest : Type) (H : string -> digest) (ds : string),
    let d := model_encode strG (blank strG (M_tool tool_ab)) in let d' := model_encode strG (blank strG (M_tool tool_ba)) in
    dumps_sep dumps d d' -> H_sep H (ds ++ dumps d) (ds ++ dumps d') ->
    key strG dumps digest H ds (M_tool tool_ab) <> key strG dumps digest H ds (M_tool tool_ba).
Proof.
  split; [vm_compute; reflexivity|]. split; [vm_compute; reflexivity|].
  intros dumps digest H ds d d' DS HS. apply key_separates_model; try assumption.
  apply pyv_same_false. vm_compute. reflexivity.
Qed.

(* ==== open: C12-DATASET-INDEX-REPR — the index reaches the dataset hash only through repr(df.index):
   labels that repr() elides (more than 100) do not count, and a RangeIndex differs from the same
   labels held as a plain Index ==== *)
Definition labels_upto (n : nat) : list cell := map (fun i => CInt (Z.of_nat i)) (seq 0 n).
Definition frame_idx (i : index) (n : nat) : frame :=
  mkFrame ["A"] ["float64"] i (map (fun i => [CFloat (Z.of_nat i)]) (seq 0 n)).
Definition labels_101_other : list cell := firstn 50 (labels_upto 101) ++ [CInt 100000%Z] ++ skipn 51 (labels_upto 101).
Definition frame_l101 : frame := frame_idx (ILabels (labels_upto 101) "int64" None) 101.
Definition frame_l101' : frame := frame_idx (ILabels labels_101_other "int64" None) 101.
(* different frames (another label in the middle of the index), same bytes for EVERY engine, hence same key *)
Theorem dataset_index_elided_refuted :
  frame_equals frame_l101 frame_l101' = false /\ index_elided frame_l101 = true /\
  forall rowhash repr_names repr_index repr_dtypes,
    ds_bytes rowhash repr_names repr_index repr_dtypes frame_l101 = ds_bytes rowhash repr_names repr_index repr_dtypes frame_l101'.
Proof.
  split; [vm_compute; reflexivity|]. split; [vm_compute; reflexivity|].
  intros. apply ds_bytes_same_input. vm_compute. reflexivity.
Qed.
(* equal frames (RangeIndex(0,3,1) vs Index([0,1,2])), different bytes for every engine that shows the index *)
Definition frame_range3 : frame := frame_idx (IRange 0 3 1) 3.
Definition frame_labels3 : frame := frame_idx (ILabels (labels_upto 3) "int64" None) 3.
Theorem dataset_index_kind_refuted :
  frame_equals frame_range3 frame_labels3 = true /\ index_kind_same frame_range3 frame_labels3 = false /\
  forall rowhash repr_names repr_index repr_dtypes,
    (forall r, String.length (rowhash r) = 8%nat) -> rows_sep rowhash (f_rows frame_range3) (f_rows frame_labels3) ->
    decodable repr_names -> decodable repr_index -> (forall a b, repr_dtypes a = repr_dtypes b -> a = b) ->
    ds_bytes rowhash repr_names repr_index repr_dtypes frame_range3 <> ds_bytes rowhash repr_names repr_index repr_dtypes frame_labels3.
Proof.
  split; [vm_compute; reflexivity|]. split; [vm_compute; reflexivity|].
  intros rh rn ri rd W I N X D E.
  pose proof (ds_bytes_read_back rh rn ri rd W N X D frame_range3 frame_labels3 I eq_refl E) as Q.
  vm_compute in Q. discriminate.
Qed.

(* ==== Results JSON: the attribute kinds read_results does not give back ==== *)
Definition res_of (f : RF) : results jtbl jtbl := Res "pharmpy.workflows.results" "ModelfitResults" [("__version__", FPl (PStr "1.2.0")); ("x", f)].
(* open: C12-RESULTS-PATH-READ — a Path attribute is written as {'path': ..., '__class__': 'PosixPath'}
   and the decoder calls Path() on that dictionary: read_results raises TypeError *)
Theorem results_path_refuted :
  exists r, results_supported jtbl jtbl r = false /\ has_path r = true /\
            (exists p, jenc r = Some p /\ jdec (normalise p) = None).
Proof. exists (res_of (FPa "/tmp/run1")). split; [reflexivity|]. split; [reflexivity|]. eexists. split; vm_compute; reflexivity. Qed.
(* by design (not findings): a Model attribute comes back as None, a tuple as a list, an int key as
   text; a set / ndarray / numpy scalar makes to_json raise *)
Theorem results_unsupported_refuted :
  (exists p r', jenc (res_of FMo) = Some p /\ jdec (normalise p) = Some r' /\ results_same r' (res_of FMo) = false) /\
  (exists p r', jenc (res_of (FPl (PTuple [PInt 1%Z]))) = Some p /\ jdec (normalise p) = Some r' /\
                results_same r' (res_of (FPl (PTuple [PInt 1%Z]))) = false) /\
  (exists p r', jenc (res_of (FPl (PDict [(KInt 1%Z, PNone)]))) = Some p /\ jdec (normalise p) = Some r' /\
                results_same r' (res_of (FPl (PDict [(KInt 1%Z, PNone)]))) = false) /\
  jenc (res_of FOt) = None.
Proof. repeat split; try (eexists; eexists; repeat split; vm_compute; reflexivity). Qed.

(* ==== fixed: C12-GENERIC-VALUE-TYPE (7115d86) — convert_model carries value_type over: a LIKELIHOOD
   model converts to an equal model and its generic code parses back to it ==== *)
Definition M_likelihood : model strG :=
  mkModel strG "m" "" [] no_rvs [] [] no_di "LIKELIHOOD" [("Symbol('Y')", 1%Z)] [("Symbol('Y')", "Symbol('Y')")] None.
Example generic_value_type_fixed :
  model_eq strG (generic_convert strG M_likelihood) M_likelihood = true /\
  forall (dumps : pyv -> string) (loads : string -> option pyv) version,
    loads (dumps (generic_code_dict strG version (generic_convert strG M_likelihood))) =
      Some (normalise (generic_code_dict strG version (generic_convert strG M_likelihood))) ->
    generic_roundtrip strG dumps loads version M_likelihood = Some (strip strG M_likelihood) /\
    model_eq strG (strip strG M_likelihood) M_likelihood = true.
Proof.
  split; [vm_compute; reflexivity|]. intros dumps loads version L. split; [|vm_compute; reflexivity].
  apply (generic_code_roundtrip_lemma strG strG_ok dumps loads version M_likelihood L); try reflexivity.
  - intros kv [E|[]]. subst. reflexivity.
  - intros x Hx. discriminate.
Qed.

(* ==== fixed: C12-MODELFIT-GRADIENTS-DEFAULT (36ee5f2) — gradients_iterations defaults to None: a
   ModelfitResults that leaves it unset is a supported results object and comes back unchanged ==== *)
Definition mfr_default : results jtbl jtbl :=
  Res "pharmpy.workflows.results" "ModelfitResults"
      [("__version__", FPl (PStr "1.2.0")); ("ofv", FPl (PFloat (FFin (3 # 2)))); ("gradients_iterations", FPl PNone)].
Example results_gradients_default_fixed :
  results_supported jtbl jtbl mfr_default = true /\
  exists p r', jenc mfr_default = Some p /\ jdec (normalise p) = Some r' /\ results_same r' mfr_default = true.
Proof. split; [reflexivity|]. eexists. eexists. repeat split; vm_compute; reflexivity. Qed.
