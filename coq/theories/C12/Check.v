(* PV.C12.Check — the comparison run inside Coq by the correspondence check.  Objects of the real
   implementation are exported as terms over the [strG] engine (every symbolic leaf is its srepr
   text); the model's to_dict / normalise / from_dict / == are re-run on them and compared with
   what the implementation produced (tags 1..9); the property itself is evaluated on the
   implementation's answers (tags >= 11); guard facts are reported as tags >= 200. *)
From Coq Require Import QArith ZArith List Bool Arith String Ascii.
From PV Require Import C12.Model.
Import ListNotations.
Local Open Scope nat_scope.

(* ---- short names for the exporter (harness/props/c12.py) ---- *)
Definition Str (l : list nat) : string :=
  fold_right (fun c s => String (ascii_of_nat c) s) EmptyString l.
Definition Par := mkParameter.
Definition Lev := mkLevel.
Definition Nd := mkNormal strG.
Definition Jn := mkJoint strG.
Definition DN := DNormal strG.
Definition DJ := DJoint strG.
Definition Rv := mkRvs strG.
Definition As := mkAssign strG.
Definition Bo := Bolus strG.
Definition Inf := Infusion strG.
Definition Cm := mkComp strG.
Definition NO := NOut strG.
Definition NC := NComp strG.
Definition Cs := mkCs strG.
Definition SA := SAssign strG.
Definition SO := SOde strG.
Definition Co := mkCommon.
Definition Es := mkEst strG.
Definition Si := mkSim.
Definition SE := StEst strG.
Definition SS := StSim strG.
Definition DSy := DSyms strG.
Definition DSt := DStrs strG.
Definition Col := mkColumn strG.
Definition Di := mkDi strG.
Definition Mo := mkModel strG.

Inductive obj :=
| OParam (p : parameter)
| OParams (l : list parameter)
| ODist (d : dist strG)
| ORvs (r : rvs strG)
| OAssign (a : assignment strG)
| ODose (d : dose strG)
| OComp (c : compartment strG)
| OCs (s : csys strG)
| OStmts (l : list (stmt strG))
| OStep (s : step strG)
| OSteps (l : list (step strG))
| OColumn (c : column strG)
| ODi (d : datainfo strG)
| OModel (m : model strG).

Definition obj_to_dict (o : obj) : pyv :=
  match o with
  | OParam p => param_to_dict p
  | OParams l => params_to_dict l
  | ODist d => dist_to_dict strG d
  | ORvs r => rvs_to_dict strG r
  | OAssign a => assign_to_dict strG a
  | ODose d => dose_to_dict strG d
  | OComp c => comp_to_dict strG c
  | OCs s => cs_to_dict strG s
  | OStmts l => stmts_to_dict strG l
  | OStep s => step_to_dict strG s
  | OSteps l => steps_to_dict strG l
  | OColumn c => column_to_dict strG c
  | ODi d => di_to_dict strG d
  | OModel m => model_to_dict strG m
  end.

(* the from_dict of the class of [o] *)
Definition obj_from_dict (o : obj) (v : pyv) : option obj :=
  match o with
  | OParam _ => option_map OParam (param_from_dict v)
  | OParams _ => option_map OParams (params_from_dict v)
  | ODist _ => option_map ODist (dist_from_dict strG v)
  | ORvs _ => option_map ORvs (rvs_from_dict strG v)
  | OAssign _ => option_map OAssign (assign_from_dict strG v)
  | ODose _ => option_map ODose (dose_from_dict strG v)
  | OComp _ => option_map OComp (comp_from_dict strG v)
  | OCs _ => option_map OCs (cs_from_dict strG v)
  | OStmts _ => option_map OStmts (stmts_from_dict strG v)
  | OStep _ => option_map OStep (step_from_dict strG v)
  | OSteps _ => option_map OSteps (steps_from_dict strG v)
  | OColumn _ => option_map OColumn (column_from_dict strG v)
  | ODi _ => option_map ODi (di_from_dict strG v)
  | OModel _ => option_map OModel (model_from_dict strG v)
  end.

(* Python's == *)
Definition steps_eqb (a b : list (step strG)) : bool :=
  Nat.eqb (List.length a) (List.length b) && zip_all (step_eqb strG) a b.
Definition obj_eq (a b : obj) : option bool :=
  match a, b with
  | OParam x, OParam y => Some (param_eqb x y)
  | OParams x, OParams y => Some (params_eqb x y)
  | ODist x, ODist y => Some (dist_eqb strG x y)
  | ORvs x, ORvs y => Some (rvs_eqb strG x y)
  | OAssign x, OAssign y => Some (assign_eqb strG x y)
  | ODose x, ODose y => Some (dose_eqb strG x y)
  | OComp x, OComp y => Some (comp_eqb strG x y)
  | OCs x, OCs y => Some (cs_eq strG x y)
  | OStmts x, OStmts y => Some (stmts_eq strG x y)
  | OStep x, OStep y => Some (step_eqb strG x y)
  | OSteps x, OSteps y => Some (steps_eqb x y)
  | OColumn x, OColumn y => Some (column_eqb strG x y)
  | ODi x, ODi y => Some (Nat.eqb (List.length (di_columns strG x)) (List.length (di_columns strG y))
                          && zip_all (column_eqb strG) (di_columns strG x) (di_columns strG y))
  | OModel x, OModel y => Some (model_eq strG x y)
  | _, _ => Some false
  end.

(* sameness of two exported objects: to_dict is injective on everything from_dict reads back
   (Properties: *_to_dict_injective), the remaining fields are compared directly *)
Definition derivs_tag (d : derivs strG) : nat := match d with DSyms _ _ => 0 | DStrs _ _ => 1 end.
Definition step_extra (a b : step strG) : bool :=
  match a, b with
  | StEst _ x, StEst _ y => Nat.eqb (derivs_tag (es_derivatives strG x)) (derivs_tag (es_derivatives strG y))
  | _, _ => true end.
Definition cats_tag (c : cats) : nat := match c with CNone => 0 | CTuple _ => 1 | CMap _ => 2 end.
Definition col_extra (a b : column strG) : bool := Nat.eqb (cats_tag (ci_categories strG a)) (cats_tag (ci_categories strG b)).
Definition di_extra (a b : datainfo strG) : bool :=
  opt_eqb String.eqb (di_path strG a) (di_path strG b) && zip_all col_extra (di_columns strG a) (di_columns strG b).
Definition obj_same (a b : obj) : bool :=
  pyv_same (obj_to_dict a) (obj_to_dict b) &&
  match a, b with
  | OStep x, OStep y => step_extra x y
  | OSteps x, OSteps y => zip_all step_extra x y
  | OColumn x, OColumn y => col_extra x y
  | ODi x, ODi y => di_extra x y
  | OModel x, OModel y =>
      String.eqb (m_name strG x) (m_name strG y) && String.eqb (m_description strG x) (m_description strG y)
      && di_extra (m_datainfo strG x) (m_datainfo strG y) && zip_all step_extra (m_steps strG x) (m_steps strG y)
  | OParam _, OParam _ | OParams _, OParams _ | ODist _, ODist _ | ORvs _, ORvs _ | OAssign _, OAssign _
  | ODose _, ODose _ | OComp _, OComp _ | OCs _, OCs _ | OStmts _, OStmts _ => true
  | _, _ => false
  end.
Definition oobj_same (a b : option obj) : bool :=
  match a, b with Some x, Some y => obj_same x y | None, None => true | _, _ => false end.
Definition obool_eqb (a b : option bool) : bool := opt_eqb Bool.eqb a b.

(* ---- guards ---- *)
(* int dictionary keys held verbatim (categories mapping, tool options, initial individual
   estimates' index) become text in JSON: tag 203 when one is present *)
Fixpoint no_int_key (v : pyv) : bool :=
  match v with
  | PList l => forallb no_int_key l
  | PTuple l => forallb no_int_key l
  | PDict d => forallb (fun kv => match kv with (KStr _, x) => no_int_key x | (KInt _, _) => false end) d
  | _ => true
  end.
Definition int_key_free (o : obj) : bool :=
  let steps := forallb (fun s => match s with
                                 | StEst _ e => no_int_key (PDict (co_tool (es_common strG e)))
                                 | StSim _ x => no_int_key (PDict (co_tool (ss_common x))) end) in
  let cols := forallb (fun c => no_int_key (cats_to_py (ci_categories strG c))) in
  match o with
  | OStep s => steps [s]
  | OSteps l => steps l
  | OColumn c => cols [c]
  | ODi d => cols (di_columns strG d)
  | OModel m => steps (m_steps strG m) && cols (di_columns strG (m_datainfo strG m))
                && match m_iie strG m with Some x => no_int_key x | None => true end
  | _ => true
  end.
(* derivatives still symbolic (to_dict flattens them to text): tag 201 *)
Definition derivs_free (o : obj) : bool :=
  let steps := forallb (fun s => match s with
                                 | StEst _ e => derivs_stable strG (es_derivatives strG e)
                                 | StSim _ _ => true end) in
  match o with
  | OStep s => steps [s]
  | OSteps l => steps l
  | OModel m => steps (m_steps strG m)
  | _ => true
  end.
Definition obj_no_nan (o : obj) : bool :=
  match o with
  | OParam p => param_no_nan p
  | OParams l => forallb param_no_nan l
  | OModel m => forallb param_no_nan (m_parameters strG m)
  | _ => true
  end.
(* every compartment graph is one the builder can produce, with the output node first *)
Definition graphs_ok (o : obj) : bool :=
  match o with
  | OCs c => cs_ok strG c
  | OStmts l => forallb (stmt_ok strG) l
  | OModel m => forallb (stmt_ok strG) (m_statements strG m)
  | _ => true
  end.

Definition tag (b : bool) (t : nat) : list nat := if b then [] else [t].

(* ------------------------------------------------------------------------------------------ *)
(* one object: dictionary, JSON image, both ways back                                          *)
(* ------------------------------------------------------------------------------------------ *)
Record case := mkCase {
  c_obj : obj;
  c_dict : pyv;                   (* x.to_dict() *)
  c_json : pyv;                   (* json.loads(json.dumps(x.to_dict())) *)
  c_back : option obj;            (* cls.from_dict(x.to_dict()); None = raised *)
  c_back_json : option obj;       (* cls.from_dict(json.loads(json.dumps(x.to_dict()))) *)
  c_eq_back : option bool;        (* back == x; None = raised *)
  c_eq_json : option bool;        (* back_json == x *)
  c_dumps_ok : bool;              (* json.dumps(x.to_dict()) does not raise *)
  c_out_preds : option (list nat);(* for a system: indices (node order) of list(g.predecessors(output)) *)
  c_engine_ok : bool;             (* every symbolic leaf survives deserialize(serialize(.)) and srepr is stable *)
  c_json_idem : bool;             (* dumps(loads(dumps(d))) == dumps(d) and loads(dumps(loads(dumps d))) == loads(dumps d) *)
  c_generic : option bool;        (* for a model: read_model_from_string(convert_model(m,'generic').code) == m *)
  c_generic_file : option bool;   (* for a model: write_model of the generic model, read_model of the file, == m;
                                     Some false also when reading raises *)
  c_encoded : option pyv;         (* for a model: json.loads(hashing._encode(m)), the dictionary ModelHash digests *)
  c_generic_eq : option bool;     (* for a model: convert_model(m, 'generic') == m *)
  c_history : option (list (bop strG))  (* for a system built by add_compartment / add_flow / remove_flow only: that history *)
}.

Definition preds_idx (c : csys strG) : list nat :=
  flat_map (fun p => if has_edge_to_out strG (snd (snd p)) then [fst p] else [])
           (combine (seq 0 (List.length (cs_g strG c))) (cs_g strG c)).

Definition BAC := BAddComp strG.
Definition BAF := BAddFlow strG.
Definition BRF := BRemoveFlow strG.
Definition graph_same (g h : graph strG) : bool :=
  list_eqb (fun p q => node_eqb strG (fst p) (fst q)
                       && list_eqb (fun a b => node_eqb strG (fst a) (fst b) && String.eqb (snd a) (snd b)) (snd p) (snd q)) g h.
Definition verdict (c : case) : list nat :=
  let x := c_obj c in
  let md := obj_to_dict x in
  let j := c_dumps_ok c in
  (* correspondence *)
  tag (pyv_same md (c_dict c)) 1 ++
  tag (negb j || pyv_same (normalise (c_dict c)) (c_json c)) 2 ++
  tag (oobj_same (obj_from_dict x (c_dict c)) (c_back c)) 3 ++
  tag (negb j || oobj_same (obj_from_dict x (c_json c)) (c_back_json c)) 4 ++
  tag (match c_back c with Some b => obool_eqb (obj_eq b x) (c_eq_back c) | None => true end) 5 ++
  tag (match c_back_json c with Some b => obool_eqb (obj_eq b x) (c_eq_json c) | None => true end) 6 ++
  tag (match x, c_out_preds c with OCs s, Some l => list_eqb Nat.eqb (preds_idx s) l | _, _ => true end) 7 ++
  tag (match x, c_encoded c with OModel m, Some e => pyv_same (normalise (model_encode strG m)) e | _, _ => true end) 10 ++
  tag (match x, c_generic_eq c with OModel m, Some b => Bool.eqb (model_eq strG (generic_convert strG m) m) b | _, _ => true end) 43 ++
  tag (match c_generic_eq c with Some false => false | _ => true end) 44 ++
  tag (match x, c_history c with OCs s, Some h => graph_same (run_bops strG h) (cs_g strG s) | _, _ => true end) 45 ++
  (* the property on the implementation's own answers *)
  tag (match c_eq_back c with Some true => true | _ => false end) 11 ++
  tag (negb j || match c_eq_json c with Some true => true | _ => false end) 12 ++
  tag (match c_generic c with Some false => false | _ => true end) 16 ++
  tag (match c_generic_file c with Some false => false | _ => true end) 19 ++
  tag (c_engine_ok c) 17 ++
  tag (negb j || c_json_idem c) 18 ++
  tag j 20 ++
  (* guards *)
  tag (derivs_free x) 201 ++ tag (int_key_free x) 203 ++
  tag (obj_no_nan x) 205 ++ tag (graphs_ok x) 206.

(* ------------------------------------------------------------------------------------------ *)
(* two objects: ==, dictionaries, keys                                                        *)
(* ------------------------------------------------------------------------------------------ *)
Record pcase := mkPair {
  p_a : obj; p_b : obj;
  p_eq : option bool;             (* a == b; None = raised *)
  p_text_eq : bool;               (* the texts ModelHash digests (hashing._encode) are equal *)
  p_key_eq : option bool;         (* models: str(ModelHash(a)) == str(ModelHash(b)) (fresh processes) *)
  p_same_ds : bool;               (* models: DatasetHash equal *)
  p_key_stable : bool             (* models: the keys of a and of b are the same in every process *)
}.

(* the dictionary whose text enters the key *)
Definition obj_encode (o : obj) : pyv :=
  match o with
  | OCs s => cs_to_dict strG (cs_canon strG s)
  | OModel m => model_encode strG m
  | _ => obj_to_dict o
  end.
(* the two objects hold the same t, compartments and flows (all that enters the differential
   equations) and, where == also looks at them, the same dosing compartments *)
Definition cs_math_equal (x y : csys strG) : bool :=
  expr_eqb strG (cs_t strG x) (cs_t strG y) && dod_eqb strG (cs_g strG x) (cs_g strG y).
Definition stmt_dosing_agree (a b : stmt strG) : bool :=
  match a, b with
  | SOde _ x, SOde _ y => negb (cs_math_equal x y) || cs_eq strG x y
  | _, _ => true end.
Definition dosing_agree (a b : obj) : bool :=
  match a, b with
  | OCs x, OCs y => stmt_dosing_agree (SOde strG x) (SOde strG y)
  | OStmts x, OStmts y => zip_all stmt_dosing_agree x y
  | OModel x, OModel y => zip_all stmt_dosing_agree (m_statements strG x) (m_statements strG y)
  | _, _ => true end.

(* tool options (a frozenmapping: == is order blind) are written and encoded in insertion order *)
Definition step_tool_keys (s : step strG) : list pkey :=
  match s with StEst _ e => map fst (co_tool (es_common strG e)) | StSim _ x => map fst (co_tool (ss_common x)) end.
Definition tool_order_same (a b : obj) : bool :=
  match a, b with
  | OModel x, OModel y =>
      list_eqb (list_eqb pkey_same) (map step_tool_keys (m_steps strG x)) (map step_tool_keys (m_steps strG y))
  | _, _ => true end.

Definition pverdict (c : pcase) : list nat :=
  let a := p_a c in let b := p_b c in
  let texts := pyv_same (normalise (obj_encode a)) (normalise (obj_encode b)) in
  tag (obool_eqb (obj_eq a b) (p_eq c)) 5 ++
  tag (Bool.eqb texts (p_text_eq c)) 8 ++
  (* the key is a function of the dataset bytes and the encoded text, and of nothing else *)
  tag (match p_key_eq c with Some k => Bool.eqb k (p_text_eq c && p_same_ds c) | None => true end) 9 ++
  (* equal content, same data => same key *)
  tag (match p_eq c, p_key_eq c with
       | Some true, Some k => k || negb (p_same_ds c)
       | Some true, None => p_text_eq c
       | _, _ => true end) 13 ++
  (* different content => different key *)
  tag (match p_eq c, p_key_eq c with
       | Some false, Some k => negb k
       | Some false, None => negb (p_text_eq c)
       | _, _ => true end) 14 ++
  tag (p_key_stable c) 15 ++
  (* different data => different key *)
  tag (match p_key_eq c with Some true => p_same_ds c | _ => true end) 21 ++
  tag (dosing_agree a b) 209 ++ tag (tool_order_same a b) 210 ++
  tag (derivs_free a && derivs_free b) 201 ++
  tag (obj_no_nan a && obj_no_nan b) 205.

(* ------------------------------------------------------------------------------------------ *)
(* from_dict on a dictionary that is not a to_dict() image (a key deleted or added)            *)
(* ------------------------------------------------------------------------------------------ *)
Record fcase := mkF {
  f_class : obj;                  (* an object of the class whose from_dict is called *)
  f_dict : pyv;
  f_back : option obj             (* what the implementation returned; None = raised *)
}.
Definition fverdict (c : fcase) : list nat :=
  tag (oobj_same (obj_from_dict (f_class c) (f_dict c)) (f_back c)) 3.

(* ------------------------------------------------------------------------------------------ *)
(* two datasets: DataFrame.equals, DatasetHash                                                 *)
(* ------------------------------------------------------------------------------------------ *)
Record dcase := mkD {
  d_a : frame; d_b : frame;
  d_equals : bool;               (* a.equals(b) *)
  d_hash_eq : bool;              (* str(DatasetHash(a)) == str(DatasetHash(b)) *)
  d_stable : bool                (* both hashes are the same in every interpreter process *)
}.
Definition index_kind_same (a b : frame) : bool :=
  match f_index a, f_index b with IRange _ _ _, IRange _ _ _ | ILabels _ _ _, ILabels _ _ _ => true | _, _ => false end.
Definition index_name_of (f : frame) : option string := match f_index f with ILabels _ _ n => n | IRange _ _ _ => None end.
Definition index_name_same (a b : frame) : bool := opt_str_eqb (index_name_of a) (index_name_of b).
Definition index_elided (f : frame) : bool :=
  match index_view_of (f_index f) with VTrunc _ _ _ _ _ => true | _ => false end.
Definition cells_bit_same (a b : frame) : bool :=
  negb (list_eqb (list_eqb cell_equals) (f_rows a) (f_rows b)) || list_eqb (list_eqb cell_same) (f_rows a) (f_rows b).
Definition dverdict (c : dcase) : list nat :=
  let a := d_a c in let b := d_b c in
  tag (Bool.eqb (frame_equals a b) (d_equals c)) 31 ++
  (* the hash is a function of ds_input and of nothing else *)
  tag (Bool.eqb (ds_input_same a b) (d_hash_eq c)) 30 ++
  (* equal frames => same hash ; different frames => different hash ; same hash in every process *)
  tag (negb (d_equals c) || d_hash_eq c) 23 ++
  tag (d_equals c || negb (d_hash_eq c)) 24 ++
  tag (d_stable c) 25 ++
  tag (index_kind_same a b) 211 ++ tag (negb (index_elided a && index_elided b)) 212 ++ tag (cells_bit_same a b) 213 ++
  tag (index_name_same a b) 214.

(* ------------------------------------------------------------------------------------------ *)
(* a results object through to_json / read_results                                            *)
(* ------------------------------------------------------------------------------------------ *)
(* tables and logs are identified with the dictionaries _df_to_json / Log.to_dict produce *)
Definition jtbl := list (pkey * pyv).
Definition RF := rfield jtbl jtbl.
Definition Res := mkResults jtbl jtbl.
Definition FPl : pyv -> RF := FPlain jtbl jtbl.
Definition FFr : jtbl -> RF := FFrame jtbl jtbl.
Definition FSe : jtbl -> RF := FSeries jtbl jtbl.
Definition FLo : jtbl -> RF := FLog jtbl jtbl.
Definition FMo : RF := FModel jtbl jtbl.
Definition FPa : string -> RF := FPath jtbl jtbl.
Definition FOt : RF := FOther jtbl jtbl.
Definition jenc := encode_results jtbl (fun t => t) jtbl (fun l => l).
(* Log.from_dict takes the entries in order of d.values(); Log.to_dict numbers them 0, 1, ... again *)
Definition rekey (d : jtbl) : jtbl :=
  map (fun ikv => (KInt (Z.of_nat (fst ikv)), snd (snd ikv))) (combine (seq 0 (List.length d)) d).
Definition jdec := decode_results jtbl (fun d => Some d) jtbl (fun d => Some (rekey d)).
Definition rfield_same (a b : RF) : bool :=
  match a, b with
  | FPlain _ _ x, FPlain _ _ y => pyv_same x y
  | FFrame _ _ x, FFrame _ _ y | FSeries _ _ x, FSeries _ _ y | FLog _ _ x, FLog _ _ y => pyv_same (PDict x) (PDict y)
  | FModel _ _, FModel _ _ | FOther _ _, FOther _ _ => true
  | FPath _ _ x, FPath _ _ y => String.eqb x y
  | _, _ => false end.
Definition results_same (a b : results jtbl jtbl) : bool :=
  String.eqb (r_module _ _ a) (r_module _ _ b) && String.eqb (r_class _ _ a) (r_class _ _ b)
  && list_eqb (fun x y => String.eqb (fst x) (fst y) && rfield_same (snd x) (snd y)) (r_fields _ _ a) (r_fields _ _ b).
Definition oresults_same (a b : option (results jtbl jtbl)) : bool :=
  match a, b with Some x, Some y => results_same x y | None, None => true | _, _ => false end.
Record rcase := mkR {
  rc_obj : results jtbl jtbl;
  rc_json : option pyv;                      (* json.loads(r.to_json()); None = to_json raised *)
  rc_back : option (results jtbl jtbl);      (* read_results(r.to_json()); None = raised *)
  rc_equal : bool                            (* every attribute of the read-back object equals the original's *)
}.
Definition opyv_same (a b : option pyv) : bool :=
  match a, b with Some x, Some y => pyv_same x y | None, None => true | _, _ => false end.
Definition has_path (r : results jtbl jtbl) : bool :=
  existsb (fun nf => match snd nf with FPath _ _ _ => true | _ => false end) (r_fields _ _ r).
Definition rverdict (c : rcase) : list nat :=
  let r := rc_obj c in
  tag (opyv_same (option_map normalise (jenc r)) (rc_json c)) 40 ++
  tag (match rc_json c with Some j => oresults_same (jdec j) (rc_back c) | None => true end) 41 ++
  tag (rc_equal c) 42 ++
  tag (results_supported jtbl jtbl r) 220 ++ tag (negb (has_path r)) 221.
