(* PV.C12.Model — executable model of pharmpy's dictionary serialisation (to_dict / from_dict of
   Parameter(s), VariabilityLevel/Hierarchy, Normal/JointNormalDistribution, RandomVariables,
   Assignment, Bolus/Infusion, Compartment, CompartmentalSystem, Statements, Estimation/Simulation
   step(s), ColumnInfo/DataInfo, Model), of `json.loads . json.dumps` on the Python values these
   produce, of `==` on the same objects, and of the database key of workflows/hashing.py.

   The symbolic engines are NOT modelled: sympy.srepr / parse_expr (Expr, Matrix, Unit), str() of a
   symbol, json's text format, sha256 and pandas' row hashing are fields of an [engine] record /
   Section variables; every theorem is quantified over them and states what it assumes of them.
   No proofs in this file. *)
From Coq Require Import QArith ZArith List Bool Arith String Ascii DecimalString Lia.
Import ListNotations.
Local Open Scope nat_scope.
Local Open Scope string_scope.

Notation "x <- e ;; f" := (match e with Some x => f | None => None end)
  (at level 61, e at next level, right associativity).

(* ------------------------------------------------------------------------------------------ *)
(* Python values as produced by to_dict(): what json.dumps accepts                             *)
(* ------------------------------------------------------------------------------------------ *)
Inductive fl := FFin (q : Q) | FInf | FNegInf | FNaN.           (* a Python float, exactly *)
Inductive num := NInt (z : Z) | NFloat (f : fl).                 (* int or float *)
Inductive pkey := KStr (s : string) | KInt (z : Z).              (* dict keys that occur *)

Inductive pyv :=
| PNone
| PBool (b : bool)
| PInt (z : Z)
| PFloat (f : fl)
| PStr (s : string)
| PList (l : list pyv)
| PTuple (l : list pyv)
| PDict (d : list (pkey * pyv)).     (* insertion ordered *)

Definition of_num (n : num) : pyv := match n with NInt z => PInt z | NFloat f => PFloat f end.
Definition of_opt {A} (f : A -> pyv) (o : option A) : pyv := match o with Some a => f a | None => PNone end.

Definition Z_to_string (z : Z) : string := NilZero.string_of_int (Z.to_int z).

(* json.loads (json.dumps v): tuples become lists, int keys become their decimal text; floats
   survive exactly (repr round trip; Infinity / -Infinity / NaN are emitted and accepted); dict
   order is kept. *)
Definition norm_key (k : pkey) : pkey := match k with KStr s => KStr s | KInt z => KStr (Z_to_string z) end.

Fixpoint normalise (v : pyv) : pyv :=
  match v with
  | PList l => PList (map normalise l)
  | PTuple l => PList (map normalise l)
  | PDict d => PDict (map (fun kv => match kv with (k, x) => (norm_key k, normalise x) end) d)
  | _ => v
  end.

Definition norm_items (d : list (pkey * pyv)) : list (pkey * pyv) :=
  map (fun kv => match kv with (k, x) => (norm_key k, normalise x) end) d.

(* a value that json.loads can return *)
Fixpoint is_json (v : pyv) : bool :=
  match v with
  | PList l => forallb is_json l
  | PTuple _ => false
  | PDict d => forallb (fun kv => match kv with (KStr _, x) => is_json x | (KInt _, _) => false end) d
  | _ => true
  end.

(* ---- structural equality (used to compare exported observations inside Coq) ---- *)
Definition fl_same (a b : fl) : bool :=
  match a, b with
  | FFin p, FFin q => Qeq_bool p q
  | FInf, FInf | FNegInf, FNegInf | FNaN, FNaN => true
  | _, _ => false end.
Definition num_same (a b : num) : bool :=
  match a, b with NInt x, NInt y => Z.eqb x y | NFloat x, NFloat y => fl_same x y | _, _ => false end.
Definition pkey_same (a b : pkey) : bool :=
  match a, b with KStr x, KStr y => String.eqb x y | KInt x, KInt y => Z.eqb x y | _, _ => false end.

Fixpoint list_eqb {A} (eqb : A -> A -> bool) (a b : list A) : bool :=
  match a, b with
  | [], [] => true
  | x :: a', y :: b' => eqb x y && list_eqb eqb a' b'
  | _, _ => false
  end.
Definition opt_eqb {A} (eqb : A -> A -> bool) (a b : option A) : bool :=
  match a, b with Some x, Some y => eqb x y | None, None => true | _, _ => false end.

Fixpoint pyv_same (a b : pyv) {struct a} : bool :=
  match a, b with
  | PNone, PNone => true
  | PBool x, PBool y => Bool.eqb x y
  | PInt x, PInt y => Z.eqb x y
  | PFloat x, PFloat y => fl_same x y
  | PStr x, PStr y => String.eqb x y
  | PList x, PList y => (fix go (x y : list pyv) : bool :=
                           match x, y with
                           | [], [] => true
                           | u :: x', v :: y' => pyv_same u v && go x' y'
                           | _, _ => false end) x y
  | PTuple x, PTuple y => (fix go (x y : list pyv) : bool :=
                           match x, y with
                           | [], [] => true
                           | u :: x', v :: y' => pyv_same u v && go x' y'
                           | _, _ => false end) x y
  | PDict x, PDict y => (fix go (x y : list (pkey * pyv)) : bool :=
                           match x, y with
                           | [], [] => true
                           | (k, u) :: x', (k', v) :: y' => pkey_same k k' && pyv_same u v && go x' y'
                           | _, _ => false end) x y
  | _, _ => false
  end.

(* ---- Python's == on numbers (NaN is unequal to everything, 1 == 1.0, True == 1 not needed) ---- *)
Definition fl_pyeq (a b : fl) : bool :=
  match a, b with
  | FFin p, FFin q => Qeq_bool p q
  | FInf, FInf | FNegInf, FNegInf => true
  | _, _ => false end.
Definition num_pyeq (a b : num) : bool :=
  match a, b with
  | NInt x, NInt y => Z.eqb x y
  | NFloat x, NFloat y => fl_pyeq x y
  | NInt x, NFloat (FFin q) | NFloat (FFin q), NInt x => Qeq_bool (inject_Z x) q
  | _, _ => false end.
Definition fl_nan (a : fl) : bool := match a with FNaN => true | _ => false end.
Definition num_nan (a : num) : bool := match a with NFloat f => fl_nan f | _ => false end.

(* Python's == on the values held verbatim in object fields (categories, tool options, initial
   individual estimates): a tuple never equals a list, an int key never equals a str key,
   dictionaries compare as maps. *)
Fixpoint dlookup (eqb : pkey -> pkey -> bool) (k : pkey) (d : list (pkey * pyv)) : option pyv :=
  match d with
  | [] => None
  | (k', v) :: tl => if eqb k k' then Some v else dlookup eqb k tl
  end.

Fixpoint pyv_pyeq (a b : pyv) {struct a} : bool :=
  match a, b with
  | PNone, PNone => true
  | PBool x, PBool y => Bool.eqb x y
  | PInt x, PInt y => Z.eqb x y
  | PFloat x, PFloat y => fl_pyeq x y
  | PInt x, PFloat y => num_pyeq (NInt x) (NFloat y)
  | PFloat x, PInt y => num_pyeq (NFloat x) (NInt y)
  | PStr x, PStr y => String.eqb x y
  | PList x, PList y => (fix go (x y : list pyv) : bool :=
                           match x, y with
                           | [], [] => true
                           | u :: x', v :: y' => pyv_pyeq u v && go x' y'
                           | _, _ => false end) x y
  | PTuple x, PTuple y => (fix go (x y : list pyv) : bool :=
                           match x, y with
                           | [], [] => true
                           | u :: x', v :: y' => pyv_pyeq u v && go x' y'
                           | _, _ => false end) x y
  | PDict x, PDict y =>
      Nat.eqb (List.length x) (List.length y) &&
      (fix go (x : list (pkey * pyv)) : bool :=
         match x with
         | [] => true
         | (k, u) :: x' => match dlookup pkey_same k y with
                           | Some v => pyv_pyeq u v
                           | None => false end && go x'
         end) x
  | _, _ => false
  end.

(* ---- dictionary access ---- *)
Fixpoint dget (k : string) (d : list (pkey * pyv)) : option pyv :=
  match d with
  | [] => None
  | (KStr k', v) :: tl => if String.eqb k k' then Some v else dget k tl
  | _ :: tl => dget k tl
  end.

(* cls(kwargs d): every key must be a declared keyword *)
Definition keys_within (allowed : list string) (d : list (pkey * pyv)) : bool :=
  forallb (fun kv => match fst kv with KStr s => existsb (String.eqb s) allowed | KInt _ => false end) d.

Definition as_dict (v : pyv) : option (list (pkey * pyv)) := match v with PDict d => Some d | _ => None end.
Definition as_str (v : pyv) : option string := match v with PStr s => Some s | _ => None end.
Definition as_bool (v : pyv) : option bool := match v with PBool b => Some b | _ => None end.
Definition as_int (v : pyv) : option Z := match v with PInt z => Some z | _ => None end.
Definition as_num (v : pyv) : option num :=
  match v with PInt z => Some (NInt z) | PFloat f => Some (NFloat f) | _ => None end.
Definition as_items (v : pyv) : option (list pyv) :=
  match v with PList l => Some l | PTuple l => Some l | _ => None end.
Definition as_opt {A} (f : pyv -> option A) (v : pyv) : option (option A) :=
  match v with PNone => Some None | _ => x <- f v ;; Some (Some x) end.

(* sorted(l, key=...): stable insertion sort *)
Fixpoint ins_by {A K} (key : A -> K) (leb : K -> K -> bool) (a : A) (l : list A) : list A :=
  match l with
  | [] => [a]
  | x :: tl => if leb (key a) (key x) then a :: l else x :: ins_by key leb a tl
  end.
Definition sort_by {A K} (key : A -> K) (leb : K -> K -> bool) (l : list A) : list A :=
  fold_right (ins_by key leb) [] l.

Fixpoint traverse {A B} (f : A -> option B) (l : list A) : option (list B) :=
  match l with
  | [] => Some []
  | x :: tl => y <- f x ;; r <- traverse f tl ;; Some (y :: r)
  end.

Definition class_is (c : string) (d : list (pkey * pyv)) : bool :=
  match dget "class" d with Some (PStr s) => String.eqb s c | _ => false end.

(* ------------------------------------------------------------------------------------------ *)
(* Engines                                                                                     *)
(* ------------------------------------------------------------------------------------------ *)
Record engine := mkEngine {
  expr : Type;                              (* pharmpy.basic.Expr *)
  expr_eqb : expr -> expr -> bool;          (* Expr.__eq__ *)
  ser : expr -> string;                     (* Expr.serialize  = sympy.srepr(sympify(e)) *)
  deser : string -> option expr;            (* Expr.deserialize = Expr(parse_expr(s)); None = raises *)
  sym_str : expr -> string;                 (* str(e) of a symbol (dependent variable keys) *)
  sym_of : string -> expr;                  (* Expr.symbol(name) *)
  tup_str : list expr -> string;            (* str(tuple of symbols) — EstimationStep.to_dict derivatives *)
  mat : Type;                               (* pharmpy.basic.Matrix *)
  mat_eqb : mat -> mat -> bool;
  mser : mat -> string;
  mdeser : string -> option mat;
  unit : Type;                              (* pharmpy.basic.Unit *)
  unit_eqb : unit -> unit -> bool;
  user : unit -> string;                    (* Unit.serialize — ColumnInfo.to_dict *)
  ustr : unit -> string;                    (* str(unit) — DataInfo._to_dict *)
  udeser : string -> option unit            (* Unit.deserialize = Unit(s) *)
}.

(* the engine used by the correspondence check and the counter-models: every symbolic object is
   identified with its srepr text (the exporter prints exactly that text) *)
(* str() of a symbol from its srepr text Symbol('NAME'), and back *)
Definition sym_name (s : string) : string := substring 8 (String.length s - 10) s.
Definition mk_sym (n : string) : string := "Symbol('" ++ n ++ "')".
(* str() of a tuple of symbols: (A, B) and (A,) *)
Definition tuple_text (l : list string) : string :=
  "(" ++ String.concat ", " (map sym_name l) ++ (match l with [_] => ",)" | _ => ")" end).
Definition strG : engine :=
  mkEngine string String.eqb (fun s => s) (fun s => Some s) sym_name mk_sym tuple_text
           string String.eqb (fun s => s) (fun s => Some s)
           string String.eqb (fun s => s) (fun s => s) (fun s => Some s).

Section Components.
Variable G : engine.
Notation E := (expr G).

Definition pser (e : E) : pyv := PStr (ser G e).
Definition get_expr (k : string) (d : list (pkey * pyv)) : option E :=
  v <- dget k d ;; s <- as_str v ;; deser G s.

(* ------------------------------------------------------------------------------------------ *)
(* Parameter, Parameters  (model/parameters.py)                                               *)
(* ------------------------------------------------------------------------------------------ *)
Record parameter := mkParameter {
  p_name : string; p_init : num; p_lower : num; p_upper : num; p_fix : bool }.

Definition param_to_dict (p : parameter) : pyv :=
  PDict [(KStr "name", PStr (p_name p)); (KStr "init", of_num (p_init p));
         (KStr "lower", of_num (p_lower p)); (KStr "upper", of_num (p_upper p));
         (KStr "fix", PBool (p_fix p))].

(* cls(kwargs d): name and init are required, the bounds and fix have defaults *)
Definition param_from_dict (v : pyv) : option parameter :=
  d <- as_dict v ;;
  if negb (keys_within ["name"; "init"; "lower"; "upper"; "fix"] d) then None else
  nm <- dget "name" d ;; nm <- as_str nm ;;
  i <- dget "init" d ;; i <- as_num i ;;
  lo <- match dget "lower" d with None => Some (NFloat FNegInf) | Some x => as_num x end ;;
  up <- match dget "upper" d with None => Some (NFloat FInf) | Some x => as_num x end ;;
  fx <- match dget "fix" d with None => Some false | Some x => as_bool x end ;;
  Some (mkParameter nm i lo up fx).

(* __eq__: hashes first (equal values hash equal; NaN hashes by identity), then field by field *)
Definition param_eqb (a b : parameter) : bool :=
  num_pyeq (p_init a) (p_init b) && num_pyeq (p_lower a) (p_lower b) && num_pyeq (p_upper a) (p_upper b)
  && String.eqb (p_name a) (p_name b) && Bool.eqb (p_fix a) (p_fix b).
Definition param_no_nan (p : parameter) : bool :=
  negb (num_nan (p_init p) || num_nan (p_lower p) || num_nan (p_upper p)).

Definition params_to_dict (ps : list parameter) : pyv :=
  PDict [(KStr "parameters", PTuple (map param_to_dict ps))].
Definition params_from_dict (v : pyv) : option (list parameter) :=
  d <- as_dict v ;; l <- dget "parameters" d ;; l <- as_items l ;; traverse param_from_dict l.
Definition params_eqb := list_eqb param_eqb.

(* ------------------------------------------------------------------------------------------ *)
(* VariabilityLevel / VariabilityHierarchy, distributions, RandomVariables                    *)
(* ------------------------------------------------------------------------------------------ *)
Record vlevel := mkLevel { vl_name : string; vl_reference : bool; vl_group : option string }.

Definition vlevel_to_dict (l : vlevel) : pyv :=
  PDict [(KStr "name", PStr (vl_name l)); (KStr "reference", PBool (vl_reference l));
         (KStr "group", of_opt PStr (vl_group l))].
Definition vlevel_from_dict (v : pyv) : option vlevel :=
  d <- as_dict v ;;
  if negb (keys_within ["name"; "reference"; "group"] d) then None else
  nm <- dget "name" d ;; nm <- as_str nm ;;
  r <- match dget "reference" d with None => Some false | Some x => as_bool x end ;;
  g <- match dget "group" d with None => Some None | Some x => as_opt as_str x end ;;
  Some (mkLevel nm r g).
Definition vlevel_eqb (a b : vlevel) : bool :=
  String.eqb (vl_name a) (vl_name b) && Bool.eqb (vl_reference a) (vl_reference b)
  && opt_eqb String.eqb (vl_group a) (vl_group b).

Definition hier_to_dict (h : list vlevel) : pyv := PDict [(KStr "levels", PTuple (map vlevel_to_dict h))].
Definition hier_from_dict (v : pyv) : option (list vlevel) :=
  d <- as_dict v ;; l <- dget "levels" d ;; l <- as_items l ;; traverse vlevel_from_dict l.

Record normal := mkNormal { nd_name : string; nd_level : string; nd_mean : E; nd_var : E }.
(* names is a tuple: create() and from_dict() both make it one *)
Record jnormal := mkJoint { jn_names : list string; jn_level : string;
                            jn_mean : mat G; jn_var : mat G }.
Inductive dist := DNormal (d : normal) | DJoint (d : jnormal).

Definition normal_to_dict (x : normal) : pyv :=
  PDict [(KStr "class", PStr "NormalDistribution"); (KStr "name", PStr (nd_name x));
         (KStr "level", PStr (nd_level x)); (KStr "mean", pser (nd_mean x));
         (KStr "variance", pser (nd_var x))].
Definition normal_from_dict (v : pyv) : option normal :=
  d <- as_dict v ;;
  nm <- dget "name" d ;; nm <- as_str nm ;;
  lv <- dget "level" d ;; lv <- as_str lv ;;
  m <- get_expr "mean" d ;; va <- get_expr "variance" d ;;
  Some (mkNormal nm lv m va).

Definition get_mat (k : string) (d : list (pkey * pyv)) : option (mat G) :=
  v <- dget k d ;; s <- as_str v ;; mdeser G s.
Definition joint_to_dict (x : jnormal) : pyv :=
  PDict [(KStr "class", PStr "JointNormalDistribution");
         (KStr "names", PTuple (map PStr (jn_names x)));
         (KStr "level", PStr (jn_level x)); (KStr "mean", PStr (mser G (jn_mean x)));
         (KStr "variance", PStr (mser G (jn_var x)))].
Definition joint_from_dict (v : pyv) : option jnormal :=
  d <- as_dict v ;;
  ns <- dget "names" d ;; ns <- as_items ns ;; names <- traverse as_str ns ;;       (* tuple(d['names']) *)
  lv <- dget "level" d ;; lv <- as_str lv ;;
  m <- get_mat "mean" d ;; va <- get_mat "variance" d ;;
  Some (mkJoint names lv m va).

Definition dist_to_dict (x : dist) : pyv :=
  match x with DNormal n => normal_to_dict n | DJoint j => joint_to_dict j end.
(* RandomVariables.from_dict: class == 'NormalDistribution', else joint *)
Definition dist_from_dict (v : pyv) : option dist :=
  d <- as_dict v ;; c <- dget "class" d ;; c <- as_str c ;;
  if String.eqb c "NormalDistribution" then x <- normal_from_dict v ;; Some (DNormal x)
  else x <- joint_from_dict v ;; Some (DJoint x).

Definition normal_eqb (a b : normal) : bool :=
  String.eqb (nd_name a) (nd_name b) && String.eqb (nd_level a) (nd_level b)
  && expr_eqb G (nd_mean a) (nd_mean b) && expr_eqb G (nd_var a) (nd_var b).
Definition joint_eqb (a b : jnormal) : bool :=
  list_eqb String.eqb (jn_names a) (jn_names b)
  && String.eqb (jn_level a) (jn_level b)
  && mat_eqb G (jn_mean a) (jn_mean b) && mat_eqb G (jn_var a) (jn_var b).
Definition dist_eqb (a b : dist) : bool :=
  match a, b with
  | DNormal x, DNormal y => normal_eqb x y
  | DJoint x, DJoint y => joint_eqb x y
  | _, _ => false end.
Definition dist_len (x : dist) : nat := match x with DNormal _ => 1 | DJoint j => List.length (jn_names j) end.

Record rvs := mkRvs { rv_dists : list dist; rv_eta : list vlevel; rv_eps : list vlevel }.
Definition rvs_to_dict (r : rvs) : pyv :=
  PDict [(KStr "dists", PTuple (map dist_to_dict (rv_dists r)));
         (KStr "eta_levels", hier_to_dict (rv_eta r));
         (KStr "epsilon_levels", hier_to_dict (rv_eps r))].
Definition rvs_from_dict (v : pyv) : option rvs :=
  d <- as_dict v ;;
  e <- dget "eta_levels" d ;; e <- hier_from_dict e ;;
  p <- dget "epsilon_levels" d ;; p <- hier_from_dict p ;;
  l <- dget "dists" d ;; l <- as_items l ;; l <- traverse dist_from_dict l ;;
  Some (mkRvs l e p).
(* __eq__: same total number of variables, then zip over the distributions (zip truncates) *)
Fixpoint zip_all {A} (f : A -> A -> bool) (a b : list A) : bool :=
  match a, b with x :: a', y :: b' => f x y && zip_all f a' b' | _, _ => true end.
Definition total_len (l : list dist) : nat := fold_right (fun d n => dist_len d + n) 0 l.
Definition rvs_eqb (a b : rvs) : bool :=
  Nat.eqb (total_len (rv_dists a)) (total_len (rv_dists b))
  && zip_all dist_eqb (rv_dists a) (rv_dists b)
  && list_eqb vlevel_eqb (rv_eta a) (rv_eta b) && list_eqb vlevel_eqb (rv_eps a) (rv_eps b).

(* ------------------------------------------------------------------------------------------ *)
(* Assignment, doses, Compartment  (model/statements.py)                                      *)
(* ------------------------------------------------------------------------------------------ *)
Record assignment := mkAssign { a_symbol : E; a_expression : E }.
Definition assign_to_dict (a : assignment) : pyv :=
  PDict [(KStr "class", PStr "Assignment"); (KStr "symbol", pser (a_symbol a));
         (KStr "expression", pser (a_expression a))].
Definition assign_from_dict (v : pyv) : option assignment :=
  d <- as_dict v ;; s <- get_expr "symbol" d ;; e <- get_expr "expression" d ;; Some (mkAssign s e).
Definition assign_eqb (a b : assignment) : bool :=
  expr_eqb G (a_symbol a) (a_symbol b) && expr_eqb G (a_expression a) (a_expression b).

Inductive dose :=
| Bolus (amount : E) (admid : Z)
| Infusion (amount : E) (admid : Z) (rate : option E) (duration : option E).

Definition dose_to_dict (x : dose) : pyv :=
  match x with
  | Bolus a i => PDict [(KStr "class", PStr "Bolus"); (KStr "amount", pser a); (KStr "admid", PInt i)]
  | Infusion a i r du =>
      PDict [(KStr "class", PStr "Infusion"); (KStr "amount", pser a); (KStr "rate", of_opt pser r);
             (KStr "duration", of_opt pser du); (KStr "admid", PInt i)]
  end.
Definition get_opt_expr (k : string) (d : list (pkey * pyv)) : option (option E) :=
  v <- dget k d ;; match v with PNone => Some None | PStr s => e <- deser G s ;; Some (Some e) | _ => None end.
(* Compartment.from_dict: class == 'Bolus', else Infusion *)
Definition dose_from_dict (v : pyv) : option dose :=
  d <- as_dict v ;; c <- dget "class" d ;; c <- as_str c ;;
  a <- get_expr "amount" d ;; i <- dget "admid" d ;; i <- as_int i ;;
  if String.eqb c "Bolus" then Some (Bolus a i)
  else r <- get_opt_expr "rate" d ;; du <- get_opt_expr "duration" d ;; Some (Infusion a i r du).
Definition dose_eqb (a b : dose) : bool :=
  match a, b with
  | Bolus x i, Bolus y j => expr_eqb G x y && Z.eqb i j
  | Infusion x i r du, Infusion y j r' du' =>
      Z.eqb i j && opt_eqb (expr_eqb G) r r' && opt_eqb (expr_eqb G) du du' && expr_eqb G x y
  | _, _ => false end.

Record compartment := mkComp {
  c_name : string; c_amount : E; c_doses : list dose; c_input : E; c_lag : E; c_bio : E }.

Definition comp_to_dict (c : compartment) : pyv :=
  PDict [(KStr "class", PStr "Compartment"); (KStr "name", PStr (c_name c)); (KStr "amount", pser (c_amount c));
         (KStr "doses", match c_doses c with [] => PNone | l => PTuple (map dose_to_dict l) end);
         (KStr "input", pser (c_input c)); (KStr "lag_time", pser (c_lag c));
         (KStr "bioavailability", pser (c_bio c))].
Definition comp_from_dict (v : pyv) : option compartment :=
  d <- as_dict v ;;
  ds <- dget "doses" d ;;
  doses <- match ds with PNone => Some [] | _ => l <- as_items ds ;; traverse dose_from_dict l end ;;
  nm <- dget "name" d ;; nm <- as_str nm ;;
  a <- get_expr "amount" d ;; i <- get_expr "input" d ;; l <- get_expr "lag_time" d ;;
  b <- get_expr "bioavailability" d ;;
  Some (mkComp nm a doses i l b).
Definition comp_eqb (a b : compartment) : bool :=
  String.eqb (c_name a) (c_name b) && expr_eqb G (c_amount a) (c_amount b)
  && list_eqb dose_eqb (c_doses a) (c_doses b) && expr_eqb G (c_input a) (c_input b)
  && expr_eqb G (c_lag a) (c_lag b) && expr_eqb G (c_bio a) (c_bio b).

(* ------------------------------------------------------------------------------------------ *)
(* CompartmentalSystem: a networkx DiGraph, insertion ordered                                 *)
(* ------------------------------------------------------------------------------------------ *)
Inductive node := NOut | NComp (c : compartment).
Definition node_eqb (a b : node) : bool :=
  match a, b with NOut, NOut => true | NComp x, NComp y => comp_eqb x y | _, _ => false end.

(* _node / _adj: nodes in insertion order, each with its successors in insertion order.  The
   predecessor dictionaries are not part of the state: CompartmentalSystem.__init__ stores
   builder._g.copy(), and DiGraph.copy re-adds the edges in adjacency order, so predecessors are
   always in source-node order (checked by the correspondence, tag 7). *)
Definition graph := list (node * list (node * E)).
Record csys := mkCs { cs_g : graph; cs_t : E }.

Definition g_nodes (g : graph) : list node := map fst g.
Definition has_node (n : node) (g : graph) : bool := existsb (node_eqb n) (g_nodes g).

(* DiGraph.add_node: no effect on an existing node (no attributes are passed) *)
Definition add_node (n : node) (g : graph) : graph := if has_node n g then g else (g ++ [(n, [])])%list.

Fixpoint set_adj (v : node) (r : E) (adj : list (node * E)) : list (node * E) :=
  match adj with
  | [] => [(v, r)]
  | (v', r') :: tl => if node_eqb v v' then (v', r) :: tl else (v', r') :: set_adj v r tl
  end.
Fixpoint upd_adj (u v : node) (r : E) (g : graph) : graph :=
  match g with
  | [] => []
  | (n, adj) :: tl => if node_eqb u n then (n, set_adj v r adj) :: tl else (n, adj) :: upd_adj u v r tl
  end.
(* DiGraph.add_edge(u, v, rate=r): u then v are entered if missing; an existing edge keeps its
   position and gets the new rate, a new one goes to the end of u's adjacency *)
Definition add_edge (u v : node) (r : E) (g : graph) : graph := upd_adj u v r (add_node v (add_node u g)).

Fixpoint index_of (n : node) (l : list node) : option nat :=
  match l with
  | [] => None
  | x :: tl => if node_eqb n x then Some 0 else option_map S (index_of n tl)
  end.
(* comps.index(x); the (unreachable for graphs whose edges end in nodes) ValueError is the
   out-of-range index, which from_dict refuses *)
Definition idx (n : node) (l : list node) : Z :=
  match index_of n l with Some i => Z.of_nat i | None => Z.of_nat (List.length l) end.

Definition node_to_dict (n : node) : pyv :=
  match n with NOut => PDict [(KStr "class", PStr "Output")] | NComp c => comp_to_dict c end.

Definition edges_of (g : graph) : list (node * node * E) :=
  flat_map (fun na => map (fun vr => (fst na, fst vr, snd vr)) (snd na)) g.

Definition cs_to_dict (s : csys) : pyv :=
  let comps := g_nodes (cs_g s) in
  PDict [(KStr "class", PStr "CompartmentalSystem");
         (KStr "compartments", PTuple (map node_to_dict comps));
         (KStr "rates", PList (map (fun e => match e with (u, v, r) =>
                                    PTuple [PInt (idx u comps); PInt (idx v comps); pser r] end)
                                   (edges_of (cs_g s))));
         (KStr "t", pser (cs_t s))].

(* from_dict: a fresh builder already holds the output node; compartments are entered in the
   listed order (an 'Output' entry only takes its place in the index table); edges are re-added
   in the listed order *)
Definition node_from_dict (v : pyv) : option node :=
  d <- as_dict v ;; c <- dget "class" d ;; c <- as_str c ;;
  if String.eqb c "Output" then Some NOut else x <- comp_from_dict v ;; Some (NComp x).

Definition edge_from (comps : list node) (v : pyv) : option (node * node * E) :=
  l <- as_items v ;;
  match l with
  | [a; b; r] =>
      i <- as_int a ;; j <- as_int b ;; s <- as_str r ;; e <- deser G s ;;
      if ((i <? 0) || (j <? 0))%Z then None else       (* negative indices: outside the model *)
      u <- nth_error comps (Z.to_nat i) ;; w <- nth_error comps (Z.to_nat j) ;; Some (u, w, e)
  | _ => None
  end.

Definition add_comp_nodes (comps : list node) (g : graph) : graph :=
  fold_left (fun g n => match n with NOut => g | NComp _ => add_node n g end) comps g.
Definition add_edges (es : list (node * node * E)) (g : graph) : graph :=
  fold_left (fun g e => match e with (u, v, r) => add_edge u v r g end) es g.

Definition cs_from_dict (v : pyv) : option csys :=
  d <- as_dict v ;;
  cl <- dget "compartments" d ;; cl <- as_items cl ;; comps <- traverse node_from_dict cl ;;
  rl <- dget "rates" d ;; rl <- as_items rl ;; es <- traverse (edge_from comps) rl ;;
  t <- get_expr "t" d ;;
  Some (mkCs (add_edges es (add_comp_nodes comps [(NOut, [])])) t).

(* ---- __eq__ : t, nx.to_dict_of_dicts (a dict of dicts: order blind), dosing_compartments ---- *)
Fixpoint adj_lookup (v : node) (adj : list (node * E)) : option E :=
  match adj with [] => None | (v', r) :: tl => if node_eqb v v' then Some r else adj_lookup v tl end.
Fixpoint g_lookup (n : node) (g : graph) : option (list (node * E)) :=
  match g with [] => None | (n', a) :: tl => if node_eqb n n' then Some a else g_lookup n tl end.

Definition adj_sub (a b : list (node * E)) : bool :=
  forallb (fun vr => match adj_lookup (fst vr) b with Some r => expr_eqb G (snd vr) r | None => false end) a.
Definition adj_same (a b : list (node * E)) : bool :=
  Nat.eqb (List.length a) (List.length b) && adj_sub a b.
Definition dod_eqb (g h : graph) : bool :=
  Nat.eqb (List.length g) (List.length h) &&
  forallb (fun na => match g_lookup (fst na) h with Some b => adj_same (snd na) b | None => false end) g.

Definition comps_of (g : graph) : list compartment :=
  flat_map (fun na => match fst na with NComp c => [c] | NOut => [] end) g.

(* str comparison: code point order = byte order of the UTF-8 text *)
Fixpoint str_leb (a b : string) : bool :=
  match a, b with
  | EmptyString, _ => true
  | String _ _, EmptyString => false
  | String x a', String y b' =>
      let nx := nat_of_ascii x in let ny := nat_of_ascii y in
      if Nat.ltb nx ny then true else if Nat.ltb ny nx then false else str_leb a' b'
  end.
Fixpoint ins_by_name (c : compartment) (l : list compartment) : list compartment :=
  match l with
  | [] => [c]
  | x :: tl => if str_leb (c_name x) (c_name c) then x :: ins_by_name c tl else c :: l
  end.
(* sorted(list(set of compartments), key=name): compartments of one system have distinct names
   (the order among equal names would be set iteration order; outside the model) *)
Definition sort_by_name (l : list compartment) : list compartment := fold_left (fun acc c => ins_by_name c acc) l [].

Definition has_edge_to_out (adj : list (node * E)) : bool := existsb (fun vr => node_eqb NOut (fst vr)) adj.
(* list(g.predecessors(output)): sources in node order *)
Definition preds_of_out (g : graph) : list node :=
  flat_map (fun na => if has_edge_to_out (snd na) then [fst na] else []) g.
Definition find_comp (nm : string) (g : graph) : option compartment :=
  find (fun c => String.eqb (c_name c) nm) (comps_of g).

Definition special_names : list string := ["METABOLITE"; "EFFECT"; "COMPLEX"; "RESPONSE"].
(* central_compartment; None = ValueError (no predecessor of output) or AttributeError (the last
   predecessor is the output node itself) *)
Definition central (g : graph) : option compartment :=
  match last (map Some (preds_of_out g)) None with
  | Some (NComp c) => if existsb (String.eqb (c_name c)) special_names then find_comp "CENTRAL" g else Some c
  | _ => None
  end.

Definition place_dose (cen : compartment) (acc : list compartment) (c : compartment) : list compartment :=
  match c_doses c with
  | [] => acc
  | _ => if negb (String.eqb (c_name c) (c_name cen))
         then (if Nat.leb 2 (List.length acc) then removelast acc ++ [c] ++ [last acc c] else c :: acc)%list
         else (acc ++ [c])%list
  end.
(* dosing_compartments; None = raises (no dose anywhere, or a dose but no central compartment) *)
Definition dosing (g : graph) : option (list compartment) :=
  let cs := sort_by_name (comps_of g) in
  if negb (existsb (fun c => match c_doses c with [] => false | _ => true end) cs) then None else
  cen <- central g ;;
  Some (fold_left (place_dose cen) cs []).

(* __eq__: t, the dict of dicts, _dosing_compartments_or_none() (None = no dose / no central
   compartment; two systems without either compare equal there) *)
Definition cs_eq (a b : csys) : bool :=
  expr_eqb G (cs_t a) (cs_t b) && dod_eqb (cs_g a) (cs_g b)
  && opt_eqb (list_eqb comp_eqb) (dosing (cs_g a)) (dosing (cs_g b)).

(* ------------------------------------------------------------------------------------------ *)
(* Statements                                                                                 *)
(* ------------------------------------------------------------------------------------------ *)
Inductive stmt := SAssign (a : assignment) | SOde (s : csys).
Definition stmt_to_dict (s : stmt) : pyv :=
  match s with SAssign a => assign_to_dict a | SOde c => cs_to_dict c end.
Definition stmt_from_dict (v : pyv) : option stmt :=
  d <- as_dict v ;; c <- dget "class" d ;; c <- as_str c ;;
  if String.eqb c "Assignment" then a <- assign_from_dict v ;; Some (SAssign a)
  else s <- cs_from_dict v ;; Some (SOde s).
Definition stmts_to_dict (l : list stmt) : pyv := PDict [(KStr "statements", PTuple (map stmt_to_dict l))].
Definition stmts_from_dict (v : pyv) : option (list stmt) :=
  d <- as_dict v ;; l <- dget "statements" d ;; l <- as_items l ;; traverse stmt_from_dict l.

Definition stmt_eq (a b : stmt) : bool :=
  match a, b with
  | SAssign x, SAssign y => assign_eqb x y
  | SOde x, SOde y => cs_eq x y
  | _, _ => false end.
(* len equal, then the first unequal pair decides *)
Definition stmts_eq (a b : list stmt) : bool :=
  Nat.eqb (List.length a) (List.length b) && zip_all stmt_eq a b.

(* ------------------------------------------------------------------------------------------ *)
(* Execution steps  (model/execution_steps.py)                                                *)
(* ------------------------------------------------------------------------------------------ *)
(* derivatives: a tuple of tuples of symbols after create(); to_dict turns every inner tuple
   into its str(), from_dict makes a tuple of whatever sequence it is handed *)
Inductive derivs := DSyms (l : list (list E)) | DStrs (l : list string).

Record common := mkCommon { co_solver : option string; co_rtol : option num; co_atol : option num;
                            co_tool : list (pkey * pyv) }.
Record eststep := mkEst {
  es_method : string; es_interaction : bool; es_pum : option string; es_evaluation : bool;
  es_maxeval : option Z; es_laplace : bool; es_isample : option Z; es_niter : option Z;
  es_auto : option bool; es_keep : option Z;
  es_residuals : list string; es_predictions : list string;         (* tuples *)
  es_derivatives : derivs; es_ies : bool; es_common : common }.
Record simstep := mkSim { ss_n : Z; ss_seed : Z; ss_common : common }.
Inductive step := StEst (e : eststep) | StSim (s : simstep).

Definition common_items (c : common) : list (pkey * pyv) :=
  [(KStr "solver", of_opt PStr (co_solver c)); (KStr "solver_rtol", of_opt of_num (co_rtol c));
   (KStr "solver_atol", of_opt of_num (co_atol c)); (KStr "tool_options", PDict (co_tool c))].
Definition derivs_to_py (d : derivs) : pyv :=
  match d with
  | DSyms l => PTuple (map (fun t => PStr (tup_str G t)) l)
  | DStrs l => PTuple (map PStr l)
  end.
Definition est_to_dict (e : eststep) : pyv :=
  PDict ([(KStr "class", PStr "EstimationStep"); (KStr "method", PStr (es_method e));
          (KStr "interaction", PBool (es_interaction e));
          (KStr "parameter_uncertainty_method", of_opt PStr (es_pum e));
          (KStr "evaluation", PBool (es_evaluation e));
          (KStr "maximum_evaluations", of_opt PInt (es_maxeval e));
          (KStr "laplace", PBool (es_laplace e)); (KStr "isample", of_opt PInt (es_isample e));
          (KStr "niter", of_opt PInt (es_niter e)); (KStr "auto", of_opt PBool (es_auto e));
          (KStr "keep_every_nth_iter", of_opt PInt (es_keep e));
          (KStr "derivatives", derivs_to_py (es_derivatives e));
          (KStr "predictions", PTuple (map PStr (es_predictions e)));
          (KStr "residuals", PTuple (map PStr (es_residuals e)));
          (KStr "individual_eta_samples", PBool (es_ies e))] ++ common_items (es_common e))%list.

Definition dget_def {A} (k : string) (d : list (pkey * pyv)) (def : A) (f : pyv -> option A) : option A :=
  match dget k d with None => Some def | Some x => f x end.
(* tool_options: frozenmapping(d) if it is a dict (otherwise kept as is: outside the model) *)
Definition common_from (d : list (pkey * pyv)) : option common :=
  so <- dget_def "solver" d None (as_opt as_str) ;;
  rt <- dget_def "solver_rtol" d None (as_opt as_num) ;;
  at_ <- dget_def "solver_atol" d None (as_opt as_num) ;;
  t <- dget "tool_options" d ;; t <- as_dict t ;;          (* _adjust_dict reads d['tool_options'] *)
  Some (mkCommon so rt at_ t).
(* tuple(d[key]) of a sequence of str *)
Definition str_seq (v : pyv) : option (list string) := l <- as_items v ;; traverse as_str l.
Definition est_keys : list string :=
  ["class"; "method"; "interaction"; "parameter_uncertainty_method"; "evaluation"; "maximum_evaluations";
   "laplace"; "isample"; "niter"; "auto"; "keep_every_nth_iter"; "residuals"; "predictions"; "solver";
   "solver_rtol"; "solver_atol"; "tool_options"; "derivatives"; "individual_eta_samples"].
Definition est_from_dict (v : pyv) : option eststep :=
  d <- as_dict v ;;
  if negb (keys_within est_keys d) then None else
  _c <- dget "class" d ;;                                   (* del d['class'] *)
  co <- common_from d ;;
  me <- dget "method" d ;; me <- as_str me ;;
  ia <- dget_def "interaction" d false as_bool ;;
  pu <- dget_def "parameter_uncertainty_method" d None (as_opt as_str) ;;
  ev <- dget_def "evaluation" d false as_bool ;;
  mx <- dget_def "maximum_evaluations" d None (as_opt as_int) ;;
  la <- dget_def "laplace" d false as_bool ;;
  isa <- dget_def "isample" d None (as_opt as_int) ;;
  ni <- dget_def "niter" d None (as_opt as_int) ;;
  au <- dget_def "auto" d None (as_opt as_bool) ;;
  ke <- dget_def "keep_every_nth_iter" d None (as_opt as_int) ;;
  re <- dget_def "residuals" d [] str_seq ;;
  pr <- dget_def "predictions" d [] str_seq ;;
  de <- dget_def "derivatives" d [] str_seq ;;
  ie <- dget_def "individual_eta_samples" d false as_bool ;;
  Some (mkEst me ia pu ev mx la isa ni au ke re pr (DStrs de) ie co).

Definition sim_to_dict (s : simstep) : pyv :=
  PDict ([(KStr "class", PStr "SimulationStep"); (KStr "n", PInt (ss_n s)); (KStr "seed", PInt (ss_seed s))]
         ++ common_items (ss_common s))%list.
Definition sim_from_dict (v : pyv) : option simstep :=
  d <- as_dict v ;;
  if negb (keys_within ["class"; "n"; "seed"; "solver"; "solver_rtol"; "solver_atol"; "tool_options"] d)
  then None else
  _c <- dget "class" d ;;
  co <- common_from d ;;
  n <- dget_def "n" d 1%Z as_int ;; sd <- dget_def "seed" d 64206%Z as_int ;;
  Some (mkSim n sd co).

Definition step_to_dict (s : step) : pyv := match s with StEst e => est_to_dict e | StSim x => sim_to_dict x end.
Definition step_from_dict (v : pyv) : option step :=
  d <- as_dict v ;; c <- dget "class" d ;; c <- as_str c ;;
  if String.eqb c "EstimationStep" then e <- est_from_dict v ;; Some (StEst e)
  else s <- sim_from_dict v ;; Some (StSim s).
Definition steps_to_dict (l : list step) : pyv := PDict [(KStr "steps", PTuple (map step_to_dict l))].
Definition steps_from_dict (v : pyv) : option (list step) :=
  d <- as_dict v ;; l <- dget "steps" d ;; l <- as_items l ;; traverse step_from_dict l.

(* a tuple of tuples of symbols never equals a sequence of strings, except when both are () *)
Definition derivs_eqb (a b : derivs) : bool :=
  match a, b with
  | DSyms x, DSyms y => list_eqb (list_eqb (expr_eqb G)) x y
  | DStrs x, DStrs y => list_eqb String.eqb x y
  | DSyms [], DStrs [] | DStrs [], DSyms [] => true
  | _, _ => false end.
(* the values to_dict / from_dict reproduce: a tuple of strings (in particular the default ()) *)
Definition derivs_stable (d : derivs) : bool :=
  match d with DStrs _ => true | DSyms [] => true | _ => false end.
Definition common_eqb (a b : common) : bool :=
  opt_eqb String.eqb (co_solver a) (co_solver b) && opt_eqb num_pyeq (co_rtol a) (co_rtol b)
  && opt_eqb num_pyeq (co_atol a) (co_atol b) && pyv_pyeq (PDict (co_tool a)) (PDict (co_tool b)).
Definition est_eqb (a b : eststep) : bool :=
  String.eqb (es_method a) (es_method b) && Bool.eqb (es_interaction a) (es_interaction b)
  && opt_eqb String.eqb (es_pum a) (es_pum b) && Bool.eqb (es_evaluation a) (es_evaluation b)
  && opt_eqb Z.eqb (es_maxeval a) (es_maxeval b) && Bool.eqb (es_laplace a) (es_laplace b)
  && opt_eqb Z.eqb (es_isample a) (es_isample b) && opt_eqb Z.eqb (es_niter a) (es_niter b)
  && opt_eqb Bool.eqb (es_auto a) (es_auto b) && opt_eqb Z.eqb (es_keep a) (es_keep b)
  && derivs_eqb (es_derivatives a) (es_derivatives b)
  && list_eqb String.eqb (es_predictions a) (es_predictions b)
  && list_eqb String.eqb (es_residuals a) (es_residuals b)
  && Bool.eqb (es_ies a) (es_ies b) && common_eqb (es_common a) (es_common b).
Definition sim_eqb (a b : simstep) : bool :=
  Z.eqb (ss_n a) (ss_n b) && Z.eqb (ss_seed a) (ss_seed b) && common_eqb (ss_common a) (ss_common b).
Definition step_eqb (a b : step) : bool :=
  match a, b with StEst x, StEst y => est_eqb x y | StSim x, StSim y => sim_eqb x y | _, _ => false end.

(* ------------------------------------------------------------------------------------------ *)
(* ColumnInfo / DataInfo  (model/datainfo.py)                                                 *)
(* ------------------------------------------------------------------------------------------ *)
(* categories as create() / from_dict() canonicalise them: None, a tuple of values, or a
   frozenmapping value -> label *)
Inductive cats := CNone | CTuple (l : list pyv) | CMap (d : list (pkey * pyv)).
(* _plain_categories: a frozenmapping is written as a plain dict *)
Definition cats_to_py (c : cats) : pyv := match c with CNone => PNone | CTuple l => PTuple l | CMap d => PDict d end.
(* _canonicalize_categories; None = TypeError (a str, being a Sequence, would become the tuple of
   its characters: outside the model) *)
Definition cats_of_py (v : pyv) : option cats :=
  match v with
  | PNone => Some CNone
  | PTuple l => Some (CTuple l)
  | PList l => Some (CTuple l)
  | PDict d => Some (CMap d)
  | _ => None
  end.
Definition cats_pyeq (a b : cats) : bool := pyv_pyeq (cats_to_py a) (cats_to_py b).
Definition cats_json (c : cats) : cats :=
  match c with CNone => CNone | CTuple l => CTuple (map normalise l) | CMap d => CMap (norm_items d) end.
Definition cats_is_json (c : cats) : bool :=
  match c with CNone => true | CTuple l => forallb is_json l | CMap d => is_json (PDict d) end.

Record column := mkColumn {
  ci_name : string; ci_type : string; ci_unit : unit G; ci_scale : string; ci_continuous : option bool;
  ci_categories : cats;
  ci_drop : bool; ci_datatype : string; ci_descriptor : option string }.

Definition column_items (unit_text : string) (c : column) : list (pkey * pyv) :=
  [(KStr "name", PStr (ci_name c)); (KStr "type", PStr (ci_type c)); (KStr "unit", PStr unit_text);
   (KStr "scale", PStr (ci_scale c)); (KStr "continuous", of_opt PBool (ci_continuous c));
   (KStr "categories", cats_to_py (ci_categories c)); (KStr "drop", PBool (ci_drop c));
   (KStr "datatype", PStr (ci_datatype c)); (KStr "descriptor", of_opt PStr (ci_descriptor c))].
(* ColumnInfo.to_dict *)
Definition column_to_dict (c : column) : pyv := PDict (column_items (user G (ci_unit c)) c).
(* the per-column dictionary written by DataInfo._to_dict: other key order, unit as str(unit) *)
Definition column_to_dict_di (c : column) : pyv :=
  PDict [(KStr "name", PStr (ci_name c)); (KStr "type", PStr (ci_type c)); (KStr "scale", PStr (ci_scale c));
         (KStr "continuous", of_opt PBool (ci_continuous c)); (KStr "categories", cats_to_py (ci_categories c));
         (KStr "unit", PStr (ustr G (ci_unit c))); (KStr "datatype", PStr (ci_datatype c));
         (KStr "drop", PBool (ci_drop c)); (KStr "descriptor", of_opt PStr (ci_descriptor c))].
Definition column_from_dict (v : pyv) : option column :=
  d <- as_dict v ;;
  nm <- dget "name" d ;; nm <- as_str nm ;;
  ty <- dget "type" d ;; ty <- as_str ty ;;
  u <- dget "unit" d ;; u <- as_str u ;; u <- udeser G u ;;
  sc <- dget "scale" d ;; sc <- as_str sc ;;
  co <- dget "continuous" d ;; co <- as_opt as_bool co ;;
  ca <- dget "categories" d ;; ca <- cats_of_py ca ;;
  dr <- dget "drop" d ;; dr <- as_bool dr ;;
  dt <- dget "datatype" d ;; dt <- as_str dt ;;
  de <- dget "descriptor" d ;; de <- as_opt as_str de ;;
  Some (mkColumn nm ty u sc co ca dr dt de).
Definition column_eqb (a b : column) : bool :=
  String.eqb (ci_name a) (ci_name b) && String.eqb (ci_type a) (ci_type b)
  && unit_eqb G (ci_unit a) (ci_unit b) && String.eqb (ci_scale a) (ci_scale b)
  && opt_eqb Bool.eqb (ci_continuous a) (ci_continuous b)
  && cats_pyeq (ci_categories a) (ci_categories b) && Bool.eqb (ci_drop a) (ci_drop b)
  && String.eqb (ci_datatype a) (ci_datatype b) && opt_eqb String.eqb (ci_descriptor a) (ci_descriptor b).

Record datainfo := mkDi { di_columns : list column; di_path : option string; di_separator : string;
                          di_missing : string }.
Definition default_missing_token : string := "-99".
(* to_dict() = _to_dict(path=None): the path never enters the dictionary *)
Definition di_to_dict (x : datainfo) : pyv :=
  PDict [(KStr "columns", PList (map column_to_dict_di (di_columns x))); (KStr "path", PNone);
         (KStr "separator", PStr (di_separator x)); (KStr "missing_data_token", PStr (di_missing x))].
Definition di_from_dict (v : pyv) : option datainfo :=
  d <- as_dict v ;;
  cl <- dget "columns" d ;; cl <- as_items cl ;; cols <- traverse column_from_dict cl ;;
  mt <- dget_def "missing_data_token" d default_missing_token as_str ;;
  pa <- dget "path" d ;; pa <- as_opt as_str pa ;;
  se <- dget "separator" d ;; se <- as_str se ;;
  Some (mkDi cols pa se mt).
(* DataInfo.__eq__ looks at the columns only *)
Definition di_eqb (a b : datainfo) : bool := list_eqb column_eqb (di_columns a) (di_columns b).

(* ------------------------------------------------------------------------------------------ *)
(* Model  (model/model.py)                                                                    *)
(* ------------------------------------------------------------------------------------------ *)
Record model := mkModel {
  m_name : string; m_description : string;
  m_parameters : list parameter; m_rvs : rvs; m_statements : list stmt; m_steps : list step;
  m_datainfo : datainfo; m_value_type : string;
  m_depvars : list (E * Z);                 (* frozenmapping, insertion ordered *)
  m_obstrans : list (E * E);
  m_iie : option pyv                        (* the DataFrame, identified with its .to_dict() *) }.

Definition model_to_dict (m : model) : pyv :=
  PDict [(KStr "parameters", params_to_dict (m_parameters m));
         (KStr "random_variables", rvs_to_dict (m_rvs m));
         (KStr "statements", stmts_to_dict (m_statements m));
         (KStr "execution_steps", steps_to_dict (m_steps m));
         (KStr "datainfo", di_to_dict (m_datainfo m));
         (KStr "value_type", PStr (m_value_type m));
         (KStr "dependent_variables", PDict (map (fun kv => (KStr (sym_str G (fst kv)), PInt (snd kv))) (m_depvars m)));
         (KStr "observation_transformation",
            PDict (map (fun kv => (KStr (ser G (fst kv)), pser (snd kv))) (m_obstrans m)));
         (KStr "initial_individual_estimates", of_opt (fun x => x) (m_iie m))].

Definition depvar_from (kv : pkey * pyv) : option (E * Z) :=
  match kv with (KStr k, PInt z) => Some (sym_of G k, z) | _ => None end.
Definition obstrans_from (kv : pkey * pyv) : option (E * E) :=
  match kv with (KStr k, PStr s) => a <- deser G k ;; b <- deser G s ;; Some (a, b) | _ => None end.
(* the constructor is called without name / description / dataset: they get their defaults *)
Definition model_from_dict (v : pyv) : option model :=
  d <- as_dict v ;;
  ie <- dget "initial_individual_estimates" d ;;
  dv <- dget "dependent_variables" d ;; dv <- as_dict dv ;; dv <- traverse depvar_from dv ;;
  ot <- dget "observation_transformation" d ;; ot <- as_dict ot ;; ot <- traverse obstrans_from ot ;;
  ps <- dget "parameters" d ;; ps <- params_from_dict ps ;;
  rv <- dget "random_variables" d ;; rv <- rvs_from_dict rv ;;
  st <- dget "statements" d ;; st <- stmts_from_dict st ;;
  es <- dget "execution_steps" d ;; es <- steps_from_dict es ;;
  di <- dget "datainfo" d ;; di <- di_from_dict di ;;
  vt <- dget "value_type" d ;; vt <- as_str vt ;;
  Some (mkModel "" "" ps rv st es di vt dv ot (match ie with PNone => None | x => Some x end)).

(* Mapping.__eq__: dict(self.items()) == dict(other.items()) *)
Fixpoint alookup {A B} (eqb : A -> A -> bool) (k : A) (l : list (A * B)) : option B :=
  match l with [] => None | (k', v) :: tl => if eqb k k' then Some v else alookup eqb k tl end.
Definition map_eqb {A B} (keqb : A -> A -> bool) (veqb : B -> B -> bool) (a b : list (A * B)) : bool :=
  Nat.eqb (List.length a) (List.length b) &&
  forallb (fun kv => match alookup keqb (fst kv) b with Some v => veqb (snd kv) v | None => false end) a.

(* Model.__eq__; name, description and dataset are not looked at *)
Definition model_eq (a b : model) : bool :=
  params_eqb (m_parameters a) (m_parameters b) && rvs_eqb (m_rvs a) (m_rvs b)
  && stmts_eq (m_statements a) (m_statements b)
  && map_eqb (expr_eqb G) Z.eqb (m_depvars a) (m_depvars b)
  && map_eqb (expr_eqb G) (expr_eqb G) (m_obstrans a) (m_obstrans b)
  && (Nat.eqb (List.length (m_steps a)) (List.length (m_steps b)) && zip_all step_eqb (m_steps a) (m_steps b))
  && opt_eqb pyv_pyeq (m_iie a) (m_iie b)
  && (Nat.eqb (List.length (di_columns (m_datainfo a))) (List.length (di_columns (m_datainfo b)))
      && zip_all column_eqb (di_columns (m_datainfo a)) (di_columns (m_datainfo b)))
  && String.eqb (m_value_type a) (m_value_type b).

(* what from_dict (to_dict m) keeps of m *)
Definition strip (m : model) : model :=
  mkModel "" "" (m_parameters m) (m_rvs m) (m_statements m) (m_steps m)
          (mkDi (di_columns (m_datainfo m)) None (di_separator (m_datainfo m)) (di_missing (m_datainfo m)))
          (m_value_type m) (m_depvars m) (m_obstrans m) (m_iie m).

(* ModelHash.__init__: datainfo path, name and description are blanked before encoding *)
Definition blank (m : model) : model :=
  mkModel "" "" (m_parameters m) (m_rvs m) (m_statements m) (m_steps m)
          (mkDi (di_columns (m_datainfo m)) None (di_separator (m_datainfo m)) (di_missing (m_datainfo m)))
          (m_value_type m) (m_depvars m) (m_obstrans m) (m_iie m).

(* ---- what the two ways back keep of an object ---------------------------------------------- *)
(* derivatives come back as the tuple of their texts *)
Definition derivs_texts (d : derivs) : list string :=
  match d with DSyms l => map (tup_str G) l | DStrs l => l end.
Definition est_with (e : eststep) (d : derivs) (tool : list (pkey * pyv)) : eststep :=
  mkEst (es_method e) (es_interaction e) (es_pum e) (es_evaluation e) (es_maxeval e) (es_laplace e)
        (es_isample e) (es_niter e) (es_auto e) (es_keep e) (es_residuals e) (es_predictions e) d (es_ies e)
        (mkCommon (co_solver (es_common e)) (co_rtol (es_common e)) (co_atol (es_common e)) tool).
(* from_dict (to_dict e) *)
Definition est_flat (e : eststep) : eststep :=
  est_with e (DStrs (derivs_texts (es_derivatives e))) (co_tool (es_common e)).
Definition step_flat (s : step) : step := match s with StEst e => StEst (est_flat e) | StSim x => StSim x end.
Definition derivs_canon (d : derivs) : bool := match d with DStrs _ => true | _ => false end.
Definition step_canon (s : step) : bool :=
  match s with StEst e => derivs_canon (es_derivatives e) | StSim _ => true end.

(* from_dict (json.loads (json.dumps (to_dict x))): tuples are restored; values held verbatim (tool
   options, category values, initial estimates) come back normalised *)
Definition est_json (e : eststep) : eststep :=
  est_with e (DStrs (derivs_texts (es_derivatives e))) (norm_items (co_tool (es_common e))).
Definition sim_json (s : simstep) : simstep :=
  mkSim (ss_n s) (ss_seed s)
        (mkCommon (co_solver (ss_common s)) (co_rtol (ss_common s)) (co_atol (ss_common s))
                  (norm_items (co_tool (ss_common s)))).
Definition step_json (s : step) : step :=
  match s with StEst e => StEst (est_json e) | StSim x => StSim (sim_json x) end.
Definition column_json (c : column) : column :=
  mkColumn (ci_name c) (ci_type c) (ci_unit c) (ci_scale c) (ci_continuous c) (cats_json (ci_categories c))
           (ci_drop c) (ci_datatype c) (ci_descriptor c).
Definition di_json (x : datainfo) : datainfo :=
  mkDi (map column_json (di_columns x)) None (di_separator x) (di_missing x).
Definition model_flat (m : model) : model :=
  mkModel "" "" (m_parameters m) (m_rvs m) (m_statements m) (map step_flat (m_steps m))
          (mkDi (di_columns (m_datainfo m)) None (di_separator (m_datainfo m)) (di_missing (m_datainfo m)))
          (m_value_type m) (m_depvars m) (m_obstrans m) (m_iie m).
Definition model_json (m : model) : model :=
  mkModel "" "" (m_parameters m) (m_rvs m) (m_statements m) (map step_json (m_steps m))
          (di_json (m_datainfo m)) (m_value_type m) (m_depvars m) (m_obstrans m) (option_map normalise (m_iie m)).

(* objects the JSON text represents exactly: nothing held verbatim changes under normalise *)
Definition step_json_ok (s : step) : bool :=
  match s with
  | StEst e => derivs_canon (es_derivatives e) && is_json (PDict (co_tool (es_common e)))
  | StSim x => is_json (PDict (co_tool (ss_common x)))
  end.
Definition column_json_ok (c : column) : bool := cats_is_json (ci_categories c).

(* the same model under another name, description and data path *)
Definition with_meta (m : model) (nm de : string) (pa : option string) : model :=
  mkModel nm de (m_parameters m) (m_rvs m) (m_statements m) (m_steps m)
          (mkDi (di_columns (m_datainfo m)) pa (di_separator (m_datainfo m)) (di_missing (m_datainfo m)))
          (m_value_type m) (m_depvars m) (m_obstrans m) (m_iie m).

(* ---- well-formedness of a compartment graph: what the builder maintains ---- *)
Fixpoint nodup_nodes (l : list node) : bool :=
  match l with [] => true | x :: tl => negb (existsb (node_eqb x) tl) && nodup_nodes tl end.
Definition graph_wf (g : graph) : bool :=
  nodup_nodes (g_nodes g)
  && forallb (fun na => nodup_nodes (map fst (snd na)) && forallb (fun vr => has_node (fst vr) g) (snd na)) g.
Definition out_first (g : graph) : bool := match g with (NOut, _) :: _ => true | _ => false end.
(* what CompartmentalSystemBuilder does to its graph with add_compartment / add_flow *)
Inductive bop := BAddComp (c : compartment) | BAddFlow (u v : node) (r : E) | BRemoveFlow (u v : node).
(* DiGraph.remove_edge(u, v): v leaves u's successors, the order of the others is kept; when there is
   no such edge networkx raises and the graph is unchanged *)
Definition remove_edge (u v : node) (g : graph) : graph :=
  map (fun na => if node_eqb u (fst na)
                 then (fst na, filter (fun vr => negb (node_eqb v (fst vr))) (snd na)) else na) g.
Definition run_bop (g : graph) (o : bop) : graph :=
  match o with
  | BAddComp c => add_node (NComp c) g
  | BAddFlow u v r => add_edge u v r g
  | BRemoveFlow u v => remove_edge u v g
  end.
Definition fresh_builder : graph := [(NOut, [])].
Definition run_bops (ops : list bop) : graph := fold_left run_bop ops fresh_builder.
Definition cs_ok (s : csys) : bool := graph_wf (cs_g s) && out_first (cs_g s).
(* two graphs enumerate their nodes, and every node its successors, in the same order *)
Definition same_enum (g h : graph) : bool :=
  list_eqb node_eqb (g_nodes g) (g_nodes h)
  && list_eqb (fun p q => list_eqb node_eqb (map fst (snd p)) (map fst (snd q))) g h.
Definition stmt_ok (s : stmt) : bool := match s with SOde c => cs_ok c | SAssign _ => true end.
Definition stmt_same_enum (a b : stmt) : bool :=
  match a, b with SOde x, SOde y => same_enum (cs_g x) (cs_g y) | _, _ => true end.
(* ---- the order in which ModelHash encodes a system (workflows/hashing.py, _encode) ----------
   compartments sorted by name (the output node has none: key ''), rate indices renumbered to the
   new positions, rates sorted.  Stated on the graph: the encoded dictionary is to_dict of the
   re-ordered system (up to tuple/list, which json.dumps does not distinguish): nodes sorted by
   name, every node's successors sorted by their new position.  (sorted() on the (u, v, rate)
   triples looks at the rate text only for two flows between the same pair, which a graph
   cannot hold.) *)
Definition node_name (n : node) : string := match n with NOut => "" | NComp c => c_name c end.
Definition pos_in (n : node) (l : list node) : nat :=
  match index_of n l with Some i => i | None => List.length l end.
Definition adj_of (n : node) (g : graph) : list (node * E) := match g_lookup n g with Some a => a | None => [] end.
Definition graph_canon (g : graph) : graph :=
  let ns := sort_by node_name str_leb (g_nodes g) in
  map (fun n => (n, sort_by (fun vr : node * E => pos_in (fst vr) ns) Nat.leb (adj_of n g))) ns.
Definition cs_canon (s : csys) : csys := mkCs (graph_canon (cs_g s)) (cs_t s).
Definition stmt_canon (st : stmt) : stmt := match st with SOde c => SOde (cs_canon c) | SAssign a => SAssign a end.
Definition names_distinct (g : graph) : bool :=
  (fix nd (l : list string) : bool :=
     match l with [] => true | x :: tl => negb (existsb (String.eqb x) tl) && nd tl end) (map node_name (g_nodes g)).

(* dependent variables are symbols: Expr.symbol(str(y)) is y *)
Definition depvars_ok (m : model) : Prop := forall kv, In kv (m_depvars m) -> sym_of G (sym_str G (fst kv)) = fst kv.

(* the same model with other statements *)
Definition with_statements (m : model) (l : list stmt) : model :=
  mkModel (m_name m) (m_description m) (m_parameters m) (m_rvs m) l (m_steps m)
          (m_datainfo m) (m_value_type m) (m_depvars m) (m_obstrans m) (m_iie m).
(* the dictionary ModelHash encodes: systems in name order (ddb8814), the dependent-variable and
   observation-transformation mappings sorted by their (text) keys (eb87ce1; sorted() on the items
   of a dict never has to look past the key) *)
Definition depvar_key (kv : E * Z) : string := sym_str G (fst kv).
Definition obstrans_key (kv : E * E) : string := ser G (fst kv).
Definition model_canon (m : model) : model :=
  mkModel (m_name m) (m_description m) (m_parameters m) (m_rvs m) (map stmt_canon (m_statements m)) (m_steps m)
          (m_datainfo m) (m_value_type m) (sort_by depvar_key str_leb (m_depvars m))
          (sort_by obstrans_key str_leb (m_obstrans m)) (m_iie m).
(* the same model with other statements and mappings *)
Definition with_content (m : model) (l : list stmt) (dv : list (E * Z)) (ot : list (E * E)) : model :=
  mkModel (m_name m) (m_description m) (m_parameters m) (m_rvs m) l (m_steps m)
          (m_datainfo m) (m_value_type m) dv ot (m_iie m).
Definition model_encode (m : model) : pyv := model_to_dict (model_canon m).

End Components.

(* ------------------------------------------------------------------------------------------ *)
(* What the theorems assume of the symbolic engines (statements only; nothing is proved here)   *)
(* ------------------------------------------------------------------------------------------ *)
Record engine_ok (G : engine) : Prop := mkEngineOk {
  expr_eqb_ok : forall a b, expr_eqb G a b = true <-> a = b;
  mat_eqb_ok : forall a b, mat_eqb G a b = true <-> a = b;
  unit_eqb_ok : forall a b, unit_eqb G a b = true <-> a = b;
  deser_ser : forall e, deser G (ser G e) = Some e;           (* parse_expr (srepr e) == e *)
  mdeser_mser : forall m, mdeser G (mser G m) = Some m;
  udeser_user : forall u, udeser G (user G u) = Some u;       (* Unit(srepr u) == u *)
  udeser_ustr : forall u, udeser G (ustr G u) = Some u        (* Unit(str u) == u *)
}.

(* ------------------------------------------------------------------------------------------ *)
(* The database key  (workflows/hashing.py)                                                   *)
(* ------------------------------------------------------------------------------------------ *)
Section Key.
Variable G : engine.
Variable dumps : pyv -> string.          (* json.dumps *)
Variable digest : Type.
Variable H : string -> digest.           (* sha256, then base64 *)
(* [ds]: the bytes fed from the dataset — 8 bytes per row hash of pandas' hash_pandas_object,
   then repr(columns), repr(index), repr(dtypes) *)
Definition key (ds : string) (m : model G) : digest := H (ds ++ dumps (model_encode G (blank G m))).
End Key.

(* what the separation theorems assume of json.dumps and of sha256, on the two compared inputs only *)
Definition dumps_sep (dumps : pyv -> string) (v w : pyv) : Prop := dumps v = dumps w -> normalise v = normalise w.
Definition H_sep {digest : Type} (H : string -> digest) (a b : string) : Prop := H a = H b -> a = b.

(* ------------------------------------------------------------------------------------------ *)
(* The dataset half of the key  (hashing._update_hash_with_dataset / DatasetHash)              *)
(* ------------------------------------------------------------------------------------------ *)
(* what pandas' hash_array sees of a cell: ints by value, floats by their 64 bit pattern *)
Inductive cell := CInt (z : Z) | CFloat (bits : Z) | CStr (s : string) | CBool (b : bool).
Inductive index :=
| IRange (start stop step : Z)                                    (* pd.RangeIndex *)
| ILabels (labels : list cell) (dtype : string) (name : option string).   (* any other Index *)
Record frame := mkFrame {
  f_columns : list string; f_dtypes : list string; f_index : index; f_rows : list (list cell) }.

(* repr(df.index): a RangeIndex by its three numbers; any other index by its labels -- all of them
   up to display.max_seq_items = 100, beyond that the first and the last ten and the length *)
Inductive index_view :=
| VRange (a b c : Z)
| VFull (l : list cell) (dt : string) (nm : option string)
| VTrunc (head tail : list cell) (n : nat) (dt : string) (nm : option string).
Definition lastn {A} (n : nat) (l : list A) : list A := skipn (List.length l - n) l.
Definition index_view_of (i : index) : index_view :=
  match i with
  | IRange a b c => VRange a b c
  | ILabels l dt nm => if Nat.leb (List.length l) 100 then VFull l dt nm
                       else VTrunc (firstn 10 l) (lastn 10 l) (List.length l) dt nm
  end.

(* everything of a frame that reaches the hash: the cells row by row (index=False: not the index
   labels), repr(list(df.columns)), repr(df.index), repr(list(df.dtypes)).  Dropped: df.attrs,
   the name of the columns axis, index labels that repr() elides. *)
Definition ds_input (f : frame) : list (list cell) * list string * index_view * list string :=
  (f_rows f, f_columns f, index_view_of (f_index f), f_dtypes f).

Definition cat_all (l : list string) : string := fold_right append "" l.
Section DatasetBytes.
Variable rowhash : list cell -> string.        (* int(val).to_bytes(8, 'big') of pandas' row hash *)
Variable repr_names : list string -> string.   (* repr(list(df.columns)) *)
Variable repr_index : index_view -> string.    (* repr(df.index), as far as it shows the index *)
Variable repr_dtypes : list string -> string.  (* repr(list(df.dtypes)) *)
Definition ds_bytes (f : frame) : string :=
  cat_all (map rowhash (f_rows f)) ++ repr_names (f_columns f)
  ++ repr_index (index_view_of (f_index f)) ++ repr_dtypes (f_dtypes f).
End DatasetBytes.
(* the row hash separates the rows of the two compared frames (it cannot be injective on all rows: 8 bytes) *)
Definition rows_sep (rowhash : list cell -> string) (l l' : list (list cell)) : Prop :=
  forall r r', In r l -> In r' l' -> rowhash r = rowhash r' -> r = r'.
(* a text format that can be read off the front of a longer text: Python's repr of a list / an Index *)
Definition decodable {A} (f : A -> string) : Prop := forall a b x y, (f a ++ x = f b ++ y)%string -> a = b.

(* ---- DataFrame.equals: same columns, dtypes, index labels and cells (NaN equals NaN, -0.0 equals 0.0) ---- *)
Definition f64_nan (bits : Z) : bool :=
  Z.eqb (Z.land bits 9218868437227405312) 9218868437227405312 && negb (Z.eqb (Z.land bits 4503599627370495) 0).
Definition f64_zero (bits : Z) : bool := Z.eqb (Z.land bits 9223372036854775807) 0.
Definition cell_equals (a b : cell) : bool :=
  match a, b with
  | CInt x, CInt y => Z.eqb x y
  | CFloat x, CFloat y => Z.eqb x y || (f64_nan x && f64_nan y) || (f64_zero x && f64_zero y)
  | CStr x, CStr y => String.eqb x y
  | CBool x, CBool y => Bool.eqb x y
  | _, _ => false end.
Definition cell_same (a b : cell) : bool :=
  match a, b with
  | CInt x, CInt y => Z.eqb x y | CFloat x, CFloat y => Z.eqb x y
  | CStr x, CStr y => String.eqb x y | CBool x, CBool y => Bool.eqb x y | _, _ => false end.
Fixpoint range_labels (fuel : nat) (a b c : Z) : list cell :=
  match fuel with
  | O => []
  | S k => if ((0 <? c) && (a <? b) || (c <? 0) && (b <? a))%Z then CInt a :: range_labels k (a + c) b c else []
  end.
Definition index_labels (i : index) : list cell :=
  match i with IRange a b c => range_labels (Z.to_nat (Z.abs (b - a)) + 1) a b c | ILabels l _ _ => l end.
Definition frame_equals (f g : frame) : bool :=
  list_eqb String.eqb (f_columns f) (f_columns g) && list_eqb String.eqb (f_dtypes f) (f_dtypes g)
  && list_eqb cell_equals (index_labels (f_index f)) (index_labels (f_index g))
  && list_eqb (list_eqb cell_equals) (f_rows f) (f_rows g).

Definition opt_str_eqb := opt_eqb String.eqb.
Definition index_view_same (a b : index_view) : bool :=
  match a, b with
  | VRange x y z, VRange x' y' z' => Z.eqb x x' && Z.eqb y y' && Z.eqb z z'
  | VFull l d n, VFull l' d' n' => list_eqb cell_same l l' && String.eqb d d' && opt_str_eqb n n'
  | VTrunc h t k d n, VTrunc h' t' k' d' n' =>
      list_eqb cell_same h h' && list_eqb cell_same t t' && Nat.eqb k k' && String.eqb d d' && opt_str_eqb n n'
  | _, _ => false end.
Definition ds_input_same (f g : frame) : bool :=
  list_eqb (list_eqb cell_same) (f_rows f) (f_rows g) && list_eqb String.eqb (f_columns f) (f_columns g)
  && index_view_same (index_view_of (f_index f)) (index_view_of (f_index g))
  && list_eqb String.eqb (f_dtypes f) (f_dtypes g).

(* ------------------------------------------------------------------------------------------ *)
(* Results JSON  (workflows/results.py: ResultsJSONEncoder / ResultsJSONDecoder, read_results)   *)
(* ------------------------------------------------------------------------------------------ *)
(* A results object: its class (module, qualified name) and its attributes in dataclass order
   (vars(self), __version__ first).  An attribute is a plain value (None, numbers, str, nested
   lists / tuples / dicts of such), a DataFrame, a Series, a Log, a Model, a Path, or something
   json cannot encode (set, ndarray, numpy scalar).  Tables and logs are engine values: pandas'
   to_json(orient='table') / read_json and Log.to_dict / from_dict are Section variables.
   (Nested Results objects, tables inside lists, Series of DataFrames and altair charts are
   outside the model; C20 owns the numeric precision of the table text.) *)
Definition reserved_key (s : string) : bool := String.eqb s "__class__" || String.eqb s "__module__".
Fixpoint remove_key (k : string) (d : list (pkey * pyv)) : list (pkey * pyv) :=
  match d with
  | [] => []
  | (KStr k', v) :: tl => if String.eqb k k' then remove_key k tl else (KStr k', v) :: remove_key k tl
  | kv :: tl => kv :: remove_key k tl
  end.
Fixpoint str_ends_with (suffix s : string) : bool :=
  String.eqb suffix s || match s with EmptyString => false | String _ tl => str_ends_with suffix tl end.
(* a plain value in which no dictionary carries a reserved key (the decoder's object hook would act on it) *)
Fixpoint plain_clean (v : pyv) : bool :=
  match v with
  | PList l => forallb plain_clean l
  | PTuple l => forallb plain_clean l
  | PDict d => forallb (fun kv => match kv with
                                  | (KStr k, x) => negb (reserved_key k) && plain_clean x
                                  | (KInt _, x) => plain_clean x end) d
  | _ => true
  end.

Section ResultsJson.
Variable tbl : Type.
Variable tbl_json : tbl -> list (pkey * pyv).             (* _df_to_json: json.loads(df.to_json(orient='table', ...)) *)
Variable tbl_read : list (pkey * pyv) -> option tbl.      (* _df_read_json; None = raises *)
Variable logv : Type.
Variable log_json : logv -> list (pkey * pyv).            (* Log.to_dict *)
Variable log_read : list (pkey * pyv) -> option logv.     (* Log.from_dict *)

Inductive rfield :=
| FPlain (v : pyv) | FFrame (t : tbl) | FSeries (t : tbl) | FLog (l : logv)
| FModel | FPath (p : string) | FOther.
Record results := mkResults { r_module : string; r_class : string; r_fields : list (string * rfield) }.

Definition class_item (c : string) : pkey * pyv := (KStr "__class__", PStr c).
(* ResultsJSONEncoder.default, per attribute; None = TypeError *)
Definition encode_field (f : rfield) : option pyv :=
  match f with
  | FPlain v => Some v
  | FFrame t => Some (PDict (tbl_json t ++ [class_item "DataFrame"]))
  | FSeries t => Some (PDict (tbl_json t ++ [class_item "Series"]))       (* obj.to_frame() *)
  | FLog l => Some (PDict (log_json l ++ [class_item "Log"]))
  | FModel => Some PNone                                                  (* "return None" *)
  | FPath p => Some (PDict [(KStr "path", PStr p); class_item "PosixPath"])
  | FOther => None
  end.
Definition encode_results (r : results) : option pyv :=
  items <- traverse (fun nf => v <- encode_field (snd nf) ;; Some (KStr (fst nf), v)) (r_fields r) ;;
  Some (PDict (items ++ [(KStr "__module__", PStr (r_module r)); class_item (r_class r)])).

(* ResultsJSONDecoder.object_hook on the value of one attribute (inner dictionaries of a plain
   value carry no reserved key: the hook returns them unchanged) *)
Definition decode_field (v : pyv) : option rfield :=
  match v with
  | PDict d =>
      match dget "__module__" d, dget "__class__" d with
      | Some _, None => None                                   (* ValueError *)
      | None, None => Some (FPlain v)
      | m, Some (PStr c) =>
          let obj := remove_key "__class__" (remove_key "__module__" d) in
          let pandas_ok := match m with None => true | Some (PStr ms) => String.prefix "pandas." ms | _ => false end in
          if pandas_ok && String.eqb c "DataFrame" then t <- tbl_read obj ;; Some (FFrame t)
          else if pandas_ok && String.eqb c "Series" then t <- tbl_read obj ;; Some (FSeries t)
          else if str_ends_with "Results" c then None            (* a nested results object: outside the model *)
          else if String.eqb c "PosixPath" then None             (* Path(obj) with obj a dict: TypeError *)
          else if String.eqb c "Log" then l <- log_read obj ;; Some (FLog l)
          else Some (FPlain (PDict obj))
      | _, Some _ => None
      end
  | _ => Some (FPlain v)
  end.
Definition decode_results (v : pyv) : option results :=
  match v with
  | PDict d =>
      match dget "__module__" d, dget "__class__" d with
      | Some (PStr m), Some (PStr c) =>
          if negb (str_ends_with "Results" c) then None else
          fields <- traverse (fun kv => match kv with
                                        | (KStr k, x) => f <- decode_field x ;; Some (k, f)
                                        | _ => None end)
                             (remove_key "__class__" (remove_key "__module__" d)) ;;
          Some (mkResults m c fields)
      | _, _ => None
      end
  | _ => None
  end.

(* the attribute kinds read_results gives back unchanged *)
Definition field_supported (f : rfield) : bool :=
  match f with
  | FPlain v => is_json v && plain_clean v
  | FFrame _ | FSeries _ | FLog _ => true
  | FModel | FPath _ | FOther => false
  end.
Definition results_supported (r : results) : bool :=
  str_ends_with "Results" (r_class r)
  && forallb (fun nf => negb (reserved_key (fst nf)) && field_supported (snd nf)) (r_fields r).
End ResultsJson.

(* ------------------------------------------------------------------------------------------ *)
(* The generic model code, end to end  (model/external/generic/generic.py, Model.code,          *)
(* modeling.read_model_from_string)                                                             *)
(* ------------------------------------------------------------------------------------------ *)
Section Generic.
Variable G : engine.
Variable dumps : pyv -> string.            (* json.dumps *)
Variable loads : string -> option pyv.     (* json.loads *)

(* convert_model(model, 'generic'): a new Model from the listed attributes (all the modelled ones,
   value_type included since 7115d86; the format specific internals are not carried over) *)
Definition generic_convert (m : model G) : model G :=
  mkModel G (m_name G m) (m_description G m) (m_parameters G m) (m_rvs G m) (m_statements G m) (m_steps G m)
          (m_datainfo G m) (m_value_type G m) (m_depvars G m) (m_obstrans G m) (m_iie G m).
(* Model.code: d = to_dict(); d['__magic__'] = ...; d['__version__'] = ...; json.dumps(d) *)
Definition magic_items (version : string) : list (pkey * pyv) :=
  [(KStr "__magic__", PStr "Pharmpy Model"); (KStr "__version__", PStr version)].
Definition generic_code_dict (version : string) (m : model G) : pyv :=
  match model_to_dict G m with PDict d => PDict (d ++ magic_items version) | v => v end.
Definition generic_code (version : string) (m : model G) : string := dumps (generic_code_dict version m).
(* parse_model: Model.from_dict(json.loads(code)) *)
Definition generic_parse (code : string) : option (model G) := v <- loads code ;; model_from_dict G v.
Definition generic_roundtrip (version : string) (m : model G) : option (model G) :=
  generic_parse (generic_code version (generic_convert m)).
End Generic.
