(* PV.C12.Proofs — lemmas for the C12 theorems. *)
From Coq Require Import QArith ZArith List Bool Arith String Ascii Lia.
From PV Require Import C12.Model.
Import ListNotations.
Local Open Scope nat_scope.
Local Open Scope string_scope.

(* ------------------------------------------------------------------------------------------ *)
(* generalities                                                                               *)
(* ------------------------------------------------------------------------------------------ *)
Lemma as_num_of_num n : as_num (of_num n) = Some n.
Proof. destruct n; reflexivity. Qed.

Lemma traverse_map {A B} (f : B -> option A) (g : A -> B) (l : list A) :
  (forall x, In x l -> f (g x) = Some x) -> traverse f (map g l) = Some l.
Proof.
  induction l as [|x tl IH]; intros Hx; cbn [map traverse]; [reflexivity|].
  rewrite (Hx x (or_introl eq_refl)), IH; [reflexivity|]. intros y Hy. apply Hx. right; exact Hy.
Qed.

Lemma traverse_map' {A B C} (f : B -> option C) (g : A -> B) (h : A -> C) (l : list A) :
  (forall x, In x l -> f (g x) = Some (h x)) -> traverse f (map g l) = Some (map h l).
Proof.
  induction l as [|x tl IH]; intros Hx; cbn [map traverse]; [reflexivity|].
  rewrite (Hx x (or_introl eq_refl)), IH; [reflexivity|]. intros y Hy. apply Hx. right; exact Hy.
Qed.

Lemma traverse_as_str l : traverse as_str (map PStr l) = Some l.
Proof. apply traverse_map. reflexivity. Qed.


Lemma list_eqb_refl {A} (eqb : A -> A -> bool) (l : list A) :
  (forall x, In x l -> eqb x x = true) -> list_eqb eqb l l = true.
Proof.
  induction l as [|x tl IH]; intros H; cbn; [reflexivity|].
  rewrite (H x (or_introl eq_refl)), IH; [reflexivity|]. intros; apply H; right; assumption.
Qed.

Lemma list_eqb_eq {A} (eqb : A -> A -> bool) :
  (forall a b, eqb a b = true -> a = b) -> forall l m, list_eqb eqb l m = true -> l = m.
Proof.
  intros H. induction l as [|x tl IH]; destruct m as [|y m']; cbn; intros E; try discriminate; [reflexivity|].
  apply andb_true_iff in E. destruct E as [E1 E2]. rewrite (H _ _ E1), (IH _ E2). reflexivity.
Qed.

Lemma opt_eqb_eq {A} (eqb : A -> A -> bool) :
  (forall a b, eqb a b = true -> a = b) -> forall x y, opt_eqb eqb x y = true -> x = y.
Proof.
  intros H [x|] [y|]; cbn; intros E; try discriminate; [rewrite (H _ _ E)|]; reflexivity.
Qed.

(* nested induction principle for Python values, proved once *)
Section PyvInd.
  Variable P : pyv -> Prop.
  Hypothesis Hnone : P PNone.
  Hypothesis Hbool : forall b, P (PBool b).
  Hypothesis Hint : forall z, P (PInt z).
  Hypothesis Hfloat : forall f, P (PFloat f).
  Hypothesis Hstr : forall s, P (PStr s).
  Hypothesis Hlist : forall l, Forall P l -> P (PList l).
  Hypothesis Htuple : forall l, Forall P l -> P (PTuple l).
  Hypothesis Hdict : forall d, Forall (fun kv => P (snd kv)) d -> P (PDict d).

  Fixpoint pyv_ind' (v : pyv) : P v :=
    match v with
    | PNone => Hnone
    | PBool b => Hbool b
    | PInt z => Hint z
    | PFloat f => Hfloat f
    | PStr s => Hstr s
    | PList l => Hlist l ((fix go (l : list pyv) : Forall P l :=
                             match l with [] => Forall_nil _ | x :: tl => Forall_cons _ (pyv_ind' x) (go tl) end) l)
    | PTuple l => Htuple l ((fix go (l : list pyv) : Forall P l :=
                             match l with [] => Forall_nil _ | x :: tl => Forall_cons _ (pyv_ind' x) (go tl) end) l)
    | PDict d => Hdict d ((fix go (d : list (pkey * pyv)) : Forall (fun kv => P (snd kv)) d :=
                             match d with [] => Forall_nil _ | kv :: tl => Forall_cons _ (pyv_ind' (snd kv)) (go tl) end) d)
    end.
End PyvInd.

(* ------------------------------------------------------------------------------------------ *)
(* json.loads . json.dumps                                                                    *)
(* ------------------------------------------------------------------------------------------ *)
Lemma norm_key_idem k : norm_key (norm_key k) = norm_key k.
Proof. destruct k; reflexivity. Qed.

Lemma map_ext_Forall {A B} (f g : A -> B) l : Forall (fun x => f x = g x) l -> map f l = map g l.
Proof. induction 1; cbn; [reflexivity|]. rewrite H, IHForall. reflexivity. Qed.

(* what json.loads returns is a fixed point: a second round trip changes nothing *)
Lemma normalise_idem_all v : normalise (normalise v) = normalise v.
Proof.
  induction v using pyv_ind'; cbn [normalise]; try reflexivity.
  - f_equal. rewrite map_map. apply map_ext_Forall. exact H.
  - f_equal. rewrite map_map. apply map_ext_Forall. exact H.
  - f_equal. rewrite map_map. apply map_ext_Forall.
    rewrite Forall_forall in *. intros [k x] Hx. rewrite norm_key_idem. f_equal. apply (H _ Hx).
Qed.

Lemma normalise_is_json_lemma v : is_json (normalise v) = true.
Proof.
  induction v using pyv_ind'; cbn [normalise is_json]; try reflexivity.
  - rewrite forallb_forall. intros y Hy. apply in_map_iff in Hy. destruct Hy as [x [E Hx]]. subst.
    rewrite Forall_forall in H. apply H; auto.
  - rewrite forallb_forall. intros y Hy. apply in_map_iff in Hy. destruct Hy as [x [E Hx]]. subst.
    rewrite Forall_forall in H. apply H; auto.
  - rewrite forallb_forall. intros y Hy. apply in_map_iff in Hy. destruct Hy as [[k x] [E Hx]]. subst.
    rewrite Forall_forall in H. destruct k; cbn; apply (H _ Hx).
Qed.

Lemma normalise_fix_lemma v : is_json v = true -> normalise v = v.
Proof.
  induction v using pyv_ind'; cbn [normalise is_json]; intros J; try reflexivity; try discriminate.
  - f_equal. rewrite <- (map_id l) at 2. apply map_ext_Forall.
    rewrite forallb_forall in J. rewrite Forall_forall in *. intros x Hx. apply H; auto.
  - f_equal. rewrite <- (map_id d) at 2. apply map_ext_Forall.
    rewrite forallb_forall in J. rewrite Forall_forall in *. intros [k x] Hx. specialize (J _ Hx). cbn in *.
    destruct k; [|discriminate]. cbn. f_equal. apply (H _ Hx). exact J.
Qed.

(* ------------------------------------------------------------------------------------------ *)
(* round trips of the flat components                                                         *)
(* ------------------------------------------------------------------------------------------ *)
Lemma param_roundtrip p : param_from_dict (param_to_dict p) = Some p.
Proof.
  destruct p as [n i lo up fx]. unfold param_from_dict, param_to_dict. cbn.
  rewrite !as_num_of_num. reflexivity.
Qed.

Lemma params_roundtrip l : params_from_dict (params_to_dict l) = Some l.
Proof.
  unfold params_from_dict, params_to_dict. cbn. apply traverse_map. intros; apply param_roundtrip.
Qed.

Lemma vlevel_roundtrip l : vlevel_from_dict (vlevel_to_dict l) = Some l.
Proof. destruct l as [n r [g|]]; reflexivity. Qed.

Lemma hier_roundtrip h : hier_from_dict (hier_to_dict h) = Some h.
Proof.
  unfold hier_from_dict, hier_to_dict. cbn. apply traverse_map. intros; apply vlevel_roundtrip.
Qed.

Section WithEngine.
Variable G : engine.
Hypothesis GOK : engine_ok G.

Lemma get_expr_ser k e d : dget k d = Some (pser G e) -> get_expr G k d = Some e.
Proof. intros H. unfold get_expr. rewrite H. cbn. apply (deser_ser G GOK). Qed.

Lemma normal_roundtrip x : normal_from_dict G (normal_to_dict G x) = Some x.
Proof.
  destruct x as [n l m v]. unfold normal_from_dict, normal_to_dict, get_expr, pser. cbn.
  rewrite !(deser_ser G GOK). reflexivity.
Qed.

Lemma joint_roundtrip x : joint_from_dict G (joint_to_dict G x) = Some x.
Proof.
  destruct x as [ns l m v]. unfold joint_from_dict, joint_to_dict, get_mat. cbn -[traverse].
  rewrite traverse_as_str. cbn. rewrite !(mdeser_mser G GOK). reflexivity.
Qed.

Lemma dist_roundtrip x : dist_from_dict G (dist_to_dict G x) = Some x.
Proof.
  destruct x as [n|j]; unfold dist_from_dict; cbn [dist_to_dict];
    [rewrite normal_roundtrip | rewrite joint_roundtrip]; reflexivity.
Qed.

Lemma rvs_roundtrip r : rvs_from_dict G (rvs_to_dict G r) = Some r.
Proof.
  destruct r as [ds e p]. unfold rvs_from_dict, rvs_to_dict.
  cbn -[hier_from_dict hier_to_dict dist_from_dict dist_to_dict].
  rewrite !hier_roundtrip. rewrite (traverse_map (dist_from_dict G) (dist_to_dict G)); [reflexivity|].
  intros; apply dist_roundtrip.
Qed.

Lemma assign_roundtrip a : assign_from_dict G (assign_to_dict G a) = Some a.
Proof.
  destruct a as [s e]. unfold assign_from_dict, assign_to_dict, get_expr, pser. cbn.
  rewrite !(deser_ser G GOK). reflexivity.
Qed.

Lemma dose_roundtrip x : dose_from_dict G (dose_to_dict G x) = Some x.
Proof.
  destruct x as [a i|a i r du]; unfold dose_from_dict, dose_to_dict, get_expr, get_opt_expr, pser; cbn;
    rewrite ?(deser_ser G GOK); [reflexivity|].
  destruct r, du; cbn; rewrite ?(deser_ser G GOK); reflexivity.
Qed.

Lemma comp_roundtrip c : comp_from_dict G (comp_to_dict G c) = Some c.
Proof.
  destruct c as [n a ds i l b]. unfold comp_from_dict, comp_to_dict, get_expr, pser.
  cbn -[dose_from_dict dose_to_dict traverse].
  destruct ds as [|d0 ds'].
  - cbn. rewrite !(deser_ser G GOK). reflexivity.
  - cbn -[dose_from_dict dose_to_dict traverse].
    change (dose_to_dict G d0 :: map (dose_to_dict G) ds') with (map (dose_to_dict G) (d0 :: ds')).
    rewrite (traverse_map (dose_from_dict G) (dose_to_dict G)); [| intros; apply dose_roundtrip].
    rewrite !(deser_ser G GOK). reflexivity.
Qed.

Lemma node_roundtrip n : node_from_dict G (node_to_dict G n) = Some n.
Proof.
  destruct n as [|c]; unfold node_from_dict; [reflexivity|].
  cbn [node_to_dict]. rewrite comp_roundtrip. reflexivity.
Qed.

(* ---- == is Leibniz equality on compartments, given that it is on expressions ---- *)
Lemma expr_eqb_eq a b : expr_eqb G a b = true -> a = b.
Proof. apply (expr_eqb_ok G GOK). Qed.
Lemma expr_eqb_refl a : expr_eqb G a a = true.
Proof. apply (expr_eqb_ok G GOK). reflexivity. Qed.

Lemma dose_eqb_eq a b : dose_eqb G a b = true -> a = b.
Proof.
  destruct a as [x i|x i r du], b as [y j|y j r' du']; cbn; intros E; try discriminate.
  - apply andb_true_iff in E. destruct E as [E1 E2]. apply expr_eqb_eq in E1. apply Z.eqb_eq in E2. subst. reflexivity.
  - repeat (apply andb_true_iff in E; destruct E as [E ?]).
    apply Z.eqb_eq in E. apply (opt_eqb_eq _ expr_eqb_eq) in H1. apply (opt_eqb_eq _ expr_eqb_eq) in H0.
    apply expr_eqb_eq in H. subst. reflexivity.
Qed.
Lemma dose_eqb_refl a : dose_eqb G a a = true.
Proof.
  destruct a as [x i|x i [r|] [du|]]; cbn; rewrite ?expr_eqb_refl, ?Z.eqb_refl; reflexivity.
Qed.

Lemma comp_eqb_eq a b : comp_eqb G a b = true -> a = b.
Proof.
  destruct a as [n a ds i l bb], b as [n' a' ds' i' l' bb']. unfold comp_eqb. cbn. intros E.
  repeat (apply andb_true_iff in E; destruct E as [E ?]).
  apply String.eqb_eq in E. apply expr_eqb_eq in H3, H1, H0, H.
  apply (list_eqb_eq _ dose_eqb_eq) in H2. subst. reflexivity.
Qed.
Lemma comp_eqb_refl a : comp_eqb G a a = true.
Proof.
  destruct a as [n a ds i l bb]. unfold comp_eqb. cbn.
  rewrite String.eqb_refl, !expr_eqb_refl, list_eqb_refl; [reflexivity|]. intros; apply dose_eqb_refl.
Qed.

Lemma node_eqb_eq a b : node_eqb G a b = true <-> a = b.
Proof.
  split.
  - destruct a, b; cbn; intros E; try discriminate; [reflexivity|]. apply comp_eqb_eq in E. subst. reflexivity.
  - intros <-. destruct a; cbn; [reflexivity | apply comp_eqb_refl].
Qed.
Lemma node_eqb_refl a : node_eqb G a a = true.
Proof. apply node_eqb_eq. reflexivity. Qed.
Lemma node_eqb_neq a b : a <> b -> node_eqb G a b = false.
Proof. intros N. destruct (node_eqb G a b) eqn:E; [apply node_eqb_eq in E; contradiction | reflexivity]. Qed.


(* ------------------------------------------------------------------------------------------ *)
(* the compartment graph: to_dict / from_dict rebuild it node for node and edge for edge        *)
(* ------------------------------------------------------------------------------------------ *)
Local Close Scope string_scope.
Definition empty_of (ns : list (node G)) : graph G := map (fun n => (n, [])) ns.

Lemma g_nodes_app g1 g2 : g_nodes G (g1 ++ g2) = (g_nodes G g1 ++ g_nodes G g2)%list.
Proof. apply map_app. Qed.
Lemma g_nodes_empty ns : g_nodes G (empty_of ns) = ns.
Proof. unfold g_nodes, empty_of. rewrite map_map. cbn. apply map_id. Qed.
Lemma empty_of_app a b : empty_of (a ++ b) = (empty_of a ++ empty_of b)%list.
Proof. apply map_app. Qed.

Lemma has_node_In n g : has_node G n g = true <-> In n (g_nodes G g).
Proof.
  unfold has_node. rewrite existsb_exists. split.
  - intros [x [Hx E]]. apply node_eqb_eq in E. subst. exact Hx.
  - intros H. exists n. split; [exact H | apply node_eqb_refl].
Qed.

Lemma add_node_present n g : In n (g_nodes G g) -> add_node G n g = g.
Proof. intros H. unfold add_node. apply has_node_In in H. rewrite H. reflexivity. Qed.
Lemma add_node_absent n g : ~ In n (g_nodes G g) -> add_node G n g = (g ++ [(n, [])])%list.
Proof.
  intros H. unfold add_node. destruct (has_node G n g) eqn:E; [apply has_node_In in E; contradiction | reflexivity].
Qed.

Lemma nodup_nodes_NoDup l : nodup_nodes G l = true -> NoDup l.
Proof.
  induction l as [|a l IH]; cbn; intros H; [constructor|].
  apply andb_true_iff in H. destruct H as [H1 H2]. constructor; [|auto].
  intro Hin. apply negb_true_iff in H1.
  assert (existsb (node_eqb G a) l = true) as X.
  { apply existsb_exists. exists a. split; [exact Hin | apply node_eqb_refl]. }
  congruence.
Qed.
Lemma NoDup_nodup_nodes l : NoDup l -> nodup_nodes G l = true.
Proof.
  induction 1 as [|a l Hn ND IH]; cbn; [reflexivity|]. rewrite IH, andb_true_r. apply negb_true_iff.
  destruct (existsb (node_eqb G a) l) eqn:E; [|reflexivity].
  apply existsb_exists in E. destruct E as [x [Hx E]]. apply node_eqb_eq in E. subst. contradiction.
Qed.

Lemma add_comp_nodes_spec l : forall acc, In (NOut G) acc -> NoDup (acc ++ l) ->
  add_comp_nodes G l (empty_of acc) = empty_of (acc ++ l).
Proof.
  induction l as [|x tl IH]; intros acc Hout ND.
  - rewrite app_nil_r. reflexivity.
  - unfold add_comp_nodes in *. cbn [fold_left].
    assert (~ In x (acc ++ tl)) as Nx by (apply NoDup_remove_2; exact ND).
    destruct x as [|c].
    + exfalso. apply Nx. apply in_or_app. left. exact Hout.
    + rewrite add_node_absent.
      2:{ rewrite g_nodes_empty. intro Hin. apply Nx. apply in_or_app. left. exact Hin. }
      change [(NComp G c, @nil (node G * expr G))] with (empty_of [NComp G c]).
      rewrite <- empty_of_app. rewrite IH.
      * rewrite <- app_assoc. reflexivity.
      * apply in_or_app. left. exact Hout.
      * rewrite <- app_assoc. exact ND.
Qed.

Lemma set_adj_new v r adj : ~ In v (map fst adj) -> set_adj G v r adj = (adj ++ [(v, r)])%list.
Proof.
  induction adj as [|[v' r'] tl IH]; cbn; intros N; [reflexivity|].
  rewrite node_eqb_neq; [| intro; subst; apply N; left; reflexivity].
  rewrite IH; [reflexivity|]. intro; apply N; right; assumption.
Qed.

Lemma upd_adj_at u v r g1 adj rest : ~ In u (g_nodes G g1) ->
  upd_adj G u v r (g1 ++ (u, adj) :: rest) = (g1 ++ (u, set_adj G v r adj) :: rest)%list.
Proof.
  induction g1 as [|[n a] tl IH]; cbn; intros N.
  - rewrite node_eqb_refl. reflexivity.
  - rewrite node_eqb_neq; [| intro; subst; apply N; left; reflexivity].
    rewrite IH; [reflexivity|]. intro; apply N; right; assumption.
Qed.

Lemma add_edges_app es1 es2 g : add_edges G (es1 ++ es2) g = add_edges G es2 (add_edges G es1 g).
Proof. unfold add_edges. apply fold_left_app. Qed.

Lemma add_edges_row n : forall a2 a1 g1 rest,
  ~ In n (g_nodes G g1) -> NoDup (map fst (a1 ++ a2)) ->
  (forall v, In v (map fst a2) -> In v (g_nodes G g1 ++ n :: g_nodes G rest)) ->
  add_edges G (map (fun vr => (n, fst vr, snd vr)) a2) (g1 ++ (n, a1) :: rest) = (g1 ++ (n, a1 ++ a2) :: rest)%list.
Proof.
  induction a2 as [|[v r] a2' IH]; intros a1 g1 rest Nn ND Hv.
  - rewrite app_nil_r. reflexivity.
  - cbn [map add_edges fold_left fst snd]. unfold add_edges in IH |- *. cbn [fold_left].
    assert (g_nodes G (g1 ++ (n, a1) :: rest) = (g_nodes G g1 ++ n :: g_nodes G rest)%list) as GN.
    { rewrite g_nodes_app. reflexivity. }
    unfold add_edge.
    rewrite (add_node_present n); [| rewrite GN; apply in_or_app; right; left; reflexivity].
    rewrite (add_node_present v); [| rewrite GN; apply Hv; left; reflexivity].
    rewrite upd_adj_at; [| exact Nn].
    rewrite set_adj_new.
    2:{ rewrite map_app in ND. cbn in ND. apply NoDup_remove_2 in ND. intro Hin. apply ND.
        apply in_or_app. left. exact Hin. }
    rewrite IH.
    + rewrite <- app_assoc. reflexivity.
    + exact Nn.
    + rewrite <- app_assoc. exact ND.
    + intros w Hw. apply Hv. right. exact Hw.
Qed.

Lemma edges_of_cons n adj g : edges_of G ((n, adj) :: g) = (map (fun vr => (n, fst vr, snd vr)) adj ++ edges_of G g)%list.
Proof. reflexivity. Qed.

Lemma add_edges_all : forall g2 g1,
  NoDup (g_nodes G (g1 ++ g2)) ->
  (forall n adj, In (n, adj) g2 -> NoDup (map fst adj) /\ forall v, In v (map fst adj) -> In v (g_nodes G (g1 ++ g2))) ->
  add_edges G (edges_of G g2) (g1 ++ empty_of (g_nodes G g2)) = (g1 ++ g2)%list.
Proof.
  induction g2 as [|[n adj] g2' IH]; intros g1 ND W.
  - reflexivity.
  - rewrite edges_of_cons, add_edges_app. cbn [g_nodes map fst empty_of].
    fold (g_nodes G g2'). fold (empty_of (g_nodes G g2')).
    destruct (W n adj (or_introl eq_refl)) as [NDa Ha].
    rewrite g_nodes_app in ND, Ha. cbn [g_nodes map fst] in ND, Ha. fold (g_nodes G g2') in ND, Ha.
    rewrite (add_edges_row n adj [] g1 (empty_of (g_nodes G g2'))).
    + cbn [app]. change (g1 ++ (n, adj) :: empty_of (g_nodes G g2'))%list
        with (g1 ++ [(n, adj)] ++ empty_of (g_nodes G g2'))%list.
      rewrite app_assoc. rewrite IH.
      * rewrite <- app_assoc. reflexivity.
      * rewrite <- app_assoc. rewrite g_nodes_app. cbn [g_nodes map fst app]. exact ND.
      * intros m a Hin. destruct (W m a (or_intror Hin)) as [X Y]. split; [exact X|].
        intros v Hv. rewrite <- app_assoc. cbn [app]. apply Y. exact Hv.
    + intro Hin. apply NoDup_remove_2 in ND. apply ND. apply in_or_app. left. exact Hin.
    + exact NDa.
    + intros v Hv. rewrite g_nodes_empty. apply Ha. exact Hv.
Qed.

Lemma graph_wf_props g : graph_wf G g = true ->
  NoDup (g_nodes G g) /\
  forall n adj, In (n, adj) g -> NoDup (map fst adj) /\ forall v, In v (map fst adj) -> In v (g_nodes G g).
Proof.
  unfold graph_wf. intros H. apply andb_true_iff in H. destruct H as [H1 H2]. split.
  - apply nodup_nodes_NoDup. exact H1.
  - intros n adj Hin. rewrite forallb_forall in H2. specialize (H2 _ Hin). cbn in H2.
    apply andb_true_iff in H2. destruct H2 as [A B]. split.
    + apply nodup_nodes_NoDup. exact A.
    + intros v Hv. rewrite forallb_forall in B. apply in_map_iff in Hv. destruct Hv as [[v' r] [Ev Hvr]].
      cbn in Ev. subst v'. specialize (B _ Hvr). cbn in B. apply has_node_In. exact B.
Qed.

Lemma graph_rebuild g : graph_wf G g = true -> out_first G g = true ->
  add_edges G (edges_of G g) (add_comp_nodes G (g_nodes G g) [(NOut G, [])]) = g.
Proof.
  intros W O. destruct (graph_wf_props g W) as [ND P].
  destruct g as [|[[|c] adj0] g']; try discriminate. clear O.
  cbn [g_nodes map fst] in *. fold (g_nodes G g') in *.
  unfold add_comp_nodes. cbn [fold_left]. fold (add_comp_nodes G (g_nodes G g') [(NOut G, [])]).
  change [(NOut G, @nil (node G * expr G))] with (empty_of [NOut G]).
  rewrite add_comp_nodes_spec; [| left; reflexivity | exact ND].
  cbn [app].
  change (empty_of (NOut G :: g_nodes G g')) with ([] ++ empty_of (g_nodes G ((NOut G, adj0) :: g')))%list.
  rewrite add_edges_all; [reflexivity | exact ND | exact P].
Qed.

Lemma index_of_nth n l : forall i, index_of G n l = Some i -> nth_error l i = Some n.
Proof.
  induction l as [|a l IH]; cbn; intros i; [discriminate|].
  destruct (node_eqb G n a) eqn:E.
  - intros [= <-]. apply node_eqb_eq in E. subst. reflexivity.
  - destruct (index_of G n l) as [j|]; cbn; [|discriminate]. intros [= <-]. cbn. apply IH. reflexivity.
Qed.
Lemma index_of_In n l : In n l -> exists i, index_of G n l = Some i.
Proof.
  induction l as [|a l IH]; cbn; intros H; [contradiction|].
  destruct (node_eqb G n a) eqn:E; [exists 0; reflexivity|].
  destruct H as [H|H]; [subst; rewrite node_eqb_refl in E; discriminate|].
  destruct (IH H) as [i Hi]. rewrite Hi. exists (S i). reflexivity.
Qed.

Lemma edge_roundtrip comps u v r : In u comps -> In v comps ->
  edge_from G comps (PTuple [PInt (idx G u comps); PInt (idx G v comps); pser G r]) = Some (u, v, r).
Proof.
  intros Hu Hv. destruct (index_of_In u comps Hu) as [i Hi]. destruct (index_of_In v comps Hv) as [j Hj].
  unfold edge_from, idx, pser. rewrite Hi, Hj. cbn -[Z.ltb Z.to_nat Z.of_nat].
  rewrite (deser_ser G GOK).
  assert ((Z.of_nat i <? 0)%Z = false) as A by (apply Z.ltb_ge; lia).
  assert ((Z.of_nat j <? 0)%Z = false) as B by (apply Z.ltb_ge; lia).
  rewrite A, B. cbn [orb]. rewrite !Nat2Z.id.
  rewrite (index_of_nth _ _ _ Hi), (index_of_nth _ _ _ Hj). reflexivity.
Qed.

Lemma edges_of_In u v r g : In (u, v, r) (edges_of G g) -> exists adj, In (u, adj) g /\ In (v, r) adj.
Proof.
  unfold edges_of. intros H. apply in_flat_map in H. destruct H as [[n adj] [Hn Hin]].
  apply in_map_iff in Hin. destruct Hin as [[v' r'] [E Hvr]]. cbn in E. inversion E; subst.
  exists adj. split; assumption.
Qed.

Lemma cs_roundtrip_lemma s : graph_wf G (cs_g G s) = true -> out_first G (cs_g G s) = true ->
  cs_from_dict G (cs_to_dict G s) = Some s.
Proof.
  destruct s as [g t]. cbn [cs_g]. intros W O.
  unfold cs_from_dict, cs_to_dict. cbn [cs_g cs_t].
  cbn -[node_from_dict node_to_dict edge_from traverse idx edges_of add_edges add_comp_nodes g_nodes].
  rewrite (traverse_map (node_from_dict G) (node_to_dict G)); [| intros; apply node_roundtrip].
  destruct (graph_wf_props g W) as [ND P].
  rewrite (traverse_map (edge_from G (g_nodes G g))).
  2:{ intros [[u v] r] Hin. apply edges_of_In in Hin. destruct Hin as [adj [Hu Hv]].
      apply edge_roundtrip.
      - unfold g_nodes. apply in_map_iff. exists (u, adj). split; [reflexivity | exact Hu].
      - destruct (P _ _ Hu) as [_ Q]. apply Q. apply in_map_iff. exists (v, r). split; [reflexivity | exact Hv]. }
  unfold get_expr. cbn. rewrite (deser_ser G GOK).
  rewrite graph_rebuild; [reflexivity | exact W | exact O].
Qed.

End WithEngine.

(* ------------------------------------------------------------------------------------------ *)
(* statements, steps, columns, datainfo, model                                                *)
(* ------------------------------------------------------------------------------------------ *)
Local Open Scope string_scope.

Lemma as_opt_str o : as_opt as_str (of_opt PStr o) = Some o.
Proof. destruct o; reflexivity. Qed.
Lemma as_opt_int o : as_opt as_int (of_opt PInt o) = Some o.
Proof. destruct o; reflexivity. Qed.
Lemma as_opt_bool o : as_opt as_bool (of_opt PBool o) = Some o.
Proof. destruct o; reflexivity. Qed.
Lemma as_opt_num o : as_opt as_num (of_opt of_num o) = Some o.
Proof. destruct o as [[z|f]|]; reflexivity. Qed.
Lemma str_seq_tuple l : str_seq (PTuple (map PStr l)) = Some l.
Proof. unfold str_seq. cbn [as_items]. apply traverse_as_str. Qed.
Lemma str_seq_list l : str_seq (PList (map PStr l)) = Some l.
Proof. unfold str_seq. cbn [as_items]. apply traverse_as_str. Qed.

Lemma sim_roundtrip s : sim_from_dict (sim_to_dict s) = Some s.
Proof.
  destruct s as [n sd [so rt at_ tool]]. unfold sim_from_dict, sim_to_dict, common_items, common_from, dget_def.
  cbn -[as_opt]. rewrite as_opt_str, !as_opt_num. reflexivity.
Qed.

Section WithEngine2.
Variable G : engine.
Hypothesis GOK : engine_ok G.

Lemma stmt_roundtrip s : stmt_ok G s = true -> stmt_from_dict G (stmt_to_dict G s) = Some s.
Proof.
  destruct s as [a|c]; cbn [stmt_ok stmt_to_dict]; intros W; unfold stmt_from_dict.
  - rewrite (assign_roundtrip G GOK). reflexivity.
  - unfold cs_ok in W. apply andb_true_iff in W. destruct W as [W O].
    rewrite (cs_roundtrip_lemma G GOK c W O). reflexivity.
Qed.

Lemma stmts_roundtrip l : forallb (stmt_ok G) l = true -> stmts_from_dict G (stmts_to_dict G l) = Some l.
Proof.
  intros W. unfold stmts_from_dict, stmts_to_dict. cbn -[stmt_from_dict stmt_to_dict traverse].
  apply traverse_map. intros x Hx. apply stmt_roundtrip. rewrite forallb_forall in W. apply W. exact Hx.
Qed.

Lemma derivs_to_py_seq d : str_seq (derivs_to_py G d) = Some (derivs_texts G d).
Proof.
  destruct d as [l|l]; cbn [derivs_to_py derivs_texts].
  - rewrite <- map_map. apply str_seq_tuple.
  - apply str_seq_tuple.
Qed.

Lemma est_roundtrip e : est_from_dict G (est_to_dict G e) = Some (est_flat G e).
Proof.
  destruct e as [me ia pu ev mx la isa ni au ke re pr de ie [so rt at_ tool]].
  unfold est_from_dict, est_to_dict, common_items, common_from, dget_def, est_flat, est_with.
  cbn -[as_opt str_seq derivs_to_py derivs_texts].
  rewrite !as_opt_str, !as_opt_num, !as_opt_int, !as_opt_bool, !str_seq_tuple, derivs_to_py_seq.
  reflexivity.
Qed.

Lemma derivs_canon_flat d : derivs_canon G d = true -> DStrs G (derivs_texts G d) = d.
Proof. destruct d as [l|l]; cbn; intros H; try discriminate. reflexivity. Qed.

Lemma est_flat_canon e : derivs_canon G (es_derivatives G e) = true -> est_flat G e = e.
Proof.
  destruct e as [me ia pu ev mx la isa ni au ke re pr de ie [so rt at_ tool]]. cbn. intros H.
  unfold est_flat, est_with. cbn. rewrite (derivs_canon_flat _ H). reflexivity.
Qed.

Lemma step_roundtrip s : step_from_dict G (step_to_dict G s) = Some (step_flat G s).
Proof.
  destruct s as [e|x]; unfold step_from_dict; cbn [step_to_dict step_flat].
  - rewrite est_roundtrip. reflexivity.
  - rewrite sim_roundtrip. reflexivity.
Qed.

Lemma step_flat_canon s : step_canon G s = true -> step_flat G s = s.
Proof. destruct s as [e|x]; cbn; intros H; [rewrite (est_flat_canon _ H)|]; reflexivity. Qed.

Lemma steps_roundtrip l : steps_from_dict G (steps_to_dict G l) = Some (map (step_flat G) l).
Proof.
  unfold steps_from_dict, steps_to_dict. cbn -[step_from_dict step_to_dict traverse].
  apply traverse_map'. intros; apply step_roundtrip.
Qed.

Lemma map_id_on {A} (f : A -> A) l : (forall x, In x l -> f x = x) -> map f l = l.
Proof.
  induction l as [|x tl IH]; cbn; intros H; [reflexivity|].
  rewrite (H x (or_introl eq_refl)), IH; [reflexivity|]. intros; apply H; right; assumption.
Qed.

Lemma cats_roundtrip c : cats_of_py (cats_to_py c) = Some c.
Proof. destruct c; reflexivity. Qed.

Lemma column_roundtrip c : column_from_dict G (column_to_dict G c) = Some c.
Proof.
  destruct c as [nm ty u sc co ca dr dt de]. unfold column_from_dict, column_to_dict, column_items.
  cbn -[as_opt cats_of_py cats_to_py]. rewrite (udeser_user G GOK), as_opt_bool, as_opt_str, cats_roundtrip. reflexivity.
Qed.
Lemma column_roundtrip_di c : column_from_dict G (column_to_dict_di G c) = Some c.
Proof.
  destruct c as [nm ty u sc co ca dr dt de]. unfold column_from_dict, column_to_dict_di.
  cbn -[as_opt cats_of_py cats_to_py]. rewrite (udeser_ustr G GOK), as_opt_bool, as_opt_str, cats_roundtrip. reflexivity.
Qed.

Definition di_nopath (x : datainfo G) : datainfo G :=
  mkDi G (di_columns G x) None (di_separator G x) (di_missing G x).

Lemma di_roundtrip x : di_from_dict G (di_to_dict G x) = Some (di_nopath x).
Proof.
  destruct x as [cols pa se mt]. unfold di_from_dict, di_to_dict, dget_def, di_nopath.
  cbn -[column_from_dict column_to_dict_di traverse].
  rewrite (traverse_map (column_from_dict G) (column_to_dict_di G)); [reflexivity|].
  intros; apply column_roundtrip_di.
Qed.

Lemma depvars_roundtrip l :
  (forall kv, In kv l -> sym_of G (sym_str G (fst kv)) = fst kv) ->
  traverse (depvar_from G) (map (fun kv => (KStr (sym_str G (fst kv)), PInt (snd kv))) l) = Some l.
Proof.
  intros H. apply traverse_map. intros [e z] Hin. specialize (H _ Hin). cbn in *. rewrite H. reflexivity.
Qed.
Lemma obstrans_roundtrip l :
  traverse (obstrans_from G) (map (fun kv => (KStr (ser G (fst kv)), pser G (snd kv))) l) = Some l.
Proof.
  apply traverse_map. intros [a b] _. unfold obstrans_from, pser. cbn. rewrite !(deser_ser G GOK). reflexivity.
Qed.

Lemma model_roundtrip m :
  forallb (stmt_ok G) (m_statements G m) = true -> depvars_ok G m ->
  (m_iie G m <> Some PNone) ->
  model_from_dict G (model_to_dict G m) = Some (model_flat G m).
Proof.
  destruct m as [nm de ps rv st es di vt dv ot ie]. cbn [m_statements m_iie]. intros W D I.
  unfold model_from_dict, model_to_dict, model_flat.
  cbn -[params_from_dict params_to_dict rvs_from_dict rvs_to_dict stmts_from_dict stmts_to_dict
        steps_from_dict steps_to_dict di_from_dict di_to_dict traverse depvar_from obstrans_from].
  rewrite depvars_roundtrip; [| exact D].
  rewrite obstrans_roundtrip, params_roundtrip, (rvs_roundtrip G GOK), (stmts_roundtrip _ W), steps_roundtrip,
    di_roundtrip.
  unfold di_nopath. cbn.
  destruct ie as [x|]; [|reflexivity]. cbn. destruct x; try reflexivity. exfalso. apply I. reflexivity.
Qed.

End WithEngine2.

(* ------------------------------------------------------------------------------------------ *)
(* the way back through the JSON text: from_dict (json.loads (json.dumps (to_dict x)))         *)
(* ------------------------------------------------------------------------------------------ *)
Lemma normalise_of_num n : normalise (of_num n) = of_num n.
Proof. destruct n; reflexivity. Qed.
Lemma normalise_of_opt {A} (f : A -> pyv) o : (forall a, normalise (f a) = f a) -> normalise (of_opt f o) = of_opt f o.
Proof. intros H. destruct o; cbn; [apply H | reflexivity]. Qed.
Lemma map_normalise_PStr l : map normalise (map PStr l) = map PStr l.
Proof. rewrite map_map. reflexivity. Qed.

Lemma param_json p : param_from_dict (normalise (param_to_dict p)) = Some p.
Proof.
  destruct p as [n i lo up fx]. unfold param_from_dict, param_to_dict. cbn -[of_num].
  rewrite !normalise_of_num, !as_num_of_num. reflexivity.
Qed.
Lemma params_json l : params_from_dict (normalise (params_to_dict l)) = Some l.
Proof.
  unfold params_from_dict, params_to_dict. cbn -[param_from_dict param_to_dict traverse normalise].
  cbn [normalise map norm_key dget String.eqb Ascii.eqb Bool.eqb as_items as_dict]. cbn -[param_from_dict param_to_dict traverse normalise].
  rewrite map_map. apply traverse_map. intros; apply param_json.
Qed.

Lemma vlevel_json l : vlevel_from_dict (normalise (vlevel_to_dict l)) = Some l.
Proof. destruct l as [n r [g|]]; reflexivity. Qed.
Lemma hier_json h : hier_from_dict (normalise (hier_to_dict h)) = Some h.
Proof.
  unfold hier_from_dict, hier_to_dict. cbn -[vlevel_from_dict vlevel_to_dict traverse normalise].
  cbn [normalise map norm_key]. cbn -[vlevel_from_dict vlevel_to_dict traverse normalise].
  rewrite map_map. apply traverse_map. intros; apply vlevel_json.
Qed.

Section WithEngine3.
Variable G : engine.
Hypothesis GOK : engine_ok G.

Lemma normal_json x : normal_from_dict G (normalise (normal_to_dict G x)) = Some x.
Proof. destruct x as [n l m v]. exact (normal_roundtrip G GOK (mkNormal G n l m v)). Qed.

Lemma joint_json x : joint_from_dict G (normalise (joint_to_dict G x)) = Some x.
Proof.
  destruct x as [ns l m v]. unfold joint_from_dict, joint_to_dict, get_mat.
  cbn -[normalise traverse]. cbn [normalise map norm_key]. rewrite map_normalise_PStr.
  cbn -[traverse]. rewrite traverse_as_str. cbn. rewrite !(mdeser_mser G GOK). reflexivity.
Qed.

Lemma dist_json_lemma x : dist_from_dict G (normalise (dist_to_dict G x)) = Some x.
Proof.
  destruct x as [n|j]; unfold dist_from_dict; cbn [dist_to_dict].
  - rewrite normal_json. reflexivity.
  - rewrite joint_json. destruct j; reflexivity.
Qed.

Lemma rvs_json_lemma r : rvs_from_dict G (normalise (rvs_to_dict G r)) = Some r.
Proof.
  destruct r as [ds e p]. unfold rvs_from_dict, rvs_to_dict.
  cbn -[hier_from_dict hier_to_dict dist_from_dict dist_to_dict normalise traverse].
  cbn [normalise map norm_key].
  cbn -[hier_from_dict hier_to_dict dist_from_dict dist_to_dict normalise traverse].
  rewrite !hier_json. rewrite map_map.
  rewrite (traverse_map (dist_from_dict G) (fun x => normalise (dist_to_dict G x)));
    [reflexivity|]. intros; apply dist_json_lemma.
Qed.

Lemma assign_json a : assign_from_dict G (normalise (assign_to_dict G a)) = Some a.
Proof. destruct a as [s e]. exact (assign_roundtrip G GOK (mkAssign G s e)). Qed.

Lemma dose_json x : dose_from_dict G (normalise (dose_to_dict G x)) = Some x.
Proof.
  destruct x as [a i|a i r du]; [exact (dose_roundtrip G GOK (Bolus G a i))|].
  destruct r as [r|], du as [du|].
  - exact (dose_roundtrip G GOK (Infusion G a i (Some r) (Some du))).
  - exact (dose_roundtrip G GOK (Infusion G a i (Some r) None)).
  - exact (dose_roundtrip G GOK (Infusion G a i None (Some du))).
  - exact (dose_roundtrip G GOK (Infusion G a i None None)).
Qed.

Lemma comp_json c : comp_from_dict G (normalise (comp_to_dict G c)) = Some c.
Proof.
  destruct c as [n a ds i l b]. unfold comp_from_dict, comp_to_dict, get_expr, pser.
  destruct ds as [|d0 ds'].
  - cbn. rewrite !(deser_ser G GOK). reflexivity.
  - cbn -[dose_from_dict dose_to_dict traverse normalise].
    cbn [normalise map norm_key].
    cbn -[dose_from_dict dose_to_dict traverse normalise].
    change (normalise (dose_to_dict G d0) :: map normalise (map (dose_to_dict G) ds'))
      with (map normalise (map (dose_to_dict G) (d0 :: ds'))).
    rewrite map_map.
    rewrite (traverse_map (dose_from_dict G) (fun x => normalise (dose_to_dict G x))); [| intros; apply dose_json].
    rewrite !(deser_ser G GOK). reflexivity.
Qed.

Lemma node_json n : node_from_dict G (normalise (node_to_dict G n)) = Some n.
Proof.
  destruct n as [|c]; unfold node_from_dict; [reflexivity|].
  cbn [node_to_dict]. rewrite comp_json. destruct c as [nm a [|d0 ds] i l b]; reflexivity.
Qed.

Lemma edge_json comps u v r : In u comps -> In v comps ->
  edge_from G comps (normalise (PTuple [PInt (idx G u comps); PInt (idx G v comps); pser G r])) = Some (u, v, r).
Proof. intros Hu Hv. rewrite <- (edge_roundtrip G GOK comps u v r Hu Hv). reflexivity. Qed.

Lemma cs_json_lemma s : graph_wf G (cs_g G s) = true -> out_first G (cs_g G s) = true ->
  cs_from_dict G (normalise (cs_to_dict G s)) = Some s.
Proof.
  destruct s as [g t]. cbn [cs_g]. intros W O.
  unfold cs_from_dict, cs_to_dict. cbn [cs_g cs_t].
  cbn -[node_from_dict node_to_dict edge_from traverse idx edges_of add_edges add_comp_nodes g_nodes normalise].
  cbn [normalise map norm_key].
  cbn -[node_from_dict node_to_dict edge_from traverse idx edges_of add_edges add_comp_nodes g_nodes normalise].
  rewrite !map_map.
  rewrite (traverse_map (node_from_dict G) (fun x => normalise (node_to_dict G x))); [| intros; apply node_json].
  destruct (graph_wf_props G GOK g W) as [ND P].
  rewrite (traverse_map (edge_from G (g_nodes G g))).
  2:{ intros [[u v] r] Hin. apply edges_of_In in Hin. destruct Hin as [adj [Hu Hv]].
      apply edge_json.
      - unfold g_nodes. apply in_map_iff. exists (u, adj). split; [reflexivity | exact Hu].
      - destruct (P _ _ Hu) as [_ Q]. apply Q. apply in_map_iff. exists (v, r). split; [reflexivity | exact Hv]. }
  unfold get_expr, pser. cbn. rewrite (deser_ser G GOK).
  rewrite (graph_rebuild G GOK); [reflexivity | exact W | exact O].
Qed.

Lemma stmt_json s : stmt_ok G s = true -> stmt_from_dict G (normalise (stmt_to_dict G s)) = Some s.
Proof.
  destruct s as [a|c]; cbn [stmt_ok stmt_to_dict]; intros W; unfold stmt_from_dict.
  - rewrite assign_json. reflexivity.
  - unfold cs_ok in W. apply andb_true_iff in W. destruct W as [W O].
    rewrite (cs_json_lemma c W O). reflexivity.
Qed.

Lemma stmts_json l : forallb (stmt_ok G) l = true -> stmts_from_dict G (normalise (stmts_to_dict G l)) = Some l.
Proof.
  intros W. unfold stmts_from_dict, stmts_to_dict. cbn -[stmt_from_dict stmt_to_dict traverse normalise].
  cbn [normalise map norm_key]. cbn -[stmt_from_dict stmt_to_dict traverse normalise].
  rewrite map_map. apply traverse_map. intros x Hx. apply stmt_json. rewrite forallb_forall in W. apply W. exact Hx.
Qed.

Lemma derivs_to_py_json d : str_seq (normalise (derivs_to_py G d)) = Some (derivs_texts G d).
Proof.
  destruct d as [l|l]; cbn [derivs_to_py derivs_texts normalise].
  - rewrite <- (map_map (tup_str G) PStr), map_normalise_PStr. apply str_seq_list.
  - rewrite map_normalise_PStr. apply str_seq_list.
Qed.

Lemma sim_json_lemma s : sim_from_dict (normalise (sim_to_dict s)) = Some (sim_json s).
Proof.
  destruct s as [n sd [so rt at_ tool]]. unfold sim_from_dict, sim_to_dict, common_items, common_from, dget_def, sim_json.
  cbn -[as_opt normalise of_opt]. cbn [normalise map norm_key app]. cbn -[as_opt normalise of_opt].
  rewrite !(normalise_of_opt); [| apply normalise_of_num | apply normalise_of_num | reflexivity].
  rewrite as_opt_str, !as_opt_num. reflexivity.
Qed.

Lemma est_json_lemma e : est_from_dict G (normalise (est_to_dict G e)) = Some (est_json G e).
Proof.
  destruct e as [me ia pu ev mx la isa ni au ke re pr de ie [so rt at_ tool]].
  unfold est_from_dict, est_to_dict, common_items, common_from, dget_def, est_json, est_with.
  cbn -[as_opt str_seq derivs_to_py derivs_texts normalise of_opt].
  cbn [normalise map norm_key app].
  cbn -[as_opt str_seq derivs_to_py derivs_texts normalise of_opt].
  change (normalise (PTuple (map PStr pr))) with (PList (map normalise (map PStr pr))).
  change (normalise (PTuple (map PStr re))) with (PList (map normalise (map PStr re))).
  rewrite !map_normalise_PStr.
  rewrite !(normalise_of_opt); try apply normalise_of_num; try reflexivity.
  rewrite !as_opt_str, !as_opt_num, !as_opt_int, !as_opt_bool, !str_seq_list, derivs_to_py_json.
  reflexivity.
Qed.

Lemma step_json_lemma s : step_from_dict G (normalise (step_to_dict G s)) = Some (step_json G s).
Proof.
  destruct s as [e|x]; unfold step_from_dict; cbn [step_to_dict step_json].
  - rewrite est_json_lemma. reflexivity.
  - rewrite sim_json_lemma. reflexivity.
Qed.

Lemma steps_json l : steps_from_dict G (normalise (steps_to_dict G l)) = Some (map (step_json G) l).
Proof.
  unfold steps_from_dict, steps_to_dict. cbn -[step_from_dict step_to_dict traverse normalise].
  cbn [normalise map norm_key]. cbn -[step_from_dict step_to_dict traverse normalise].
  rewrite map_map. apply (traverse_map' (step_from_dict G) (fun x => normalise (step_to_dict G x)) (step_json G)).
  intros; apply step_json_lemma.
Qed.

Lemma cats_json_lemma c : cats_of_py (normalise (cats_to_py c)) = Some (cats_json c).
Proof. destruct c; reflexivity. Qed.

Lemma column_json_di c : column_from_dict G (normalise (column_to_dict_di G c)) = Some (column_json G c).
Proof.
  destruct c as [nm ty u sc co ca dr dt de]. unfold column_from_dict, column_to_dict_di, column_json.
  cbn -[as_opt normalise of_opt cats_of_py cats_to_py cats_json]. cbn [normalise map norm_key].
  cbn -[as_opt normalise of_opt cats_of_py cats_to_py cats_json].
  rewrite !(normalise_of_opt); try reflexivity.
  rewrite (udeser_ustr G GOK), as_opt_bool, as_opt_str, cats_json_lemma. reflexivity.
Qed.
Lemma column_json_lemma c : column_from_dict G (normalise (column_to_dict G c)) = Some (column_json G c).
Proof.
  destruct c as [nm ty u sc co ca dr dt de]. unfold column_from_dict, column_to_dict, column_items, column_json.
  cbn -[as_opt normalise of_opt cats_of_py cats_to_py cats_json]. cbn [normalise map norm_key].
  cbn -[as_opt normalise of_opt cats_of_py cats_to_py cats_json].
  rewrite !(normalise_of_opt); try reflexivity.
  rewrite (udeser_user G GOK), as_opt_bool, as_opt_str, cats_json_lemma. reflexivity.
Qed.

Lemma di_json_lemma x : di_from_dict G (normalise (di_to_dict G x)) = Some (di_json G x).
Proof.
  destruct x as [cols pa se mt]. unfold di_from_dict, di_to_dict, dget_def, di_json.
  cbn -[column_from_dict column_to_dict_di traverse normalise].
  cbn [normalise map norm_key]. cbn -[column_from_dict column_to_dict_di traverse normalise].
  rewrite map_map.
  rewrite (traverse_map' (column_from_dict G) (fun x => normalise (column_to_dict_di G x)) (column_json G));
    [reflexivity|]. intros; apply column_json_di.
Qed.

Lemma model_json_lemma m :
  forallb (stmt_ok G) (m_statements G m) = true -> depvars_ok G m ->
  (forall x, m_iie G m = Some x -> normalise x <> PNone) ->
  model_from_dict G (normalise (model_to_dict G m)) = Some (model_json G m).
Proof.
  destruct m as [nm de ps rv st es di vt dv ot ie]. cbn [m_statements m_iie]. intros W D I.
  unfold model_from_dict, model_to_dict, model_json.
  cbn -[params_from_dict params_to_dict rvs_from_dict rvs_to_dict stmts_from_dict stmts_to_dict
        steps_from_dict steps_to_dict di_from_dict di_to_dict traverse depvar_from obstrans_from normalise of_opt].
  cbn [normalise map norm_key].
  cbn -[params_from_dict params_to_dict rvs_from_dict rvs_to_dict stmts_from_dict stmts_to_dict
        steps_from_dict steps_to_dict di_from_dict di_to_dict traverse depvar_from obstrans_from normalise of_opt].
  rewrite !map_map. cbn [norm_key normalise fst snd].
  rewrite (depvars_roundtrip G dv D).
  change (fun x : expr G * expr G => (KStr (ser G (fst x)), normalise (pser G (snd x))))
    with (fun kv : expr G * expr G => (KStr (ser G (fst kv)), pser G (snd kv))).
  rewrite (obstrans_roundtrip G GOK ot), params_json, rvs_json_lemma, (stmts_json _ W), steps_json, di_json_lemma.
  cbn -[normalise]. destruct ie as [x|]; [|reflexivity]. cbn -[normalise]. specialize (I x eq_refl).
  destruct (normalise x) eqn:E; try reflexivity. exfalso. apply I. reflexivity.
Qed.

End WithEngine3.

(* ------------------------------------------------------------------------------------------ *)
(* JSON-stable objects come back unchanged *)
(* ------------------------------------------------------------------------------------------ *)
Lemma norm_items_fix d : is_json (PDict d) = true -> norm_items d = d.
Proof. intros J. pose proof (normalise_fix_lemma (PDict d) J) as E. cbn in E. inversion E as [E']. rewrite E'. exact E'. Qed.

Lemma map_normalise_fix l : forallb is_json l = true -> map normalise l = l.
Proof.
  intros J. rewrite <- (map_id l) at 2. apply map_ext_in. intros x Hx. apply normalise_fix_lemma.
  rewrite forallb_forall in J. apply J. exact Hx.
Qed.

Lemma cats_json_fix c : cats_is_json c = true -> cats_json c = c.
Proof.
  destruct c as [|l|d]; cbn [cats_is_json cats_json]; intros J; [reflexivity| |].
  - rewrite (map_normalise_fix l J). reflexivity.
  - rewrite (norm_items_fix d J). reflexivity.
Qed.

Section JsonStable.
Variable G : engine.

Lemma est_json_fix e : step_json_ok G (StEst G e) = true -> est_json G e = e.
Proof.
  destruct e as [me ia pu ev mx la isa ni au ke re pr de ie [so rt at_ tool]]. cbn. intros H.
  apply andb_true_iff in H. destruct H as [H H0].
  destruct de as [l|l]; try discriminate.
  unfold est_json, est_with. cbn. rewrite norm_items_fix; [reflexivity | exact H0].
Qed.

Lemma step_json_fix s : step_json_ok G s = true -> step_json G s = s.
Proof.
  destruct s as [e|[n sd [so rt at_ tool]]]; intros H.
  - cbn [step_json]. rewrite (est_json_fix e H). reflexivity.
  - cbn in *. unfold sim_json. cbn. rewrite norm_items_fix; [reflexivity | exact H].
Qed.

Lemma column_json_fix c : column_json_ok G c = true -> column_json G c = c.
Proof.
  destruct c as [nm ty u sc co ca dr dt de]. unfold column_json_ok, column_json. cbn. intros H.
  rewrite (cats_json_fix _ H). reflexivity.
Qed.
End JsonStable.

(* ------------------------------------------------------------------------------------------ *)
(* strings *)
(* ------------------------------------------------------------------------------------------ *)
Lemma append_inv_head (a x y : string) : (a ++ x = a ++ y)%string -> x = y.
Proof. induction a as [|c a IH]; cbn; intros H; [exact H|]. injection H as H. apply IH. exact H. Qed.

Lemma append_length (a b : string) : String.length (a ++ b) = String.length a + String.length b.
Proof. induction a as [|c a IH]; cbn; [reflexivity|]. rewrite IH. reflexivity. Qed.

Lemma append_inv_tail (x : string) : forall a b : string, (a ++ x = b ++ x)%string -> a = b.
Proof.
  induction a as [|c a IH]; intros b H.
  - destruct b as [|c' b]; [reflexivity|]. exfalso.
    assert (String.length (""%string ++ x) = String.length (String c' b ++ x)) as L by (rewrite H; reflexivity).
    rewrite !append_length in L. cbn in L. lia.
  - destruct b as [|c' b].
    + exfalso. assert (String.length (String c a ++ x) = String.length (""%string ++ x)) as L by (rewrite H; reflexivity).
      rewrite !append_length in L. cbn in L. lia.
    + cbn in H. injection H as Hc Ht. subst. f_equal. apply IH. exact Ht.
Qed.

(* ------------------------------------------------------------------------------------------ *)
(* == is reflexive on the values the property ranges over                                     *)
(* ------------------------------------------------------------------------------------------ *)
Lemma fl_pyeq_refl f : fl_nan f = false -> fl_pyeq f f = true.
Proof. destruct f; cbn; intros H; try reflexivity; [|discriminate]. apply Qeq_bool_iff. reflexivity. Qed.
Lemma num_pyeq_refl n : num_nan n = false -> num_pyeq n n = true.
Proof.
  destruct n as [z|[q| | |]]; cbn; intros H; try reflexivity; try discriminate;
    [apply Z.eqb_refl | apply Qeq_bool_iff; reflexivity].
Qed.

Lemma param_eqb_refl p : param_no_nan p = true -> param_eqb p p = true.
Proof.
  destruct p as [n i lo up fx]. unfold param_no_nan, param_eqb. cbn. intros H.
  apply negb_true_iff in H. apply orb_false_iff in H. destruct H as [H H3]. apply orb_false_iff in H. destruct H as [H1 H2].
  rewrite !num_pyeq_refl, String.eqb_refl, Bool.eqb_reflx by assumption. reflexivity.
Qed.

Lemma vlevel_eqb_refl l : vlevel_eqb l l = true.
Proof.
  destruct l as [n r [g|]]; unfold vlevel_eqb; cbn; rewrite ?String.eqb_refl, Bool.eqb_reflx; reflexivity.
Qed.

Lemma zip_all_refl {A} (f : A -> A -> bool) l : (forall x, In x l -> f x x = true) -> zip_all f l l = true.
Proof.
  induction l as [|x tl IH]; cbn; intros H; [reflexivity|].
  rewrite (H x (or_introl eq_refl)), IH; [reflexivity|]. intros; apply H; right; assumption.
Qed.

Section EqRefl.
Variable G : engine.
Hypothesis GOK : engine_ok G.

Lemma mat_eqb_refl m : mat_eqb G m m = true.
Proof. apply (mat_eqb_ok G GOK). reflexivity. Qed.

Lemma dist_eqb_refl x : dist_eqb G x x = true.
Proof.
  destruct x as [[n l m v]|[ns l m v]]; cbn.
  - unfold normal_eqb. cbn. rewrite !String.eqb_refl, !(expr_eqb_refl G GOK). reflexivity.
  - unfold joint_eqb. cbn. rewrite String.eqb_refl, !mat_eqb_refl, list_eqb_refl.
    + reflexivity.
    + intros; apply String.eqb_refl.
Qed.

Lemma rvs_eqb_refl r : rvs_eqb G r r = true.
Proof.
  destruct r as [ds e p]. unfold rvs_eqb. cbn. rewrite Nat.eqb_refl, zip_all_refl, !list_eqb_refl; try reflexivity;
    intros; try apply vlevel_eqb_refl. apply dist_eqb_refl.
Qed.

Lemma assign_eqb_refl a : assign_eqb G a a = true.
Proof. destruct a. unfold assign_eqb. cbn. rewrite !(expr_eqb_refl G GOK). reflexivity. Qed.

Lemma g_lookup_NoDup g : NoDup (g_nodes G g) -> forall n adj, In (n, adj) g -> g_lookup G n g = Some adj.
Proof.
  induction g as [|[n' a'] tl IH]; cbn; intros ND n adj Hin; [contradiction|].
  inversion ND as [|? ? Hn ND']; subst.
  destruct (node_eqb G n n') eqn:E.
  - apply (node_eqb_eq G GOK) in E. subst. destruct Hin as [Hin|Hin]; [inversion Hin; reflexivity|].
    exfalso. apply Hn. apply in_map_iff. exists (n', adj). split; [reflexivity | exact Hin].
  - destruct Hin as [Hin|Hin]; [inversion Hin; subst; rewrite (node_eqb_refl G GOK) in E; discriminate|].
    apply IH; assumption.
Qed.

Lemma adj_lookup_NoDup adj : NoDup (map fst adj) -> forall v r, In (v, r) adj -> adj_lookup G v adj = Some r.
Proof.
  induction adj as [|[v' r'] tl IH]; cbn; intros ND v r Hin; [contradiction|].
  inversion ND as [|? ? Hn ND']; subst.
  destruct (node_eqb G v v') eqn:E.
  - apply (node_eqb_eq G GOK) in E. subst. destruct Hin as [Hin|Hin]; [inversion Hin; reflexivity|].
    exfalso. apply Hn. apply in_map_iff. exists (v', r). split; [reflexivity | exact Hin].
  - destruct Hin as [Hin|Hin]; [inversion Hin; subst; rewrite (node_eqb_refl G GOK) in E; discriminate|].
    apply IH; assumption.
Qed.

Lemma dod_eqb_refl g : graph_wf G g = true -> dod_eqb G g g = true.
Proof.
  intros W. destruct (graph_wf_props G GOK g W) as [ND P]. unfold dod_eqb. rewrite Nat.eqb_refl. cbn.
  apply forallb_forall. intros [n adj] Hin. cbn. rewrite (g_lookup_NoDup g ND n adj Hin).
  unfold adj_same. rewrite Nat.eqb_refl. cbn. unfold adj_sub. apply forallb_forall. intros [v r] Hv. cbn.
  destruct (P _ _ Hin) as [NDa _]. rewrite (adj_lookup_NoDup adj NDa v r Hv). apply (expr_eqb_refl G GOK).
Qed.

(* == is defined and reflexive on every well-formed system, dosed or not *)
Lemma cs_eq_refl s : graph_wf G (cs_g G s) = true -> cs_eq G s s = true.
Proof.
  intros W. unfold cs_eq. rewrite (expr_eqb_refl G GOK), (dod_eqb_refl _ W). cbn.
  destruct (dosing G (cs_g G s)) as [x|]; [|reflexivity]. cbn.
  rewrite list_eqb_refl; [reflexivity|]. intros; apply (comp_eqb_refl G GOK).
Qed.

Definition stmt_eq_ok (s : stmt G) : bool :=
  match s with SAssign _ _ => true | SOde _ c => graph_wf G (cs_g G c) end.

Lemma stmt_eq_refl s : stmt_eq_ok s = true -> stmt_eq G s s = true.
Proof. destruct s as [a|c]; cbn; intros H; [apply assign_eqb_refl | apply cs_eq_refl; exact H]. Qed.

Lemma stmts_eq_refl l : forallb stmt_eq_ok l = true -> stmts_eq G l l = true.
Proof.
  intros H. unfold stmts_eq. rewrite Nat.eqb_refl. cbn. apply zip_all_refl. intros x Hx. apply stmt_eq_refl.
  rewrite forallb_forall in H. apply H. exact Hx.
Qed.

End EqRefl.

(* ------------------------------------------------------------------------------------------ *)
(* the engine of the counter-models and of the correspondence check satisfies the assumptions  *)
(* ------------------------------------------------------------------------------------------ *)
Lemma strG_ok : engine_ok strG.
Proof.
  constructor; cbn; intros; try reflexivity; apply String.eqb_eq.
Qed.

(* ------------------------------------------------------------------------------------------ *)
(* sameness test used on exported values is reflexive (so a `false` answer separates values)   *)
(* ------------------------------------------------------------------------------------------ *)
Lemma fl_same_refl f : fl_same f f = true.
Proof. destruct f; cbn; try reflexivity. apply Qeq_bool_iff. reflexivity. Qed.
Lemma pkey_same_refl k : pkey_same k k = true.
Proof. destruct k; cbn; [apply String.eqb_refl | apply Z.eqb_refl]. Qed.

Lemma pyv_same_refl v : pyv_same v v = true.
Proof.
  induction v using pyv_ind'; cbn; try reflexivity.
  - destruct b; reflexivity.
  - apply Z.eqb_refl.
  - apply fl_same_refl.
  - apply String.eqb_refl.
  - induction H as [|x tl Hx Htl IH]; [reflexivity|]. rewrite Hx. exact IH.
  - induction H as [|x tl Hx Htl IH]; [reflexivity|]. rewrite Hx. exact IH.
  - induction H as [|[k x] tl Hx Htl IH]; [reflexivity|]. cbn in Hx. rewrite pkey_same_refl, Hx. exact IH.
Qed.

Lemma pyv_same_false a b : pyv_same a b = false -> a <> b.
Proof. intros H E. subst. rewrite pyv_same_refl in H. discriminate. Qed.

Lemma model_flat_canon G m : forallb (step_canon G) (m_steps G m) = true -> model_flat G m = strip G m.
Proof.
  intros H. destruct m as [n d ps rv st es di vt dv ot ie]. unfold model_flat, strip. cbn in *.
  rewrite map_id_on; [reflexivity|]. intros x Hx. apply step_flat_canon. rewrite forallb_forall in H. apply H. exact Hx.
Qed.

Lemma model_json_stable G m :
  forallb (step_json_ok G) (m_steps G m) = true ->
  forallb (column_json_ok G) (di_columns G (m_datainfo G m)) = true ->
  (forall x, m_iie G m = Some x -> is_json x = true) ->
  model_json G m = strip G m.
Proof.
  destruct m as [n d ps rv st es [cols pa se mt] vt dv ot ie]. cbn. intros B C D.
  unfold model_json, strip, di_json. cbn.
  rewrite (map_id_on (step_json G)), (map_id_on (column_json G)).
  - destruct ie as [x|]; [|reflexivity]. cbn. rewrite (normalise_fix_lemma x (D x eq_refl)). reflexivity.
  - intros x Hx. apply column_json_fix. rewrite forallb_forall in C. apply C. exact Hx.
  - intros x Hx. apply step_json_fix. rewrite forallb_forall in B. apply B. exact Hx.
Qed.

(* ------------------------------------------------------------------------------------------ *)
(* order is the only thing == does not see in a compartment graph                              *)
(* ------------------------------------------------------------------------------------------ *)
Local Close Scope string_scope.
Section SameEnum.
Variable G : engine.
Hypothesis GOK : engine_ok G.

Lemma Forall2_eq_In {A} (R : A -> A -> Prop) (g h : list A) :
  (forall p q, In p g -> In q h -> R p q -> p = q) -> Forall2 R g h -> g = h.
Proof.
  intros HR F. induction F as [|p q g h Rpq F IH]; [reflexivity|].
  rewrite (HR p q (or_introl eq_refl) (or_introl eq_refl) Rpq). f_equal. apply IH.
  intros p' q' Hp Hq. apply HR; right; assumption.
Qed.

Lemma list_eqb_Forall2 {A} (f : A -> A -> bool) : forall g h, list_eqb f g h = true -> Forall2 (fun p q => f p q = true) g h.
Proof.
  induction g as [|p g IH]; destruct h as [|q h]; cbn; intros E; try discriminate; constructor.
  - apply andb_true_iff in E. apply E.
  - apply IH. apply andb_true_iff in E. apply E.
Qed.

Lemma Forall2_and {A} (R S : A -> A -> Prop) g h : Forall2 R g h -> Forall2 S g h -> Forall2 (fun p q => R p q /\ S p q) g h.
Proof.
  intros F. induction F; intros F2; inversion F2; subst; constructor; auto.
Qed.

Lemma Forall2_map_fst {A B} (g h : list (A * B)) : map fst g = map fst h -> Forall2 (fun p q => fst p = fst q) g h.
Proof.
  revert h. induction g as [|p g IH]; destruct h as [|q h]; cbn; intros E; try discriminate; constructor.
  - injection E as E _. exact E.
  - apply IH. injection E as _ E. exact E.
Qed.

Lemma adj_eq_of_same_order (a b : list (node G * expr G)) :
  NoDup (map fst a) -> map fst a = map fst b ->
  (forall v r, In (v, r) a -> exists r', adj_lookup G v b = Some r' /\ r = r') -> a = b.
Proof.
  revert b. induction a as [|[v r] ta IH]; destruct b as [|[v' r'] tb]; cbn; intros ND E L; try discriminate; [reflexivity|].
  injection E as Ev Et. subst v'. inversion ND as [|? ? Hn ND']; subst.
  destruct (L v r (or_introl eq_refl)) as [r'' [Hl Er]]. rewrite (node_eqb_refl G GOK) in Hl. injection Hl as Hl. subst.
  f_equal. apply IH; [exact ND' | exact Et |].
  intros w s Hin. destruct (L w s (or_intror Hin)) as [s' [Hl Es]].
  destruct (node_eqb G w v) eqn:Ewv.
  - apply (node_eqb_eq G GOK) in Ewv. subst w. exfalso. apply Hn. apply in_map_iff. exists (v, s). split; [reflexivity | exact Hin].
  - exists s'. split; assumption.
Qed.

Lemma graph_eq_of_same_enum g h :
  graph_wf G g = true -> graph_wf G h = true -> dod_eqb G g h = true -> same_enum G g h = true -> g = h.
Proof.
  intros Wg Wh D S. destruct (graph_wf_props G GOK g Wg) as [NDg Pg]. destruct (graph_wf_props G GOK h Wh) as [NDh Ph].
  unfold same_enum in S. apply andb_true_iff in S. destruct S as [S1 S2].
  apply (list_eqb_eq _ (fun a b => proj1 (node_eqb_eq G GOK a b))) in S1.
  apply list_eqb_Forall2 in S2.
  pose proof (Forall2_and _ _ _ _ (Forall2_map_fst g h S1) S2) as F.
  apply (Forall2_eq_In _ g h) in F; [exact F|].
  intros [n adj] [n' adj'] Hp Hq [En Et]. cbn in En, Et. subst n'.
  apply (list_eqb_eq _ (fun a b => proj1 (node_eqb_eq G GOK a b))) in Et.
  unfold dod_eqb in D. apply andb_true_iff in D. destruct D as [_ D]. rewrite forallb_forall in D.
  specialize (D _ Hp). cbn in D. rewrite (g_lookup_NoDup G GOK h NDh n adj' Hq) in D.
  unfold adj_same in D. apply andb_true_iff in D. destruct D as [_ D]. unfold adj_sub in D. rewrite forallb_forall in D.
  f_equal. apply adj_eq_of_same_order; [apply (Pg _ _ Hp) | exact Et |].
  intros v r Hin. specialize (D _ Hin). cbn in D.
  destruct (adj_lookup G v adj') as [r'|]; [|discriminate]. exists r'. split; [reflexivity|].
  apply (expr_eqb_eq G GOK). exact D.
Qed.

Lemma cs_eq_same_enum a b :
  graph_wf G (cs_g G a) = true -> graph_wf G (cs_g G b) = true ->
  cs_eq G a b = true -> same_enum G (cs_g G a) (cs_g G b) = true -> a = b.
Proof.
  destruct a as [g t], b as [h t']. cbn [cs_g]. intros Wg Wh E S. unfold cs_eq in E. cbn [cs_g cs_t] in E.
  apply andb_true_iff in E. destruct E as [E _]. apply andb_true_iff in E. destruct E as [Et D].
  apply (expr_eqb_eq G GOK) in Et. subst t'.
  rewrite (graph_eq_of_same_enum g h Wg Wh D S). reflexivity.
Qed.

Lemma same_enum_refl g : same_enum G g g = true.
Proof.
  unfold same_enum. rewrite !list_eqb_refl; try reflexivity.
  - intros; apply list_eqb_refl. intros; apply (node_eqb_refl G GOK).
  - intros; apply (node_eqb_refl G GOK).
Qed.

(* for systems that == calls equal: same dictionary <-> same enumeration order *)
Lemma cs_dict_iff_order a b :
  cs_ok G a = true -> cs_ok G b = true -> cs_eq G a b = true ->
  (cs_to_dict G a = cs_to_dict G b <-> same_enum G (cs_g G a) (cs_g G b) = true).
Proof.
  intros A B E. unfold cs_ok in A, B. apply andb_true_iff in A, B. destruct A as [A1 A2], B as [B1 B2]. split.
  - intros D. pose proof (cs_roundtrip_lemma G GOK a A1 A2) as Ra. pose proof (cs_roundtrip_lemma G GOK b B1 B2) as Rb.
    rewrite D in Ra. rewrite Ra in Rb. injection Rb as Rb. subst. apply same_enum_refl.
  - intros S. rewrite (cs_eq_same_enum a b A1 B1 E S). reflexivity.
Qed.
End SameEnum.

Section StmtsOrder.
Variable G : engine.
Hypothesis GOK : engine_ok G.

Lemma assign_eqb_eq a b : assign_eqb G a b = true -> a = b.
Proof.
  destruct a as [s e], b as [s' e']. unfold assign_eqb. cbn. intros E. apply andb_true_iff in E. destruct E as [E1 E2].
  apply (expr_eqb_eq G GOK) in E1, E2. subst. reflexivity.
Qed.

Lemma stmt_eq_same_enum a b :
  stmt_ok G a = true -> stmt_ok G b = true -> stmt_eq G a b = true -> stmt_same_enum G a b = true -> a = b.
Proof.
  destruct a as [x|x], b as [y|y]; cbn; intros A B E S; try discriminate.
  - rewrite (assign_eqb_eq x y E). reflexivity.
  - unfold cs_ok in A, B. apply andb_true_iff in A, B. destruct A as [A _], B as [B _].
    rewrite (cs_eq_same_enum G GOK x y A B E S). reflexivity.
Qed.

Lemma stmts_eq_same_enum : forall l l',
  forallb (stmt_ok G) l = true -> forallb (stmt_ok G) l' = true ->
  stmts_eq G l l' = true -> zip_all (stmt_same_enum G) l l' = true -> l = l'.
Proof.
  unfold stmts_eq. induction l as [|x tl IH]; destruct l' as [|y tl']; cbn; intros A B E S; try discriminate; [reflexivity|].
  apply andb_true_iff in A, B, S, E. destruct A as [A1 A2], B as [B1 B2], S as [S1 S2], E as [L E].
  apply andb_true_iff in E. destruct E as [Exy E].
  rewrite (stmt_eq_same_enum x y A1 B1 Exy S1). f_equal. apply IH; try assumption.
  apply andb_true_iff. split; assumption.
Qed.
End StmtsOrder.

(* ------------------------------------------------------------------------------------------ *)
(* the graph guards are invariants of the builder's add_compartment / add_flow                *)
(* ------------------------------------------------------------------------------------------ *)
Section Builder.
Variable G : engine.
Hypothesis GOK : engine_ok G.

Lemma NoDup_app_single {A} (l : list A) (x : A) : NoDup l -> ~ In x l -> NoDup (l ++ [x]).
Proof.
  induction l as [|y tl IH]; cbn; intros ND N; [constructor; [intros [] | constructor]|].
  inversion ND as [|? ? Hy ND']; subst. constructor.
  - intro Hin. apply in_app_or in Hin. destruct Hin as [Hin|[Hin|[]]]; [contradiction | subst; apply N; left; reflexivity].
  - apply IH; [exact ND' | intro; apply N; right; assumption].
Qed.

Definition wfP (g : graph G) : Prop :=
  NoDup (g_nodes G g) /\
  forall n adj, In (n, adj) g -> NoDup (map fst adj) /\ forall v, In v (map fst adj) -> In v (g_nodes G g).

Lemma wfP_graph_wf g : wfP g -> graph_wf G g = true.
Proof.
  intros [ND P]. unfold graph_wf. apply andb_true_iff. split; [apply (NoDup_nodup_nodes G GOK); exact ND|].
  apply forallb_forall. intros [n adj] Hin. cbn. destruct (P _ _ Hin) as [A B]. apply andb_true_iff. split.
  - apply (NoDup_nodup_nodes G GOK). exact A.
  - apply forallb_forall. intros [v r] Hv. cbn. apply (has_node_In G GOK). apply B. apply in_map_iff.
    exists (v, r). split; [reflexivity | exact Hv].
Qed.

Lemma wfP_add_node n g : wfP g -> wfP (add_node G n g).
Proof.
  intros [ND P]. unfold add_node. destruct (has_node G n g) eqn:E; [split; assumption|].
  assert (~ In n (g_nodes G g)) as Nn.
  { intro Hin. apply (has_node_In G GOK) in Hin. congruence. }
  split.
  - rewrite g_nodes_app. cbn. apply NoDup_app_single; assumption.
  - intros m adj Hin. apply in_app_or in Hin. destruct Hin as [Hin|[Hin|[]]].
    + destruct (P _ _ Hin) as [A B]. split; [exact A|]. intros v Hv. rewrite g_nodes_app. apply in_or_app. left. apply B. exact Hv.
    + inversion Hin; subst. split; [constructor | intros v []].
Qed.

Lemma g_nodes_upd_adj u v r g : g_nodes G (upd_adj G u v r g) = g_nodes G g.
Proof.
  unfold g_nodes. induction g as [|[n a] tl IH]; cbn; [reflexivity|]. destruct (node_eqb G u n); cbn; [reflexivity|]. rewrite IH. reflexivity.
Qed.

Lemma set_adj_targets v r adj : forall w, In w (map fst (set_adj G v r adj)) -> w = v \/ In w (map fst adj).
Proof.
  induction adj as [|[v' r'] tl IH]; cbn; intros w Hw.
  - destruct Hw as [Hw|[]]. left. symmetry. exact Hw.
  - destruct (node_eqb G v v') eqn:E; cbn in Hw.
    + right. exact Hw.
    + destruct Hw as [Hw|Hw]; [right; left; exact Hw|]. destruct (IH _ Hw) as [X|X]; [left; exact X | right; right; exact X].
Qed.

Lemma set_adj_NoDup v r adj : NoDup (map fst adj) -> NoDup (map fst (set_adj G v r adj)).
Proof.
  induction adj as [|[v' r'] tl IH]; cbn; intros ND.
  - constructor; [intros [] | constructor].
  - inversion ND as [|? ? Hn ND']; subst. destruct (node_eqb G v v') eqn:E; cbn.
    + constructor; assumption.
    + constructor; [| apply IH; exact ND']. intro Hin. destruct (set_adj_targets _ _ _ _ Hin) as [X|X]; [|contradiction].
      subst. rewrite (node_eqb_refl G GOK) in E. discriminate.
Qed.

Lemma In_upd_adj u v r g n adj : In (n, adj) (upd_adj G u v r g) ->
  In (n, adj) g \/ exists a0, In (n, a0) g /\ adj = set_adj G v r a0.
Proof.
  induction g as [|[m a] tl IH]; cbn; intros Hin; [contradiction|].
  destruct (node_eqb G u m) eqn:E; cbn in Hin.
  - destruct Hin as [Hin|Hin]; [inversion Hin; subst; right; exists a; split; [left; reflexivity | reflexivity] | left; right; exact Hin].
  - destruct Hin as [Hin|Hin]; [left; left; exact Hin|]. destruct (IH Hin) as [X|[a0 [X Y]]]; [left; right; exact X|].
    right. exists a0. split; [right; exact X | exact Y].
Qed.

Lemma wfP_add_edge u v r g : wfP g -> wfP (add_edge G u v r g).
Proof.
  intros W. unfold add_edge. pose proof (wfP_add_node v _ (wfP_add_node u _ W)) as [ND P].
  set (g' := add_node G v (add_node G u g)) in *.
  assert (In v (g_nodes G g')) as Hv.
  { unfold g', add_node. destruct (has_node G v (if has_node G u g then g else (g ++ [(u, [])])%list)) eqn:E.
    - apply (has_node_In G GOK). exact E.
    - rewrite g_nodes_app. apply in_or_app. right. left. reflexivity. }
  split; [rewrite g_nodes_upd_adj; exact ND|].
  intros n adj Hin. rewrite g_nodes_upd_adj. destruct (In_upd_adj _ _ _ _ _ _ Hin) as [X|[a0 [X Y]]].
  - apply (P _ _ X).
  - subst adj. destruct (P _ _ X) as [A B]. split; [apply set_adj_NoDup; exact A|].
    intros w Hw. destruct (set_adj_targets _ _ _ _ Hw) as [Z|Z]; [subst; exact Hv | apply B; exact Z].
Qed.

Lemma out_first_add_node n g : out_first G g = true -> out_first G (add_node G n g) = true.
Proof. unfold add_node. destruct (has_node G n g); [auto|]. destruct g as [|[[|c] a] tl]; cbn; intros H; try discriminate; reflexivity. Qed.
Lemma out_first_upd_adj u v r g : out_first G g = true -> out_first G (upd_adj G u v r g) = true.
Proof. destruct g as [|[[|c] a] tl]; cbn; intros H; try discriminate. destruct (node_eqb G u (NOut G)); reflexivity. Qed.

Lemma g_nodes_remove_edge u v g : g_nodes G (remove_edge G u v g) = g_nodes G g.
Proof.
  unfold g_nodes, remove_edge. rewrite map_map. apply map_ext. intros [n a]. cbn. destruct (node_eqb G u n); reflexivity.
Qed.

Lemma NoDup_map_filter {X Y} (f : X -> Y) (p : X -> bool) l : NoDup (map f l) -> NoDup (map f (filter p l)).
Proof.
  induction l as [|x tl IH]; cbn; intros ND; [constructor|]. inversion ND as [|? ? N ND']; subst.
  destruct (p x); cbn; [|apply IH; exact ND']. constructor; [|apply IH; exact ND'].
  intro Hin. apply N. apply in_map_iff in Hin. destruct Hin as [y [E Hy]]. apply filter_In in Hy.
  apply in_map_iff. exists y. split; [exact E | apply Hy].
Qed.

Lemma wfP_remove_edge u v g : wfP g -> wfP (remove_edge G u v g).
Proof.
  intros [ND P]. split; [rewrite g_nodes_remove_edge; exact ND|].
  intros n adj Hin. rewrite g_nodes_remove_edge. unfold remove_edge in Hin. apply in_map_iff in Hin.
  destruct Hin as [[m a] [E Hm]]. cbn in E. destruct (P _ _ Hm) as [A B].
  destruct (node_eqb G u m); inversion E; subst; [|split; assumption]. split.
  - apply NoDup_map_filter. exact A.
  - intros w Hw. apply B. apply in_map_iff in Hw. destruct Hw as [y [Ey Hy]]. apply filter_In in Hy.
    apply in_map_iff. exists y. split; [exact Ey | apply Hy].
Qed.

Lemma out_first_remove_edge u v g : out_first G g = true -> out_first G (remove_edge G u v g) = true.
Proof. destruct g as [|[[|c] a] tl]; cbn; intros H; try discriminate. destruct (node_eqb G u (NOut G)); reflexivity. Qed.

Lemma builder_invariant ops : wfP (run_bops G ops) /\ out_first G (run_bops G ops) = true.
Proof.
  unfold run_bops.
  assert (wfP (fresh_builder G) /\ out_first G (fresh_builder G) = true) as Base.
  { split; [|reflexivity]. split.
    - cbn. constructor; [intros [] | constructor].
    - intros n adj [Hin|[]]. inversion Hin; subst. split; [constructor | intros v []]. }
  revert Base. generalize (fresh_builder G). induction ops as [|o ops IH]; intros g [W O]; cbn [fold_left]; [split; assumption|].
  apply IH. destruct o as [c|u v r|u v]; cbn [run_bop].
  - split; [apply wfP_add_node; exact W | apply out_first_add_node; exact O].
  - split; [apply wfP_add_edge; exact W|]. unfold add_edge. apply out_first_upd_adj. apply out_first_add_node. apply out_first_add_node. exact O.
  - split; [apply wfP_remove_edge; exact W | apply out_first_remove_edge; exact O].
Qed.

Lemma builder_cs_ok ops t : cs_ok G (mkCs G (run_bops G ops) t) = true.
Proof.
  destruct (builder_invariant ops) as [W O]. unfold cs_ok. cbn. rewrite (wfP_graph_wf _ W), O. reflexivity.
Qed.
End Builder.


(* ------------------------------------------------------------------------------------------ *)
(* sorted(): the result is the same for every arrangement of the same elements                 *)
(* ------------------------------------------------------------------------------------------ *)
From Coq Require Import Permutation Sorted.

Section SortBy.
Context {A K : Type} (key : A -> K) (leb : K -> K -> bool).
Hypothesis leb_total : forall x y, leb x y = true \/ leb y x = true.
Hypothesis leb_trans : forall x y z, leb x y = true -> leb y z = true -> leb x z = true.
Hypothesis leb_antisym : forall x y, leb x y = true -> leb y x = true -> x = y.

Definition sortedk (l : list A) : Prop := StronglySorted (fun x y => leb (key x) (key y) = true) l.

Lemma ins_by_perm a l : Permutation (ins_by key leb a l) (a :: l).
Proof.
  induction l as [|x tl IH]; cbn; [apply Permutation_refl|].
  destruct (leb (key a) (key x)); [apply Permutation_refl|].
  eapply Permutation_trans; [apply perm_skip; exact IH | apply perm_swap].
Qed.

Lemma sort_by_perm l : Permutation (sort_by key leb l) l.
Proof.
  induction l as [|x tl IH]; cbn; [constructor|].
  eapply Permutation_trans; [apply ins_by_perm | apply perm_skip; exact IH].
Qed.

Lemma ins_by_sorted a l : sortedk l -> sortedk (ins_by key leb a l).
Proof.
  induction l as [|x tl IH]; cbn; intros S.
  - constructor; [constructor | constructor].
  - inversion S as [|? ? S' F]; subst. destruct (leb (key a) (key x)) eqn:E.
    + constructor; [exact S|]. constructor; [exact E|].
      eapply Forall_impl; [|exact F]. intros y Hy. cbn in Hy. eapply leb_trans; eassumption.
    + constructor; [apply IH; exact S'|].
      eapply Permutation_Forall; [apply Permutation_sym, ins_by_perm|].
      constructor; [|exact F]. destruct (leb_total (key a) (key x)) as [X|X]; [congruence | exact X].
Qed.

Lemma sort_by_sorted l : sortedk (sort_by key leb l).
Proof. induction l as [|x tl IH]; cbn; [constructor | apply ins_by_sorted; exact IH]. Qed.

Lemma sorted_perm_unique : forall l1 l2,
  sortedk l1 -> sortedk l2 -> Permutation l1 l2 -> NoDup (map key l1) -> l1 = l2.
Proof.
  induction l1 as [|x t1 IH]; intros l2 S1 S2 P ND.
  - apply Permutation_nil in P. subst. reflexivity.
  - destruct l2 as [|y t2]; [apply Permutation_sym, Permutation_nil in P; discriminate|].
    inversion S1 as [|? ? S1' F1]; subst. inversion S2 as [|? ? S2' F2]; subst.
    inversion ND as [|? ? Nk ND']; subst.
    assert (x = y) as Exy.
    { assert (In y (x :: t1)) as Hy by (eapply Permutation_in; [apply Permutation_sym; exact P | left; reflexivity]).
      assert (In x (y :: t2)) as Hx by (eapply Permutation_in; [exact P | left; reflexivity]).
      destruct Hy as [Hy|Hy]; [exact Hy|]. destruct Hx as [Hx|Hx]; [symmetry; exact Hx|].
      rewrite Forall_forall in F1, F2. specialize (F1 _ Hy). specialize (F2 _ Hx). cbn in F1, F2.
      exfalso. apply Nk. rewrite (leb_antisym _ _ F1 F2). apply in_map. exact Hy. }
    subst y. f_equal. apply IH; try assumption. eapply Permutation_cons_inv. exact P.
Qed.

Lemma sort_by_unique l1 l2 : Permutation l1 l2 -> NoDup (map key l1) -> sort_by key leb l1 = sort_by key leb l2.
Proof.
  intros P ND. apply sorted_perm_unique; try apply sort_by_sorted.
  - eapply Permutation_trans; [apply sort_by_perm|]. eapply Permutation_trans; [exact P | apply Permutation_sym, sort_by_perm].
  - eapply Permutation_NoDup; [| exact ND]. apply Permutation_map. apply Permutation_sym, sort_by_perm.
Qed.
End SortBy.

(* str comparison is a total order *)
Lemma nat_of_ascii_inj x y : nat_of_ascii x = nat_of_ascii y -> x = y.
Proof. intros E. rewrite <- (ascii_nat_embedding x), <- (ascii_nat_embedding y), E. reflexivity. Qed.

Ltac ltb_cases :=
  repeat match goal with
         | H : context [Nat.ltb ?a ?b] |- _ => let E := fresh "L" in destruct (Nat.ltb a b) eqn:E;
               [apply Nat.ltb_lt in E | apply Nat.ltb_ge in E]
         | |- context [Nat.ltb ?a ?b] => let E := fresh "L" in destruct (Nat.ltb a b) eqn:E;
               [apply Nat.ltb_lt in E | apply Nat.ltb_ge in E]
         end.

Lemma str_leb_total a : forall b, str_leb a b = true \/ str_leb b a = true.
Proof.
  induction a as [|x a IH]; intros b; [left; reflexivity|].
  destruct b as [|y b]; [right; reflexivity|]. cbn [str_leb]. ltb_cases; try (left; reflexivity); try (right; reflexivity); try lia.
  apply IH.
Qed.

Lemma str_leb_antisym a : forall b, str_leb a b = true -> str_leb b a = true -> a = b.
Proof.
  induction a as [|x a IH]; intros b; destruct b as [|y b]; cbn [str_leb]; intros H1 H2; try discriminate; [reflexivity|].
  ltb_cases; try discriminate; try lia.
  assert (nat_of_ascii x = nat_of_ascii y) as E by lia. apply nat_of_ascii_inj in E. subst. f_equal. apply IH; assumption.
Qed.

Lemma str_leb_trans a : forall b c, str_leb a b = true -> str_leb b c = true -> str_leb a c = true.
Proof.
  induction a as [|x a IH]; intros b c H1 H2; [reflexivity|].
  destruct b as [|y b]; [discriminate|]. destruct c as [|z c]; [discriminate|]. cbn [str_leb] in *.
  ltb_cases; try reflexivity; try discriminate; try lia.
  eapply IH; eassumption.
Qed.

Lemma nat_leb_total x y : Nat.leb x y = true \/ Nat.leb y x = true.
Proof. destruct (Nat.leb_spec x y); [left; reflexivity | right; apply Nat.leb_le; lia]. Qed.
Lemma nat_leb_trans x y z : Nat.leb x y = true -> Nat.leb y z = true -> Nat.leb x z = true.
Proof. rewrite !Nat.leb_le. lia. Qed.
Lemma nat_leb_antisym x y : Nat.leb x y = true -> Nat.leb y x = true -> x = y.
Proof. rewrite !Nat.leb_le. lia. Qed.

(* ------------------------------------------------------------------------------------------ *)
(* the order in which ModelHash encodes a system: well formed, and blind to the original order *)
(* ------------------------------------------------------------------------------------------ *)
Section Canon.
Variable G : engine.
Hypothesis GOK : engine_ok G.

Definition sorted_nodes (g : graph G) : list (node G) := sort_by (node_name G) str_leb (g_nodes G g).
Definition poskey (ns : list (node G)) (vr : node G * expr G) : nat := pos_in G (fst vr) ns.

Lemma g_nodes_canon g : g_nodes G (graph_canon G g) = sorted_nodes g.
Proof. unfold graph_canon, g_nodes, sorted_nodes. rewrite map_map. cbn. apply map_id. Qed.

Lemma sorted_nodes_perm g : Permutation (sorted_nodes g) (g_nodes G g).
Proof. apply sort_by_perm. Qed.

Lemma In_sorted_nodes g n : In n (sorted_nodes g) <-> In n (g_nodes G g).
Proof. split; apply Permutation_in; [apply sorted_nodes_perm | apply Permutation_sym, sorted_nodes_perm]. Qed.

Lemma adj_of_In g n adj : NoDup (g_nodes G g) -> In (n, adj) g -> adj_of G n g = adj.
Proof. intros ND Hin. unfold adj_of. rewrite (g_lookup_NoDup G GOK g ND n adj Hin). reflexivity. Qed.

Lemma In_g_nodes_entry g n : In n (g_nodes G g) -> exists adj, In (n, adj) g.
Proof. unfold g_nodes. intros H. apply in_map_iff in H. destruct H as [[m a] [E Hin]]. cbn in E. subst. exists a. exact Hin. Qed.

Lemma canon_wf g : graph_wf G g = true -> graph_wf G (graph_canon G g) = true.
Proof.
  intros W. destruct (graph_wf_props G GOK g W) as [ND P]. apply (wfP_graph_wf G GOK). split.
  - rewrite g_nodes_canon. eapply Permutation_NoDup; [apply Permutation_sym, sorted_nodes_perm | exact ND].
  - intros n adj Hin. rewrite g_nodes_canon. unfold graph_canon in Hin. apply in_map_iff in Hin.
    destruct Hin as [m [E Hm]]. inversion E; subst. clear E. fold (sorted_nodes g) in *.
    apply In_sorted_nodes in Hm. destruct (In_g_nodes_entry g n Hm) as [a Ha].
    rewrite (adj_of_In g n a ND Ha). destruct (P _ _ Ha) as [NDa Ta].
    assert (Permutation (sort_by (fun vr : node G * expr G => pos_in G (fst vr) (sorted_nodes g)) Nat.leb a) a) as PA
      by apply sort_by_perm.
    split.
    + eapply Permutation_NoDup; [apply Permutation_map, Permutation_sym, PA | exact NDa].
    + intros v Hv. apply In_sorted_nodes. apply Ta. eapply Permutation_in; [apply Permutation_map, PA | exact Hv].
Qed.

Lemma canon_out_first g : out_first G g = true -> out_first G (graph_canon G g) = true.
Proof.
  destruct g as [|[[|c] a] tl]; cbn; intros H; try discriminate. unfold graph_canon. cbn [g_nodes map fst sort_by fold_right].
  fold (g_nodes G tl). set (l := fold_right (ins_by (node_name G) str_leb) [] (g_nodes G tl)).
  destruct l as [|x l']; cbn; reflexivity.
Qed.

Lemma cs_canon_ok s : cs_ok G s = true -> cs_ok G (cs_canon G s) = true.
Proof.
  unfold cs_ok. cbn. intros H. apply andb_true_iff in H. destruct H as [W O].
  rewrite (canon_wf _ W), (canon_out_first _ O). reflexivity.
Qed.

Lemma stmt_canon_ok st : stmt_ok G st = true -> stmt_ok G (stmt_canon G st) = true.
Proof. destruct st as [a|c]; cbn; [auto | apply cs_canon_ok]. Qed.

(* ---- uniqueness ---- *)
Lemma names_distinct_NoDup g : names_distinct G g = true -> NoDup (map (node_name G) (g_nodes G g)).
Proof.
  unfold names_distinct. generalize (map (node_name G) (g_nodes G g)). induction l as [|x tl IH]; intros H; [constructor|].
  apply andb_true_iff in H. destruct H as [H1 H2]. constructor; [|apply IH; exact H2].
  intro Hin. apply negb_true_iff in H1.
  assert (existsb (String.eqb x) tl = true) as X by (apply existsb_exists; exists x; split; [exact Hin | apply String.eqb_refl]).
  congruence.
Qed.

Lemma g_lookup_Some_In g n a : g_lookup G n g = Some a -> In n (g_nodes G g).
Proof.
  induction g as [|[m b] tl IH]; cbn; [discriminate|]. destruct (node_eqb G n m) eqn:E; intros H.
  - apply (node_eqb_eq G GOK) in E. left. symmetry. exact E.
  - right. apply IH. exact H.
Qed.

Lemma dod_nodes_perm g h : NoDup (g_nodes G g) -> dod_eqb G g h = true -> Permutation (g_nodes G g) (g_nodes G h).
Proof.
  intros ND D. unfold dod_eqb in D. apply andb_true_iff in D. destruct D as [L D]. apply Nat.eqb_eq in L.
  apply NoDup_Permutation_bis; [exact ND | unfold g_nodes; rewrite !map_length; lia |].
  intros n Hn. destruct (In_g_nodes_entry g n Hn) as [a Ha]. rewrite forallb_forall in D. specialize (D _ Ha). cbn in D.
  destruct (g_lookup G n h) as [b|] eqn:E; [|discriminate]. eapply g_lookup_Some_In. exact E.
Qed.

Lemma adj_lookup_Some_In adj v r : adj_lookup G v adj = Some r -> In (v, r) adj.
Proof.
  induction adj as [|[w s] tl IH]; cbn; [discriminate|]. destruct (node_eqb G v w) eqn:E; intros H.
  - apply (node_eqb_eq G GOK) in E. subst. injection H as H. subst. left. reflexivity.
  - right. apply IH. exact H.
Qed.

Lemma NoDup_map_fst_pairs {X Y} (l : list (X * Y)) : NoDup (map fst l) -> NoDup l.
Proof.
  induction l as [|[x y] tl IH]; cbn; intros ND; [constructor|]. inversion ND as [|? ? N ND']; subst.
  constructor; [|apply IH; exact ND']. intro Hin. apply N. apply in_map_iff. exists (x, y). split; [reflexivity | exact Hin].
Qed.

Lemma adj_same_perm a b : NoDup (map fst a) -> adj_same G a b = true -> Permutation a b.
Proof.
  intros ND S. unfold adj_same in S. apply andb_true_iff in S. destruct S as [L S]. apply Nat.eqb_eq in L.
  apply NoDup_Permutation_bis; [apply NoDup_map_fst_pairs; exact ND | lia |].
  intros [v r] Hin. unfold adj_sub in S. rewrite forallb_forall in S. specialize (S _ Hin). cbn in S.
  destruct (adj_lookup G v b) as [r'|] eqn:E; [|discriminate]. apply (expr_eqb_eq G GOK) in S. subst r'.
  apply adj_lookup_Some_In. exact E.
Qed.

Lemma index_of_inj l : forall a b i, index_of G a l = Some i -> index_of G b l = Some i -> a = b.
Proof.
  induction l as [|x tl IH]; cbn; intros a b i Ha Hb; [discriminate|].
  destruct (node_eqb G a x) eqn:Ea, (node_eqb G b x) eqn:Eb.
  - apply (node_eqb_eq G GOK) in Ea, Eb. subst. reflexivity.
  - injection Ha as Ha. subst i. destruct (index_of G b tl); cbn in Hb; discriminate.
  - injection Hb as Hb. subst i. destruct (index_of G a tl); cbn in Ha; discriminate.
  - destruct (index_of G a tl) as [ia|] eqn:Ia; cbn in Ha; [|discriminate].
    destruct (index_of G b tl) as [ib|] eqn:Ib; cbn in Hb; [|discriminate].
    injection Ha as Ha. injection Hb as Hb. subst i. injection Hb as Hb. subst ib. eapply IH; eassumption.
Qed.

Lemma poskey_NoDup ns adj : NoDup (map fst adj) -> (forall v, In v (map fst adj) -> In v ns) ->
  NoDup (map (poskey ns) adj).
Proof.
  induction adj as [|[v r] tl IH]; cbn; intros ND T; [constructor|]. inversion ND as [|? ? N ND']; subst.
  constructor; [|apply IH; [exact ND' | intros w Hw; apply T; right; exact Hw]].
  intro Hin. apply in_map_iff in Hin. destruct Hin as [[w s] [E Hw]]. unfold poskey, pos_in in E. cbn in E.
  destruct (index_of_In G GOK v ns (T v (or_introl eq_refl))) as [i Hi].
  assert (In w ns) as Hwn by (apply T; right; apply in_map_iff; exists (w, s); split; [reflexivity | exact Hw]).
  destruct (index_of_In G GOK w ns Hwn) as [j Hj]. rewrite Hi, Hj in E. subst j.
  apply N. rewrite (index_of_inj ns v w i Hi Hj). apply in_map_iff. exists (w, s). split; [reflexivity | exact Hw].
Qed.

Lemma graph_canon_unique g h :
  graph_wf G g = true -> graph_wf G h = true -> names_distinct G g = true ->
  dod_eqb G g h = true -> graph_canon G g = graph_canon G h.
Proof.
  intros Wg Wh NDn D. destruct (graph_wf_props G GOK g Wg) as [NDg Pg]. destruct (graph_wf_props G GOK h Wh) as [NDh Ph].
  pose proof (dod_nodes_perm g h NDg D) as PN.
  assert (sorted_nodes g = sorted_nodes h) as ES.
  { apply (sort_by_unique _ _ str_leb_total str_leb_trans str_leb_antisym); [exact PN | apply names_distinct_NoDup; exact NDn]. }
  unfold graph_canon. fold (sorted_nodes g) (sorted_nodes h). rewrite <- ES.
  apply map_ext_in. intros n Hn. f_equal.
  apply In_sorted_nodes in Hn. destruct (In_g_nodes_entry g n Hn) as [a Ha].
  assert (In n (g_nodes G h)) as Hnh by (eapply Permutation_in; [exact PN | exact Hn]).
  destruct (In_g_nodes_entry h n Hnh) as [b Hb].
  rewrite (adj_of_In g n a NDg Ha), (adj_of_In h n b NDh Hb).
  unfold dod_eqb in D. apply andb_true_iff in D. destruct D as [_ D]. rewrite forallb_forall in D.
  specialize (D _ Ha). cbn in D. rewrite (g_lookup_NoDup G GOK h NDh n b Hb) in D.
  destruct (Pg _ _ Ha) as [NDa Ta].
  apply (sort_by_unique _ _ nat_leb_total nat_leb_trans nat_leb_antisym).
  - apply adj_same_perm; assumption.
  - apply (poskey_NoDup (sorted_nodes g) a NDa). intros v Hv. apply In_sorted_nodes. apply Ta. exact Hv.
Qed.

(* two systems that == calls equal are encoded identically, whatever order they were built in *)
Lemma cs_canon_unique a b :
  graph_wf G (cs_g G a) = true -> graph_wf G (cs_g G b) = true -> names_distinct G (cs_g G a) = true ->
  cs_eq G a b = true -> cs_canon G a = cs_canon G b.
Proof.
  destruct a as [g t], b as [h t']. cbn [cs_g]. intros Wg Wh N E. unfold cs_eq in E. cbn [cs_g cs_t] in E.
  apply andb_true_iff in E. destruct E as [E _]. apply andb_true_iff in E. destruct E as [Et D].
  apply (expr_eqb_eq G GOK) in Et. subst t'. unfold cs_canon. cbn [cs_g cs_t].
  rewrite (graph_canon_unique g h Wg Wh N D). reflexivity.
Qed.

Definition stmt_names_distinct (st : stmt G) : bool :=
  match st with SOde _ c => names_distinct G (cs_g G c) | SAssign _ _ => true end.

Lemma stmt_canon_unique a b :
  stmt_ok G a = true -> stmt_ok G b = true -> stmt_names_distinct a = true ->
  stmt_eq G a b = true -> stmt_canon G a = stmt_canon G b.
Proof.
  destruct a as [x|x], b as [y|y]; cbn; intros A B N E; try discriminate.
  - rewrite (assign_eqb_eq G GOK x y E). reflexivity.
  - unfold cs_ok in A, B. apply andb_true_iff in A, B. destruct A as [A _], B as [B _].
    rewrite (cs_canon_unique x y A B N E). reflexivity.
Qed.

Lemma stmts_canon_unique : forall l l',
  forallb (stmt_ok G) l = true -> forallb (stmt_ok G) l' = true -> forallb stmt_names_distinct l = true ->
  stmts_eq G l l' = true -> map (stmt_canon G) l = map (stmt_canon G) l'.
Proof.
  unfold stmts_eq. induction l as [|x tl IH]; destruct l' as [|y tl']; cbn; intros A B N E; try discriminate; [reflexivity|].
  apply andb_true_iff in A, B, N, E. destruct A as [A1 A2], B as [B1 B2], N as [N1 N2], E as [L E].
  apply andb_true_iff in E. destruct E as [Exy E].
  rewrite (stmt_canon_unique x y A1 B1 N1 Exy). f_equal. apply IH; try assumption.
  apply andb_true_iff. split; assumption.
Qed.
End Canon.

(* ------------------------------------------------------------------------------------------ *)
(* the JSON text is a function of the JSON image                                              *)
(* ------------------------------------------------------------------------------------------ *)
Section TextOfImage.
Variable G : engine.

Lemma norm_items_idem d : norm_items (norm_items d) = norm_items d.
Proof. pose proof (normalise_idem_all (PDict d)) as E. cbn [normalise] in E. inversion E as [E']. exact E'. Qed.

Lemma derivs_text_of_image de :
  normalise (derivs_to_py G de) = normalise (derivs_to_py G (DStrs G (derivs_texts G de))).
Proof. destruct de as [l|l]; cbn; rewrite ?map_map; reflexivity. Qed.

Lemma norm_items_twice tool :
  map (fun kv : pkey * pyv => let (k, x) := kv in (norm_key k, normalise x)) (norm_items tool) =
  map (fun kv : pkey * pyv => let (k, x) := kv in (norm_key k, normalise x)) tool.
Proof. exact (norm_items_idem tool). Qed.

Lemma est_text_of_image e : normalise (est_to_dict G e) = normalise (est_to_dict G (est_json G e)).
Proof.
  destruct e as [me ia pu ev mx la isa ni au ke re pr de ie [so rt at_ tool]].
  unfold est_to_dict, est_json, est_with, common_items.
  cbn -[normalise derivs_to_py derivs_texts norm_items].
  cbn [normalise map norm_key app].
  rewrite <- derivs_text_of_image. rewrite (norm_items_twice tool). reflexivity.
Qed.

Lemma sim_text_of_image s : normalise (sim_to_dict s) = normalise (sim_to_dict (sim_json s)).
Proof.
  destruct s as [n sd [so rt at_ tool]]. unfold sim_to_dict, sim_json, common_items.
  cbn -[normalise norm_items]. cbn [normalise map norm_key app].
  rewrite (norm_items_twice tool). reflexivity.
Qed.

Lemma step_text_of_image s : normalise (step_to_dict G s) = normalise (step_to_dict G (step_json G s)).
Proof. destruct s as [e|x]; cbn [step_to_dict step_json]; [apply est_text_of_image | apply sim_text_of_image]. Qed.

Lemma steps_text_of_image l : normalise (steps_to_dict G l) = normalise (steps_to_dict G (map (step_json G) l)).
Proof.
  unfold steps_to_dict. cbn -[step_to_dict]. rewrite !map_map.
  rewrite (map_ext _ _ step_text_of_image). reflexivity.
Qed.

Lemma cats_text_of_image c : normalise (cats_to_py c) = normalise (cats_to_py (cats_json c)).
Proof.
  destruct c as [|l|d]; cbn [cats_to_py cats_json normalise]; [reflexivity| |].
  - f_equal. rewrite map_map. apply map_ext. intros x. symmetry. apply normalise_idem_all.
  - f_equal. symmetry. apply norm_items_idem.
Qed.

Lemma column_text_of_image c : normalise (column_to_dict_di G c) = normalise (column_to_dict_di G (column_json G c)).
Proof.
  destruct c as [nm ty u sc co ca dr dt de]. unfold column_to_dict_di, column_json. cbn -[normalise cats_to_py cats_json].
  cbn [normalise map norm_key]. rewrite <- cats_text_of_image. reflexivity.
Qed.

Lemma di_text_of_image x : normalise (di_to_dict G x) = normalise (di_to_dict G (di_json G x)).
Proof.
  destruct x as [cols pa se mt]. unfold di_to_dict, di_json. cbn -[column_to_dict_di].
  rewrite !map_map. rewrite (map_ext _ _ column_text_of_image). reflexivity.
Qed.

Lemma model_text_of_image m : normalise (model_to_dict G m) = normalise (model_to_dict G (model_json G m)).
Proof.
  destruct m as [nm de ps rv st es di vt dv ot ie].
  unfold model_to_dict, model_json.
  cbn [m_parameters m_rvs m_statements m_steps m_datainfo m_value_type m_depvars m_obstrans m_iie].
  cbn [normalise map norm_key].
  rewrite <- (steps_text_of_image es), <- (di_text_of_image di).
  do 9 f_equal. f_equal. f_equal.
  destruct ie as [x|]; cbn; [|reflexivity]. rewrite (normalise_idem_all x). reflexivity.
Qed.
End TextOfImage.

(* ------------------------------------------------------------------------------------------ *)
(* the key                                                                                    *)
(* ------------------------------------------------------------------------------------------ *)
Lemma model_json_blank G m : model_json G (blank G m) = model_json G m.
Proof. destruct m as [n d ps rv st es [cols p se mt] vt dv ot ie]. reflexivity. Qed.
Lemma model_canon_blank G m : model_canon G (blank G m) = blank G (model_canon G m).
Proof. destruct m as [n d ps rv st es [cols p se mt] vt dv ot ie]. reflexivity. Qed.

Section KeyLemmas.
Variable G : engine.
Variable dumps : pyv -> string.
Variable digest : Type.
Variable H : string -> digest.

Lemma blank_with_meta m nm de pa : blank G (with_meta G m nm de pa) = blank G m.
Proof. destruct m as [n d ps rv st es [cols p se mt] vt dv ot ie]. reflexivity. Qed.

Lemma key_ignores_meta ds m nm de pa : key G dumps digest H ds (with_meta G m nm de pa) = key G dumps digest H ds m.
Proof. unfold key. rewrite blank_with_meta. reflexivity. Qed.

Lemma to_dict_ignores_meta m nm de pa : model_to_dict G (with_meta G m nm de pa) = model_to_dict G m.
Proof. destruct m as [n d ps rv st es [cols p se mt] vt dv ot ie]. reflexivity. Qed.

Lemma key_same_dict ds m m' :
  model_encode G (blank G m) = model_encode G (blank G m') ->
  key G dumps digest H ds m = key G dumps digest H ds m'.
Proof. intros E. unfold key. rewrite E. reflexivity. Qed.

Lemma key_separates_model ds m m' :
  let d := model_encode G (blank G m) in let d' := model_encode G (blank G m') in
  dumps_sep dumps d d' -> H_sep H (ds ++ dumps d)%string (ds ++ dumps d')%string ->
  normalise d <> normalise d' ->
  key G dumps digest H ds m <> key G dumps digest H ds m'.
Proof.
  cbn zeta. intros DS HS N. unfold key. intros E.
  apply HS in E. apply append_inv_head in E. apply DS in E. contradiction.
Qed.

Lemma key_separates_dataset ds ds' m :
  let d := model_encode G (blank G m) in
  H_sep H (ds ++ dumps d)%string (ds' ++ dumps d)%string -> ds <> ds' ->
  key G dumps digest H ds m <> key G dumps digest H ds' m.
Proof.
  cbn zeta. intros HS N. unfold key. intros E.
  apply HS in E. apply append_inv_tail in E. contradiction.
Qed.

(* the key does not see the order in which a system's compartments and flows were entered *)
Lemma key_order_blind (GOK : engine_ok G) ds m l' :
  forallb (stmt_ok G) (m_statements G m) = true -> forallb (stmt_ok G) l' = true ->
  forallb (stmt_names_distinct G) (m_statements G m) = true ->
  stmts_eq G (m_statements G m) l' = true ->
  key G dumps digest H ds (with_statements G m l') = key G dumps digest H ds m.
Proof.
  intros A B N E. apply key_same_dict.
  destruct m as [n d ps rv st es [cols p se mt] vt dv ot ie]. cbn [m_statements] in *.
  unfold model_encode, model_canon, blank, with_statements. cbn.
  rewrite (stmts_canon_unique G GOK st l' A B N E). reflexivity.
Qed.
End KeyLemmas.

Lemma depvars_ok_canon G m : depvars_ok G m -> depvars_ok G (model_canon G (blank G m)).
Proof.
  destruct m as [n d ps rv st es [cols p se mt] vt dv ot ie]. intros D kv Hin. apply D. cbn in *.
  eapply Permutation_in; [apply (sort_by_perm (depvar_key G) str_leb dv) | exact Hin].
Qed.

(* equal keys (same data) => the two models, put in the encoding order, have the same JSON image *)
Lemma key_sound_lemma G (GOK : engine_ok G) dumps digest (H : string -> digest) ds m m' :
  let d := model_encode G (blank G m) in let d' := model_encode G (blank G m') in
  forallb (stmt_ok G) (m_statements G m) = true -> forallb (stmt_ok G) (m_statements G m') = true ->
  depvars_ok G m -> depvars_ok G m' ->
  (forall x, m_iie G m = Some x -> normalise x <> PNone) -> (forall x, m_iie G m' = Some x -> normalise x <> PNone) ->
  dumps_sep dumps d d' -> H_sep H (ds ++ dumps d)%string (ds ++ dumps d')%string ->
  key G dumps digest H ds m = key G dumps digest H ds m' ->
  model_json G (model_canon G m) = model_json G (model_canon G m').
Proof.
  cbn zeta. intros W W' D D' I I' DS HS E. unfold key in E.
  apply HS in E. apply append_inv_head in E. apply DS in E. unfold model_encode in E.
  assert (forall m0, forallb (stmt_ok G) (m_statements G m0) = true -> depvars_ok G m0 ->
            (forall x, m_iie G m0 = Some x -> normalise x <> PNone) ->
            model_from_dict G (normalise (model_to_dict G (model_canon G (blank G m0)))) =
            Some (model_json G (model_canon G m0))) as A.
  { intros m0 W0 D0 I0. rewrite (model_json_lemma G GOK).
    - rewrite model_canon_blank, model_json_blank. reflexivity.
    - destruct m0 as [n d ps rv st es [cols p se mt] vt dv ot ie]. cbn in *. rewrite forallb_forall in *.
      intros x Hx. apply in_map_iff in Hx. destruct Hx as [y [Ey Hy]]. subst. apply (stmt_canon_ok G GOK). apply W0. exact Hy.
    - apply depvars_ok_canon. exact D0.
    - destruct m0 as [n d ps rv st es [cols p se mt] vt dv ot ie]. exact I0. }
  pose proof (A m W D I) as Am. pose proof (A m' W' D' I') as Am'. rewrite E in Am. rewrite Am in Am'.
  assert (forall (x y : model G), Some x = Some y -> x = y) as SI by (intros x y X; inversion X; reflexivity).
  apply SI. exact Am'.
Qed.

Lemma key_complete_lemma G dumps digest (H : string -> digest) ds (m m' : model G) :
  (forall v, v = model_encode G (blank G m) \/ v = model_encode G (blank G m') -> dumps (normalise v) = dumps v) ->
  model_json G (model_canon G m) = model_json G (model_canon G m') ->
  key G dumps digest H ds m = key G dumps digest H ds m'.
Proof.
  intros DN E. unfold key. do 2 f_equal.
  rewrite <- (DN (model_encode G (blank G m)) (or_introl eq_refl)), <- (DN (model_encode G (blank G m')) (or_intror eq_refl)).
  f_equal. unfold model_encode.
  rewrite (model_text_of_image G (model_canon G (blank G m))), (model_text_of_image G (model_canon G (blank G m'))).
  rewrite !model_canon_blank, !model_json_blank, E. reflexivity.
Qed.

(* ------------------------------------------------------------------------------------------ *)
(* statements of Properties.v whose proofs combine the lemmas above                            *)
(* ------------------------------------------------------------------------------------------ *)
Local Open Scope string_scope.
Lemma estimation_step_roundtrip_thm :
  forall G (e : eststep G), derivs_canon G (es_derivatives G e) = true ->
    est_from_dict G (est_to_dict G e) = Some e.
Proof. intros G e H. rewrite est_roundtrip, (est_flat_canon G e H). reflexivity. Qed.

Lemma execution_steps_roundtrip_thm :
  forall G (l : list (step G)), forallb (step_canon G) l = true ->
    steps_from_dict G (steps_to_dict G l) = Some l.
Proof.
  intros G l H. rewrite steps_roundtrip. f_equal. apply map_id_on. intros x Hx. apply step_flat_canon.
  rewrite forallb_forall in H. apply H. exact Hx.
Qed.

Lemma model_roundtrip_thm :
  forall G, engine_ok G -> forall m : model G,
    forallb (stmt_ok G) (m_statements G m) = true -> depvars_ok G m ->
    forallb (step_canon G) (m_steps G m) = true -> m_iie G m <> Some PNone ->
    model_from_dict G (model_to_dict G m) = Some (strip G m).
Proof.
  intros G GOK m W D C I. rewrite (model_roundtrip G GOK m W D I), (model_flat_canon G m C). reflexivity.
Qed.

Lemma compartmental_system_to_dict_injective_thm :
  forall G, engine_ok G -> forall a b : csys G,
    cs_ok G a = true -> cs_ok G b = true -> cs_to_dict G a = cs_to_dict G b -> a = b.
Proof.
  intros G GOK a b A B E. unfold cs_ok in *. apply andb_true_iff in A, B. destruct A as [A1 A2], B as [B1 B2].
  pose proof (cs_roundtrip_lemma G GOK a A1 A2) as Ra. pose proof (cs_roundtrip_lemma G GOK b B1 B2) as Rb.
  rewrite E in Ra. rewrite Ra in Rb. inversion Rb. reflexivity.
Qed.

Lemma parameter_roundtrip_eq_thm :
  forall p, param_no_nan p = true ->
    exists q, param_from_dict (param_to_dict p) = Some q /\ param_eqb q p = true.
Proof. intros p H. exists p. split; [apply param_roundtrip | apply param_eqb_refl; exact H]. Qed.

Lemma random_variables_roundtrip_eq_thm :
  forall G, engine_ok G -> forall r : rvs G,
    exists q, rvs_from_dict G (rvs_to_dict G r) = Some q /\ rvs_eqb G q r = true.
Proof. intros G GOK r. exists r. split; [apply rvs_roundtrip | apply rvs_eqb_refl]; exact GOK. Qed.

Lemma random_variables_json_roundtrip_eq_thm :
  forall G, engine_ok G -> forall r : rvs G,
    exists q, rvs_from_dict G (normalise (rvs_to_dict G r)) = Some q /\ rvs_eqb G q r = true.
Proof. intros G GOK r. exists r. split; [apply rvs_json_lemma | apply rvs_eqb_refl]; exact GOK. Qed.

Lemma compartmental_system_roundtrip_eq_thm :
  forall G, engine_ok G -> forall s : csys G,
    cs_ok G s = true -> exists q, cs_from_dict G (cs_to_dict G s) = Some q /\ cs_eq G q s = true.
Proof.
  intros G GOK s W. unfold cs_ok in W. apply andb_true_iff in W. destruct W as [W O]. exists s. split.
  - apply cs_roundtrip_lemma; assumption.
  - apply (cs_eq_refl G GOK s W).
Qed.

Lemma stmt_ok_eq_ok G l : forallb (stmt_ok G) l = true -> forallb (stmt_eq_ok G) l = true.
Proof.
  rewrite !forallb_forall. intros W x Hx. specialize (W x Hx). destruct x as [a|c]; [reflexivity|].
  cbn in *. unfold cs_ok in W. apply andb_true_iff in W. apply W.
Qed.

Lemma statements_roundtrip_eq_thm :
  forall G (GOK : engine_ok G) (l : list (stmt G)),
    forallb (stmt_ok G) l = true ->
    exists q, stmts_from_dict G (stmts_to_dict G l) = Some q /\ stmts_eq G q l = true.
Proof.
  intros G GOK l W. exists l. split; [apply stmts_roundtrip | apply stmts_eq_refl; [|apply stmt_ok_eq_ok]]; assumption.
Qed.

Lemma model_json_roundtrip_thm :
  forall G, engine_ok G -> forall m : model G,
    forallb (stmt_ok G) (m_statements G m) = true -> depvars_ok G m ->
    forallb (step_json_ok G) (m_steps G m) = true ->
    forallb (column_json_ok G) (di_columns G (m_datainfo G m)) = true ->
    (forall x, m_iie G m = Some x -> is_json x = true /\ x <> PNone) ->
    model_from_dict G (normalise (model_to_dict G m)) = Some (strip G m).
Proof.
  intros G GOK m W D B C I.
  rewrite (model_json_lemma G GOK m W D).
  - f_equal. apply model_json_stable; try assumption. intros x Hx. apply (I x Hx).
  - intros x Hx. destruct (I x Hx) as [J N]. rewrite (normalise_fix_lemma x J). exact N.
Qed.

Lemma builder_systems_roundtrip_thm :
  forall G, engine_ok G -> forall (ops : list (bop G)) (t : expr G),
    cs_ok G (mkCs G (run_bops G ops) t) = true /\
    cs_from_dict G (cs_to_dict G (mkCs G (run_bops G ops) t)) = Some (mkCs G (run_bops G ops) t).
Proof.
  intros G GOK ops t. pose proof (builder_cs_ok G GOK ops t) as W. split; [exact W|].
  unfold cs_ok in W. apply andb_true_iff in W. destruct W as [W O]. apply cs_roundtrip_lemma; assumption.
Qed.

(* two builder histories whose systems == calls equal are encoded identically *)
Lemma builder_encoding_order_blind_thm :
  forall G, engine_ok G -> forall (ops ops' : list (bop G)) (t : expr G),
    names_distinct G (run_bops G ops) = true ->
    cs_eq G (mkCs G (run_bops G ops) t) (mkCs G (run_bops G ops') t) = true ->
    cs_canon G (mkCs G (run_bops G ops) t) = cs_canon G (mkCs G (run_bops G ops') t).
Proof.
  intros G GOK ops ops' t N E.
  pose proof (builder_cs_ok G GOK ops t) as W. pose proof (builder_cs_ok G GOK ops' t) as W'.
  unfold cs_ok in W, W'. apply andb_true_iff in W, W'. destruct W as [W _], W' as [W' _].
  apply (cs_canon_unique G GOK); assumption.
Qed.

(* ------------------------------------------------------------------------------------------ *)
(* the mappings of a model: == (order blind) => the same sorted encoding                       *)
(* ------------------------------------------------------------------------------------------ *)
Section MappingOrder.
Context {A B : Type} (keqb : A -> A -> bool) (veqb : B -> B -> bool).
Hypothesis keqb_ok : forall a b, keqb a b = true <-> a = b.
Hypothesis veqb_eq : forall a b, veqb a b = true -> a = b.

Lemma alookup_Some_In (l : list (A * B)) k v : alookup keqb k l = Some v -> In (k, v) l.
Proof.
  induction l as [|[k' v'] tl IH]; cbn; [discriminate|]. destruct (keqb k k') eqn:E; intros H.
  - apply keqb_ok in E. subst. injection H as H. subst. left. reflexivity.
  - right. apply IH. exact H.
Qed.

Lemma map_eqb_perm (a b : list (A * B)) : NoDup (map fst a) -> map_eqb keqb veqb a b = true -> Permutation a b.
Proof.
  intros ND E. unfold map_eqb in E. apply andb_true_iff in E. destruct E as [L E]. apply Nat.eqb_eq in L.
  apply NoDup_Permutation_bis; [apply NoDup_map_fst_pairs; exact ND | lia |].
  intros [k v] Hin. rewrite forallb_forall in E. specialize (E _ Hin). cbn in E.
  destruct (alookup keqb k b) as [v'|] eqn:F; [|discriminate]. apply veqb_eq in E. subst v'.
  apply alookup_Some_In. exact F.
Qed.
End MappingOrder.

Section ContentOrder.
Variable G : engine.
Hypothesis GOK : engine_ok G.
Variable dumps : pyv -> string.
Variable digest : Type.
Variable H : string -> digest.

(* the key sees neither the order in which a system was built nor the order in which the
   dependent variables / observation transformations were entered *)
Lemma key_content_order_blind ds m l' dv' ot' :
  forallb (stmt_ok G) (m_statements G m) = true -> forallb (stmt_ok G) l' = true ->
  forallb (stmt_names_distinct G) (m_statements G m) = true ->
  NoDup (map fst (m_depvars G m)) -> NoDup (map (depvar_key G) (m_depvars G m)) ->
  NoDup (map fst (m_obstrans G m)) -> NoDup (map (obstrans_key G) (m_obstrans G m)) ->
  stmts_eq G (m_statements G m) l' = true ->
  map_eqb (expr_eqb G) Z.eqb (m_depvars G m) dv' = true ->
  map_eqb (expr_eqb G) (expr_eqb G) (m_obstrans G m) ot' = true ->
  key G dumps digest H ds (with_content G m l' dv' ot') = key G dumps digest H ds m.
Proof.
  intros A B N D1 D2 O1 O2 E Ed Eo. apply key_same_dict.
  destruct m as [n d ps rv st es [cols p se mt] vt dv ot ie]. cbn [m_statements m_depvars m_obstrans] in *.
  unfold model_encode, model_canon, blank, with_content. cbn -[sort_by].
  rewrite (stmts_canon_unique G GOK st l' A B N E).
  rewrite (sort_by_unique (depvar_key G) str_leb str_leb_total str_leb_trans str_leb_antisym dv dv').
  - rewrite (sort_by_unique (obstrans_key G) str_leb str_leb_total str_leb_trans str_leb_antisym ot ot'); [reflexivity | | exact O2].
    apply (map_eqb_perm (expr_eqb G) (expr_eqb G) (expr_eqb_ok G GOK) (expr_eqb_eq G GOK)); assumption.
  - apply (map_eqb_perm (expr_eqb G) Z.eqb (expr_eqb_ok G GOK)); [intros a b X; apply Z.eqb_eq; exact X | exact D1 | exact Ed].
  - exact D2.
Qed.
End ContentOrder.

(* ------------------------------------------------------------------------------------------ *)
(* the dataset bytes can be read back: they determine everything that enters them               *)
(* ------------------------------------------------------------------------------------------ *)
Local Open Scope string_scope.
Lemma append_eq_len : forall a b x y : string, String.length a = String.length b -> a ++ x = b ++ y -> a = b /\ x = y.
Proof.
  induction a as [|c a IH]; intros b x y L E; destruct b as [|c' b]; cbn in L; try discriminate.
  - split; [reflexivity | exact E].
  - cbn in E. injection E as Ec Et. injection L as L. destruct (IH b x y L Et) as [A X]. subst. split; reflexivity.
Qed.

Lemma str_app_assoc (a b c : string) : (a ++ b) ++ c = a ++ (b ++ c).
Proof. induction a as [|x a IH]; cbn; [reflexivity|]. rewrite IH. reflexivity. Qed.

Section DatasetProofs.
Variable rowhash : list cell -> string.
Variable repr_names : list string -> string.
Variable repr_index : index_view -> string.
Variable repr_dtypes : list string -> string.
Hypothesis rowhash_width : forall r, String.length (rowhash r) = 8.
Hypothesis names_dec : decodable repr_names.
Hypothesis index_dec : decodable repr_index.
Hypothesis dtypes_inj : forall a b, repr_dtypes a = repr_dtypes b -> a = b.

Lemma cat_rows_read_back : forall (l l' : list (list cell)) (x y : string),
  rows_sep rowhash l l' -> List.length l = List.length l' ->
  cat_all (map rowhash l) ++ x = cat_all (map rowhash l') ++ y -> l = l' /\ x = y.
Proof.
  induction l as [|r l IH]; intros l' x y S L E; destruct l' as [|r' l']; cbn in L; try discriminate.
  - split; [reflexivity | exact E].
  - cbn [map cat_all fold_right] in E. fold (cat_all (map rowhash l)) in E. fold (cat_all (map rowhash l')) in E.
    rewrite !str_app_assoc in E.
    destruct (append_eq_len _ _ _ _ (eq_trans (rowhash_width r) (eq_sym (rowhash_width r'))) E) as [Er Et].
    apply (S r r' (or_introl eq_refl) (or_introl eq_refl)) in Er. subst r'. injection L as L.
    destruct (IH l' x y (fun a b Ha Hb => S a b (or_intror Ha) (or_intror Hb)) L Et) as [A X]. subst. split; reflexivity.
Qed.

Lemma ds_bytes_read_back f g :
  rows_sep rowhash (f_rows f) (f_rows g) -> List.length (f_rows f) = List.length (f_rows g) ->
  ds_bytes rowhash repr_names repr_index repr_dtypes f = ds_bytes rowhash repr_names repr_index repr_dtypes g ->
  ds_input f = ds_input g.
Proof.
  intros S L E. unfold ds_bytes in E. destruct (cat_rows_read_back _ _ _ _ S L E) as [Er E1].
  pose proof (names_dec _ _ _ _ E1) as Ec. rewrite Ec in E1. apply append_inv_head in E1.
  pose proof (index_dec _ _ _ _ E1) as Ei. rewrite Ei in E1. apply append_inv_head in E1.
  apply dtypes_inj in E1. unfold ds_input. rewrite Er, Ec, Ei, E1. reflexivity.
Qed.

Lemma ds_bytes_same_input f g :
  ds_input f = ds_input g ->
  ds_bytes rowhash repr_names repr_index repr_dtypes f = ds_bytes rowhash repr_names repr_index repr_dtypes g.
Proof. unfold ds_input, ds_bytes. intros E. injection E as E1 E2 E3 E4. rewrite E1, E2, E3, E4. reflexivity. Qed.
End DatasetProofs.

Lemma key_separates_frames G dumps digest (H : string -> digest)
      (rowhash : list cell -> string) (repr_names : list string -> string) (repr_index : index_view -> string)
      (repr_dtypes : list string -> string) (f g : frame) (m : model G) :
  (forall r, String.length (rowhash r) = 8) -> rows_sep rowhash (f_rows f) (f_rows g) ->
  decodable repr_names -> decodable repr_index -> (forall a b, repr_dtypes a = repr_dtypes b -> a = b) ->
  let bytes := ds_bytes rowhash repr_names repr_index repr_dtypes in
  let d := model_encode G (blank G m) in
  List.length (f_rows f) = List.length (f_rows g) -> ds_input f <> ds_input g ->
  H_sep H (bytes f ++ dumps d) (bytes g ++ dumps d) ->
  key G dumps digest H (bytes f) m <> key G dumps digest H (bytes g) m.
Proof.
  intros W I N X D bytes d L NE HS. apply key_separates_dataset; [exact HS|].
  intro E. apply NE. apply (ds_bytes_read_back rowhash repr_names repr_index repr_dtypes W N X D f g I L E).
Qed.

Lemma key_same_frames G dumps digest (H : string -> digest)
      (rowhash : list cell -> string) (repr_names : list string -> string) (repr_index : index_view -> string)
      (repr_dtypes : list string -> string) (f g : frame) (m : model G) :
  ds_input f = ds_input g ->
  key G dumps digest H (ds_bytes rowhash repr_names repr_index repr_dtypes f) m =
  key G dumps digest H (ds_bytes rowhash repr_names repr_index repr_dtypes g) m.
Proof. intros E. rewrite (ds_bytes_same_input rowhash repr_names repr_index repr_dtypes f g E). reflexivity. Qed.

(* ------------------------------------------------------------------------------------------ *)
(* Results JSON round trip                                                                    *)
(* ------------------------------------------------------------------------------------------ *)
Local Open Scope string_scope.
Lemma dget_app_none k a b : dget k a = None -> dget k (a ++ b)%list = dget k b.
Proof.
  induction a as [|[[k'|z] v] tl IH]; cbn; intros H; [reflexivity| |apply IH; exact H].
  destruct (String.eqb k k'); [discriminate | apply IH; exact H].
Qed.
Lemma remove_key_app k a b : remove_key k (a ++ b)%list = (remove_key k a ++ remove_key k b)%list.
Proof.
  induction a as [|[[k'|z] v] tl IH]; cbn; [reflexivity| |rewrite IH; reflexivity].
  destruct (String.eqb k k'); rewrite IH; reflexivity.
Qed.
Lemma remove_key_absent k a : dget k a = None -> remove_key k a = a.
Proof.
  induction a as [|[[k'|z] v] tl IH]; cbn; intros H; [reflexivity| |rewrite IH; [reflexivity | exact H]].
  destruct (String.eqb k k'); [discriminate|]. rewrite IH; [reflexivity | exact H].
Qed.
Lemma norm_items_app a b : norm_items (a ++ b)%list = (norm_items a ++ norm_items b)%list.
Proof. apply map_app. Qed.

Lemma plain_clean_no_reserved d k : plain_clean (PDict d) = true -> reserved_key k = true -> dget k d = None.
Proof.
  intros C R. cbn in C. induction d as [|[[k'|z] v] tl IH]; cbn in *; [reflexivity| |].
  - apply andb_true_iff in C. destruct C as [C1 C2]. apply andb_true_iff in C1. destruct C1 as [C1 _].
    destruct (String.eqb k k') eqn:E; [|apply IH; exact C2].
    apply String.eqb_eq in E. subst. rewrite R in C1. discriminate.
  - apply andb_true_iff in C. apply IH. apply C.
Qed.

Section ResultsProofs.
Variable tbl : Type.
Variable tbl_json : tbl -> list (pkey * pyv).
Variable tbl_read : list (pkey * pyv) -> option tbl.
Variable logv : Type.
Variable log_json : logv -> list (pkey * pyv).
Variable log_read : list (pkey * pyv) -> option logv.
(* pandas: read_json(orient='table') of the text of to_json(orient='table') gives the frame back
   (where it does not — 15 significant digits — is C20's finding C20-JSON-15-DECIMALS), and the table
   dictionary has no reserved key; likewise Log *)
Hypothesis tbl_rt : forall t, tbl_read (norm_items (tbl_json t)) = Some t.
Hypothesis tbl_clean : forall t k, reserved_key k = true -> dget k (norm_items (tbl_json t)) = None.
Hypothesis log_rt : forall l, log_read (norm_items (log_json l)) = Some l.
Hypothesis log_clean : forall l k, reserved_key k = true -> dget k (norm_items (log_json l)) = None.

Notation enc := (encode_field tbl tbl_json logv log_json).
Notation dec := (decode_field tbl tbl_read logv log_read).

Lemma tagged_decode (J : list (pkey * pyv)) (c : string) :
  (forall k, reserved_key k = true -> dget k J = None) ->
  dget "__module__" (J ++ [class_item c])%list = None /\
  dget "__class__" (J ++ [class_item c])%list = Some (PStr c) /\
  remove_key "__class__" (remove_key "__module__" (J ++ [class_item c])%list) = J.
Proof.
  intros Cl. pose proof (Cl "__module__" eq_refl) as Cm. pose proof (Cl "__class__" eq_refl) as Cc.
  repeat split.
  - rewrite (dget_app_none _ _ _ Cm). reflexivity.
  - rewrite (dget_app_none _ _ _ Cc). reflexivity.
  - rewrite (remove_key_absent "__module__"); [| rewrite (dget_app_none _ _ _ Cm); reflexivity].
    rewrite remove_key_app, (remove_key_absent _ _ Cc). cbn. apply app_nil_r.
Qed.

Lemma field_roundtrip f : field_supported tbl logv f = true ->
  exists p, enc f = Some p /\ dec (normalise p) = Some f.
Proof.
  destruct f as [v|t|t|l| |p|]; cbn [field_supported]; intros S; try discriminate.
  - exists v. split; [reflexivity|]. apply andb_true_iff in S. destruct S as [J C].
    rewrite (normalise_fix_lemma v J). destruct v; try reflexivity. unfold decode_field.
    rewrite (plain_clean_no_reserved d "__module__" C eq_refl), (plain_clean_no_reserved d "__class__" C eq_refl). reflexivity.
  - eexists. split; [reflexivity|]. cbn [normalise]. fold (norm_items (tbl_json t ++ [class_item "DataFrame"])).
    rewrite norm_items_app. change (norm_items [class_item "DataFrame"]) with [class_item "DataFrame"].
    destruct (tagged_decode (norm_items (tbl_json t)) "DataFrame" (tbl_clean t)) as [A [B C]].
    unfold decode_field. rewrite A, B, C. cbn. rewrite tbl_rt. reflexivity.
  - eexists. split; [reflexivity|]. cbn [normalise]. fold (norm_items (tbl_json t ++ [class_item "Series"])).
    rewrite norm_items_app. change (norm_items [class_item "Series"]) with [class_item "Series"].
    destruct (tagged_decode (norm_items (tbl_json t)) "Series" (tbl_clean t)) as [A [B C]].
    unfold decode_field. rewrite A, B, C. cbn. rewrite tbl_rt. reflexivity.
  - eexists. split; [reflexivity|]. cbn [normalise]. fold (norm_items (log_json l ++ [class_item "Log"])).
    rewrite norm_items_app. change (norm_items [class_item "Log"]) with [class_item "Log"].
    destruct (tagged_decode (norm_items (log_json l)) "Log" (log_clean l)) as [A [B C]].
    unfold decode_field. rewrite A, B, C. cbn. rewrite log_rt. reflexivity.
Qed.

Definition field_item (nf : string * rfield tbl logv) : option (pkey * pyv) :=
  v <- enc (snd nf) ;; Some (KStr (fst nf), v).
Definition decode_item (kv : pkey * pyv) : option (string * rfield tbl logv) :=
  match kv with (KStr k, x) => f <- dec x ;; Some (k, f) | _ => None end.

Lemma fields_roundtrip fields :
  forallb (fun nf : string * rfield tbl logv => negb (reserved_key (fst nf)) && field_supported tbl logv (snd nf)) fields = true ->
  exists items, traverse field_item fields = Some items /\
    (forall k, reserved_key k = true -> dget k (norm_items items) = None) /\
    traverse decode_item (norm_items items) = Some fields.
Proof.
  induction fields as [|[n f] tl IH]; cbn [forallb]; intros S.
  - exists []. repeat split; reflexivity.
  - apply andb_true_iff in S. destruct S as [S1 S2]. apply andb_true_iff in S1. destruct S1 as [Nr Sf].
    destruct (field_roundtrip f Sf) as [p [Ep Dp]]. destruct (IH S2) as [items [Ti [Cl Td]]].
    exists ((KStr n, p) :: items). cbn [traverse fst snd]. unfold field_item at 1. cbn [fst snd]. rewrite Ep, Ti.
    split; [reflexivity|]. split.
    + intros k R. cbn. destruct (String.eqb k n) eqn:E; [|apply Cl; exact R].
      apply String.eqb_eq in E. subst k. cbn [fst] in Nr. rewrite R in Nr. discriminate.
    + cbn [norm_items map traverse decode_item norm_key]. fold (norm_items items). rewrite Dp, Td. reflexivity.
Qed.

Lemma results_roundtrip_lemma r : results_supported tbl logv r = true ->
  exists p, encode_results tbl tbl_json logv log_json r = Some p /\
            decode_results tbl tbl_read logv log_read (normalise p) = Some r.
Proof.
  destruct r as [m c fields]. unfold results_supported. cbn [r_class r_fields]. intros S.
  apply andb_true_iff in S. destruct S as [Sc Sf]. destruct (fields_roundtrip fields Sf) as [items [Ti [Cl Td]]].
  unfold encode_results. cbn [r_fields r_module r_class]. fold field_item. rewrite Ti.
  eexists. split; [reflexivity|]. cbn [normalise].
  fold (norm_items (items ++ [(KStr "__module__", PStr m); class_item c])). rewrite norm_items_app.
  change (norm_items [(KStr "__module__", PStr m); class_item c]) with [(KStr "__module__", PStr m); class_item c].
  pose proof (Cl "__module__" eq_refl) as Cm. pose proof (Cl "__class__" eq_refl) as Cc.
  unfold decode_results. rewrite (dget_app_none _ _ _ Cm), (dget_app_none _ _ _ Cc). cbn [dget String.eqb Ascii.eqb Bool.eqb class_item].
  cbn. rewrite Sc. cbn.
  rewrite !remove_key_app, (remove_key_absent _ _ Cm), (remove_key_absent _ _ Cc). cbn. rewrite app_nil_r.
  fold decode_item. rewrite Td. reflexivity.
Qed.
End ResultsProofs.

(* ------------------------------------------------------------------------------------------ *)
(* the generic model code, end to end                                                          *)
(* ------------------------------------------------------------------------------------------ *)
Local Open Scope string_scope.
Section GenericProofs.
Variable G : engine.
Hypothesis GOK : engine_ok G.

(* from_dict looks up nine keys and nothing else: extra items after them do not matter *)
Lemma model_from_dict_ext d e :
  (forall k, In k ["initial_individual_estimates"; "dependent_variables"; "observation_transformation"; "parameters";
                   "random_variables"; "statements"; "execution_steps"; "datainfo"; "value_type"] -> dget k d <> None) ->
  model_from_dict G (PDict (d ++ e)) = model_from_dict G (PDict d).
Proof.
  intros K. unfold model_from_dict. cbn [as_dict].
  assert (forall k, dget k d <> None -> dget k (d ++ e)%list = dget k d) as A.
  { intros k. clear K. induction d as [|[[k'|z] v] tl IH]; cbn; intros N; [contradiction| |apply IH; exact N].
    destruct (String.eqb k k'); [reflexivity | apply IH; exact N]. }
  rewrite !A by (apply K; cbn; tauto). reflexivity.
Qed.

Lemma generic_convert_keeps G' (m : model G') :
  m_statements G' (generic_convert G' m) = m_statements G' m /\ m_iie G' (generic_convert G' m) = m_iie G' m /\
  m_steps G' (generic_convert G' m) = m_steps G' m /\ m_datainfo G' (generic_convert G' m) = m_datainfo G' m.
Proof. destruct m; repeat split; reflexivity. Qed.

Lemma generic_image (dumps : pyv -> string) (loads : string -> option pyv) version m :
  loads (dumps (generic_code_dict G version (generic_convert G m))) =
    Some (normalise (generic_code_dict G version (generic_convert G m))) ->
  forallb (stmt_ok G) (m_statements G m) = true -> depvars_ok G m ->
  (forall x, m_iie G m = Some x -> normalise x <> PNone) ->
  generic_roundtrip G dumps loads version m = Some (model_json G (generic_convert G m)).
Proof.
  intros L W D I. unfold generic_roundtrip, generic_parse, generic_code. rewrite L.
  pose proof (model_json_lemma G GOK (generic_convert G m)) as J.
  destruct m as [nm de ps rv st es di vt dv ot ie]. cbn [m_statements m_iie] in *.
  specialize (J W D I). unfold generic_code_dict, generic_convert in *.
  cbn [m_name m_description m_parameters m_rvs m_statements m_steps m_datainfo m_depvars m_obstrans m_iie model_to_dict] in *.
  cbn [normalise] in *.
  rewrite map_app.
  rewrite model_from_dict_ext; [exact J|].
  intros k Hk. cbn in Hk. cbn.
  repeat (destruct Hk as [<-|Hk]; [cbn; discriminate|]). contradiction.
Qed.
End GenericProofs.

Lemma model_eq_strip G (m m' : model G) : model_eq G (strip G m) m' = model_eq G m m'.
Proof. destruct m as [nm de ps rv st es [cols p se mt] vt dv ot ie]. reflexivity. Qed.

Lemma generic_convert_id G (m : model G) : generic_convert G m = m.
Proof. destruct m; reflexivity. Qed.

Lemma generic_code_roundtrip_lemma G (GOK : engine_ok G) (dumps : pyv -> string) (loads : string -> option pyv) version m :
  loads (dumps (generic_code_dict G version (generic_convert G m))) =
    Some (normalise (generic_code_dict G version (generic_convert G m))) ->
  forallb (stmt_ok G) (m_statements G m) = true -> depvars_ok G m ->
  forallb (step_json_ok G) (m_steps G m) = true ->
  forallb (column_json_ok G) (di_columns G (m_datainfo G m)) = true ->
  (forall x, m_iie G m = Some x -> is_json x = true /\ x <> PNone) ->
  generic_roundtrip G dumps loads version m = Some (strip G m).
Proof.
  intros L W D B C I.
  rewrite (generic_image G GOK dumps loads version m L W D).
  - rewrite (generic_convert_id G m). f_equal. apply model_json_stable; try assumption. intros x Hx. apply (I x Hx).
  - intros x Hx. destruct (I x Hx) as [J N]. rewrite (normalise_fix_lemma x J). exact N.
Qed.

(* ------------------------------------------------------------------------------------------ *)
(* dataset bytes of frames of different length                                                 *)
(* ------------------------------------------------------------------------------------------ *)
Lemma split_nth {A} (d : A) : forall (l : list A) n, n < List.length l -> l = (firstn n l ++ nth n l d :: skipn (S n) l)%list.
Proof.
  induction l as [|x l IH]; intros n L; cbn in L; [lia|].
  destruct n as [|n]; [reflexivity|]. cbn. f_equal. apply IH. lia.
Qed.

Section DatasetLength.
Variable rowhash : list cell -> string.
Variable repr_names : list string -> string.
Variable repr_index : index_view -> string.
Variable repr_dtypes : list string -> string.
Hypothesis rowhash_width : forall r, String.length (rowhash r) = 8.

Lemma cat_all_app (a b : list string) : cat_all (a ++ b) = cat_all a ++ cat_all b.
Proof. induction a as [|x a IH]; cbn; [reflexivity|]. fold (cat_all (a ++ b)) (cat_all a). rewrite IH, str_app_assoc. reflexivity. Qed.

Lemma cat_rows_length (l : list (list cell)) : String.length (cat_all (map rowhash l)) = 8 * List.length l.
Proof.
  induction l as [|r l IH]; [reflexivity|]. cbn [map cat_all fold_right List.length]. fold (cat_all (map rowhash l)).
  rewrite append_length, rowhash_width, IH. lia.
Qed.

(* the shorter frame's text starts where the longer frame still has a row hash: the two streams
   differ unless that row hash reads like the beginning of the column-name text *)
Lemma ds_bytes_length_sep f g :
  List.length (f_rows f) < List.length (f_rows g) ->
  (forall x y, rowhash (nth (List.length (f_rows f)) (f_rows g) []) ++ x <> repr_names (f_columns f) ++ y) ->
  ds_bytes rowhash repr_names repr_index repr_dtypes f <> ds_bytes rowhash repr_names repr_index repr_dtypes g.
Proof.
  intros L N E. unfold ds_bytes in E. set (n := List.length (f_rows f)) in *.
  pose proof (split_nth [] (f_rows g) n L) as S.
  rewrite S in E. rewrite map_app, cat_all_app in E. cbn [map cat_all fold_right] in E.
  fold (cat_all (map rowhash (skipn (Datatypes.S n) (f_rows g)))) in E.
  rewrite !str_app_assoc in E.
  apply append_eq_len in E.
  - destruct E as [_ E]. symmetry in E. exact (N _ _ E).
  - rewrite !cat_rows_length. rewrite firstn_length. unfold n. lia.
Qed.
End DatasetLength.

Lemma key_separates_frames_length G dumps digest (H : string -> digest)
      (rowhash : list cell -> string) (repr_names : list string -> string) (repr_index : index_view -> string)
      (repr_dtypes : list string -> string) (f g : frame) (m : model G) :
  (forall r, String.length (rowhash r) = 8) ->
  let bytes := ds_bytes rowhash repr_names repr_index repr_dtypes in
  let d := model_encode G (blank G m) in
  List.length (f_rows f) < List.length (f_rows g) ->
  (forall x y, rowhash (nth (List.length (f_rows f)) (f_rows g) []) ++ x <> repr_names (f_columns f) ++ y) ->
  H_sep H (bytes f ++ dumps d) (bytes g ++ dumps d) ->
  key G dumps digest H (bytes f) m <> key G dumps digest H (bytes g) m.
Proof.
  intros W bytes d L N HS. apply key_separates_dataset; [exact HS|].
  apply (ds_bytes_length_sep rowhash repr_names repr_index repr_dtypes W f g L N).
Qed.

Lemma remove_flow_keeps_guards_thm :
  forall G, engine_ok G -> forall (u v : node G) (g : graph G),
    graph_wf G g = true -> out_first G g = true ->
    graph_wf G (remove_edge G u v g) = true /\ out_first G (remove_edge G u v g) = true /\
    g_nodes G (remove_edge G u v g) = g_nodes G g.
Proof.
  intros G GOK u v g W O. destruct (graph_wf_props G GOK g W) as [ND P]. split; [|split].
  - apply (wfP_graph_wf G GOK). apply wfP_remove_edge. split; assumption.
  - apply out_first_remove_edge. exact O.
  - apply g_nodes_remove_edge.
Qed.
