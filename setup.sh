#!/bin/bash
# setup_cmd: full .vo build (offline, from files on disk only) of the shared libraries and of the
# theory directory of every property claimed in MANIFEST.json.
set -e
here="$(cd "$(dirname "$0")" && pwd)"
cd "$here"
mkdir -p build evidence
export PYTHONPATH="$here"
targets=$(/venv/bin/python - <<'PY'
import json
from pathlib import Path
from harness.lib import core
core.ensure_makefile()
m = json.load(open(core.VERIF / 'MANIFEST.json'))
dirs = ['Base'] + sorted({c['property_id'] for c in m['checks']})
out = []
for d in dirs:
    for p in sorted((core.THEORIES / d).glob('*.v')):
        out.append(str(p.relative_to(core.COQ)) + 'o')
print(' '.join(out))
PY
)
cd coq
timeout 7200 make -j16 --no-print-directory $targets 2>&1 | tail -40
test "${PIPESTATUS[0]}" -eq 0
