#!/bin/bash
# setup_cmd: full .vo build of the whole Coq development (offline), from files on disk only.
set -e
here="$(cd "$(dirname "$0")" && pwd)"
cd "$here"
mkdir -p build evidence
export PYTHONPATH="$here"
/venv/bin/python - <<'PY'
from harness.lib import core
core.ensure_makefile()
PY
cd coq
timeout 7200 make -j16 --no-print-directory 2>&1 | tail -40
test "${PIPESTATUS[0]}" -eq 0
