#!/bin/bash
# tools/integrate.sh Cxx — maintainer helper: run the quick check with two seeds, validate evidence, list theorems.
P=$1
cd /verif
for seed in 0 1; do
  /usr/bin/time -f "wall %e s" env VERIF_SEED=$seed VERIF_JOBS=8 ./check $P --tier quick > build/integrate_${P}_${seed}.log 2>&1
  echo "seed $seed rc=$? $(tail -2 build/integrate_${P}_${seed}.log | tr '\n' ' ' | cut -c1-300)"
  grep -E "^VIOLATION|^KNOWN-FINDING" build/integrate_${P}_${seed}.log | cut -c1-250 | head -8
  /opt/veriftools/pyvenv/bin/python -c "
import json,jsonschema,sys
e=json.load(open('/verif/evidence/$P.json'))
jsonschema.validate(e, json.load(open('/root/.vp/EVIDENCE.schema.json')))
c=e['coverage']
print('evidence valid; level',e['level'],'oblig',c.get('obligations'),'disch',c.get('discharged'),'evals',c.get('evaluations'),'distinct',c.get('distinct_nontrivial'),'wall',e['wall_s'])
print('broken',c.get('broken'))
"
done
echo "--- theorems"; grep -hE "^(Theorem|Example|Lemma)" coq/theories/$P/Properties.v coq/theories/$P/Refuted.v coq/theories/$P/Examples.v 2>/dev/null | cut -c1-150
echo "--- findings"; cat known_findings.d/$P.json 2>/dev/null | python3 -c "
import json,sys
try:
    for f in json.load(sys.stdin)['findings']: print(f['id'], f['status'], '|', f['what_fails'][:160])
except Exception as e: print('none', e)"
