#!/usr/bin/env python3
"""Copy the verified seeded changes from /root/seeded_stash into /verif/seeded/<id>/ with meta.json
(which property it breaks, what it needs to manifest, what was run, how the check reacted)."""
import json, re, shutil
from pathlib import Path
STASH = Path('/root/seeded_stash'); OUT = Path('/verif/seeded'); RES = Path('/verif/build/seedresults')
hist = {}
for line in (Path('/verif/agents_out/SEED_HISTORY.md')).read_text().splitlines():
    m = re.match(r'\|\s*([C0-9,\-\.\s\(\)a-z]+?)\s*\|\s*([^|]*)\|\s*([^|]*)\|', line)
    if not m or not m.group(1).startswith('C'):
        continue
    ids = re.findall(r'C\d\d-\d', m.group(1))
    rng = re.search(r'(C\d\d)-(\d)\.\.(\d)', m.group(1))
    if rng:
        ids += [f'{rng.group(1)}-{k}' for k in range(int(rng.group(2)), int(rng.group(3)) + 1)]
    for i in ids:
        hist[i] = (m.group(2).strip(), m.group(3).strip())
for d in sorted(list(STASH.iterdir()) + [p for p in OUT.iterdir() if p.is_dir()]):
    n = d.name
    dst = OUT / n
    dst.mkdir(parents=True, exist_ok=True)
    for f in ('patch.diff', 'demo.py', 'patch_rebased.diff'):
        if (d / f).exists() and d != dst:
            shutil.copy(d / f, dst / f)
    meta = json.loads((d / 'meta.json').read_text())
    v = meta.get('verified_by_maintainer', {})
    if v and 'confirmed' in v:
        dp, dm = v.get('demo_pristine', ''), v.get('demo_with_patch', '')
        v['confirmed'] = dp.strip().endswith('PASS') and not dm.strip().endswith('PASS') and v.get('tests_pristine') == v.get('tests_with_patch')
    r = RES / f'{n}.txt'
    final = r.read_text().strip() if r.exists() else 'not run at the frozen HEAD'
    if 'NOAPPLY' in final:
        final += ' (the seeded change no longer applies at the frozen /repo HEAD: a later fix: commit rewrote the function it mutates; it was run and caught at the HEAD it was written against)'
    first, added = hist.get(n, ('', ''))
    meta['breaks_property'] = n.split('-')[0]
    meta['check_cmd'] = f"git -C /repo apply seeded/{n}/{'patch_rebased.diff' if (dst / 'patch_rebased.diff').exists() else 'patch.diff'} && ./check {n.split('-')[0]} --tier quick; git -C /repo checkout -- .   (tools/seedtest_final.sh runs the same in an isolated worktree via VERIF_REPO)"
    meta['first_run_of_the_check'] = first or meta.get('detected_by', '')
    meta['strengthening_after_first_run'] = added
    meta['final_run_at_frozen_head'] = final
    if (dst / 'patch_rebased.diff').exists():
        meta['note_rebased'] = 'patch.diff is the producer\'s patch against the commit it was written for; patch_rebased.diff is the same change rebased by the maintainer onto the frozen HEAD'
    round2 = n.split('-')[0] in ('C13', 'C14', 'C15', 'C18')
    meta['independence'] = ('second independent round (kept outside /verif while builders worked)' if round2 and int(n.split('-')[1]) >= 4 else
                            ('first round; these patches were visible under /verif/seeded while the builder of this property was still working, so a second independent round (ids 4-6) was run' if round2 else 'producer saw nothing of /verif'))
    k = int(n.split('-')[1])
    if (round2 and k == 7) or (not round2 and k == 4):
        meta['independence'] = ('third round: one fresh change per property, produced after extension round 2 and Phase 3C and run against the '
                                'final checks; the producer saw only the property text, nothing of /verif; kept outside /verif until tested')
    (dst / 'meta.json').write_text(json.dumps(meta, indent=1) + '\n')
    print(n, '|', (first or '-')[:40], '|', final[:90])
