#!/usr/bin/env python3
"""tools/merge.py Cxx [Cyy ...] — maintainer helper: merge known_findings.d/Cxx.json into known_findings.json and add the
MANIFEST check entry using the 'Proposed MANIFEST text' section of agents_out/Cxx.md (text / level_note in double quotes)."""
import json, re, sys
from pathlib import Path
V = Path('/verif')
kf = json.loads((V / 'known_findings.json').read_text())
man = json.loads((V / 'MANIFEST.json').read_text())
FO = '--findings-only' in sys.argv
for P in [a for a in sys.argv[1:] if not a.startswith('--')]:
    st = V / 'known_findings.d' / f'{P}.json'
    if st.exists():
        new = json.loads(st.read_text()); new = new['findings'] if isinstance(new, dict) else new
        ids = {f['id'] for f in new}
        kf['findings'] = [f for f in kf['findings'] if f['id'] not in ids] + new
        st.unlink()
    if FO:
        print(P, 'findings merged'); continue
    rep = (V / 'agents_out' / f'{P}.md').read_text()
    low = rep.lower(); idx = max(low.find('proposed manifest'), low.find('manifest proposal'), low.find('manifest text'), low.find('manifest entry')); sec = rep[idx:] if idx >= 0 else rep[low.find('level_claimed'):]
    sec = re.sub(r'\s*\n\s*', ' ', sec)
    i1 = sec.find('level_claimed'); i2 = sec.find('level_note')
    c1 = re.findall(r'"(.*?)"', sec[i1:i2 if i2 > i1 else None], flags=re.S) if i1 >= 0 else []
    c2 = re.findall(r'"(.*?)"', sec[i2:i2 + 4000], flags=re.S) if i2 >= 0 else []
    text = max(c1, key=len).strip() if c1 else None
    note = c2[0].strip() if c2 else None
    if not text or not note:
        print(P, 'could not parse proposed text; fill in by hand'); text = text or 'TODO'; note = note or 'TODO'
    entry = {
        'property_id': P, 'quick_cmd': f'./check {P} --tier quick', 'thorough_cmd': f'./check {P} --tier thorough',
        'evidence_file': f'evidence/{P}.json', 'replay_cmd_template': f'./check {P} --replay {{path}}', 'engine': 'coq',
        'level_claimed': {'category': 'proof', 'text': text, 'design_ref': f'DESIGN.md sections 6 and 10, {P}'},
        'level_note': note,
        'technique': 'machine-checked proof in Coq (theorems over an executable model) + in-Coq correspondence (vm_compute) against the implementation',
    }
    man['checks'] = sorted([c for c in man['checks'] if c['property_id'] != P] + [entry], key=lambda c: c['property_id'])
    man['not_applicable'] = [n for n in man.get('not_applicable', []) if n['property_id'] != P]
    for e in man['engines']:
        if P not in e['serves_properties']:
            e['serves_properties'] = sorted(e['serves_properties'] + [P])
    print(P, 'merged;', len(text), 'chars text')
(V / 'known_findings.json').write_text(json.dumps(kf, indent=1) + '\n')
(V / 'MANIFEST.json').write_text(json.dumps(man, indent=1) + '\n')
