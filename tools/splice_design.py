#!/usr/bin/env python3
"""tools/splice_design.py — maintainer helper: rebuild the tail of DESIGN.md (from '### C01 (built)' to the end: per-property
subsections, sections 11–13) from agents_out/DESIGN_section10_draft.md, refresh the status paragraph numbers, and replace the
seed markers in the per-property subsections by the final seed results from build/seedresults/*.txt."""
import collections, glob, json, re, subprocess
from pathlib import Path
V = Path('/verif')
D = V / 'DESIGN.md'
s = D.read_text()
draft = (V / 'agents_out/DESIGN_section10_draft.md').read_text()
k = json.loads((V / 'known_findings.json').read_text())['findings']
n_open = sum(f['status'] == 'open' for f in k); n_fixed = sum(f['status'] == 'fixed' for f in k)
obl = sum(json.load(open(f))['coverage'].get('obligations', 0) for f in glob.glob(str(V / 'evidence/C*.json')))
head = subprocess.run(['git', '-C', '/repo', 'rev-parse', '--short', 'HEAD'], capture_output=True, text=True).stdout.strip()
nfix = int(subprocess.run('git -C /repo log --oneline | grep -c " fix:"', shell=True, capture_output=True, text=True).stdout)
# status paragraph
i = s.index('Status: '); j = s.index('The framework of sections 1–5 exists')
s = s[:i] + (f"Status: final — all 20 properties are claimed in MANIFEST.json; `/repo` carries {nfix} `fix:` commits (79 from the two Phase-3 "
             f"batches, 8 from Phase 3C after extension round 2) and is frozen at `{head}`; `known_findings.json` lists {n_fixed} fixed and "
             f"{n_open} open findings; the 20 checks discharge {obl} proof obligations in the quick tier.  ") + s[j:]
# tail
t = s.index('### C01 (built)')
tail = draft[draft.index('### C01 (built)'):]
tail = tail.replace('## 11. Trusted base as built', '## 11. Trusted base as built (supersedes section 4 where they differ)', 1)
tail = re.sub(r'^## 12\. Partial coverage[^\n]*', '## 12. Partial coverage as built (supersedes section 7)', tail, count=1, flags=re.M)
tail = re.sub(r'^## 13\. All findings[^\n]*', '## 13. Defects found: every known finding, open or repaired (supersedes section 9)', tail, count=1, flags=re.M)
s = s[:t] + tail
# seed sentences
res = {}
for f in sorted(glob.glob(str(V / 'build/seedresults/*.txt'))):
    txt = Path(f).read_text().strip(); n = Path(f).stem
    res.setdefault(n.split('-')[0], []).append((n, txt))


def sent(P):
    parts = []
    for n, txt in res.get(P, []):
        if 'NOAPPLY' in txt:
            parts.append(f'{n} no longer applies (mutated function rewritten by a later fix)')
        else:
            m = re.search(r'rc=(\d+) violations=(\d+) with_input=(\d+)', txt)
            parts.append(f'{n} rc={m.group(1)}, {m.group(3)}/{m.group(2)} with input')
    return (f'Final run at `{head}` against the final checks: ' + '; '.join(parts) +
            ' (result line and what was reported in `seeded/<id>/meta.json`).')


pat = re.compile(r'\(to be re-run against the final checks;\s+final table in\s+seeded/<id>/meta\.json\)')
heads = [(m.start(), m.group(1)) for m in re.finditer(r'^### (C\d\d) \(', s, flags=re.M)]
new = s[:heads[0][0]]
for (st, P), (en, _) in zip(heads, heads[1:] + [(len(s), None)]):
    new += pat.sub(lambda m: sent(P), s[st:en])
D.write_text(new)
print('DESIGN.md', len(new.splitlines()), 'lines;', n_open, 'open', n_fixed, 'fixed', obl, 'obligations', head, nfix, 'fix commits; markers left:',
      len(pat.findall(new)))
