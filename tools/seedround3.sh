#!/bin/bash
# tools/seedround3.sh Cxx — maintainer: confirm the round-3 seeded change in /tmp/seed_Cxx (tools/verifyseed2.sh), store it as the
# next free id under /root/seeded_stash, run the quick check against it (tools/seedtest_final.sh), remove the scratch worktree.
P=$1
cd /verif
n=$(ls -d /root/seeded_stash/$P-* 2>/dev/null | wc -l)
[ -f /tmp/seed_${P}_out/1/patch.diff ] || { echo "$P: no patch"; exit 1; }
KOFF=$n tools/verifyseed2.sh $P 2>&1 | grep -v WARNING
git -C /repo worktree remove --force /tmp/seed_$P 2>/dev/null
tools/seedtest_final.sh $P 2>&1 | grep -v WARNING
rm -rf /tmp/seed_${P}_out
