#!/bin/bash
# tools/verifyseed.sh Cxx — maintainer: confirm each seeded change in the scratch worktree /tmp/seed_Cxx
# (demo passes pristine / fails patched; pinned test counts identical), then store it under /root/seeded_stash/Cxx-k/.
P=$1
W=/tmp/seed_$P
T="tests/model tests/basic tests/internals tests/config tests/deps tests/cli"
cd $W || exit 1
git checkout -q -- .
base=$(PYTHONPATH=$W/src timeout 1500 /venv/bin/python -m pytest -q -p no:cacheprovider --timeout=900 --continue-on-collection-errors $T 2>&1 | tail -1)
echo "pristine tests: $base"
for k in 1 2 3; do
  d=${SEEDDIR:-/tmp/seed_${P}_out}/$k
  [ -f $d/patch.diff ] || continue
  dp=$(cd $d && PYTHONPATH=$W/src timeout 120 /venv/bin/python demo.py 2>&1 | tail -1)
  git apply $d/patch.diff || { echo "$P-$k: patch does not apply"; continue; }
  dm=$(cd $d && PYTHONPATH=$W/src timeout 120 /venv/bin/python demo.py 2>&1 | tail -1)
  tm=$(PYTHONPATH=$W/src timeout 1500 /venv/bin/python -m pytest -q -p no:cacheprovider --timeout=900 --continue-on-collection-errors $T 2>&1 | tail -1)
  git checkout -q -- .
  echo "$P-$k demo pristine=[$dp] patched=[$dm] tests patched: $tm"
  mkdir -p /root/seeded_stash/$P-$((k+${KOFF:-0}))
  cp $d/patch.diff $d/demo.py /root/seeded_stash/$P-$((k+${KOFF:-0}))/
  python3 - "$d/meta.json" "/root/seeded_stash/$P-$((k+${KOFF:-0}))/meta.json" "$dp" "$dm" "$base" "$tm" "$P" <<'PY'
import json, sys, re
src, dst, dp, dm, base, tm, P = sys.argv[1:8]
m = json.load(open(src))
strip = lambda s: re.sub(r' in [0-9.]+s.*', '', s)
m['breaks_property'] = P
m['verified_by_maintainer'] = {'demo_pristine': dp, 'demo_with_patch': dm, 'tests_pristine': strip(base), 'tests_with_patch': strip(tm),
    'tests_cmd': 'pytest --continue-on-collection-errors tests/model tests/basic tests/internals tests/config tests/deps tests/cli (in a scratch worktree)',
    'confirmed': dp.strip().endswith('PASS') and dm.strip().endswith('FAIL') and strip(base) == strip(tm)}
json.dump(m, open(dst, 'w'), indent=1)
print('   confirmed' if m['verified_by_maintainer']['confirmed'] else '   NOT CONFIRMED')
PY
done
