#!/bin/bash
# tools/seedtest.sh Cxx [--inplace] — run the quick check against each seeded change.
# Default: in an isolated scratch worktree of /repo HEAD (VERIF_REPO), so that checks other people run against
# /repo at the same time are not disturbed.  --inplace: apply to /repo itself and undo (the final confirmation).
P=$1; MODE=$2
cd /verif
SRC=/tmp/seed_${P}_out; [ -d $SRC ] || SRC=/root/seeded_stash
for k in 1 2 3; do
  if [ -n "$SEEDDIR" ]; then d=$SEEDDIR/$k; elif [ -d /tmp/seed_${P}_out/$k ]; then d=/tmp/seed_${P}_out/$k; elif [ -d /verif/seeded/$P-$k ]; then d=/verif/seeded/$P-$k; else d=/root/seeded_stash/$P-$k; fi
  [ -f $d/patch.diff ] || continue
  if [ "$MODE" = "--inplace" ]; then
    git -C /repo apply --check $d/patch.diff 2>/dev/null || { echo "seed $P-$k: patch does not apply"; continue; }
    git -C /repo apply $d/patch.diff
    VERIF_JOBS=8 ./check $P --tier quick > build/seedtest_${P}_$k.log 2>&1; rc=$?
    git -C /repo checkout -- .
  else
    W=/tmp/seedtest_wt_$P
    [ -d $W ] || git -C /repo worktree add -q --detach $W HEAD
    git -C $W checkout -q --detach $(git -C /repo rev-parse HEAD); git -C $W checkout -q -- .
    git -C $W apply --check $d/patch.diff 2>/dev/null || { echo "seed $P-$k: patch does not apply"; continue; }
    git -C $W apply $d/patch.diff
    VERIF_REPO=$W VERIF_JOBS=8 ./check $P --tier quick > build/seedtest_${P}_$k.log 2>&1; rc=$?
    git -C $W checkout -q -- .
  fi
  echo "seed $P-$k rc=$rc  $(grep -c '^VIOLATION' build/seedtest_${P}_$k.log) violation lines; $(grep -E '^\[.*->' build/seedtest_${P}_$k.log | head -2 | cut -c1-200 | tr '\n' '|')"
done
[ "$MODE" = "--inplace" ] || git -C /repo worktree remove --force /tmp/seedtest_wt_$P 2>/dev/null
git -C /repo status --short | head -3
