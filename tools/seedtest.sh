#!/bin/bash
# tools/seedtest.sh Cxx — apply each /tmp/seed_Cxx_out/k/patch.diff to /repo, run the quick check, undo.
P=$1
cd /verif
for k in 1 2 3; do
  d=/tmp/seed_${P}_out/$k
  [ -f $d/patch.diff ] || continue
  if git -C /repo apply --check $d/patch.diff 2>/dev/null; then
    git -C /repo apply $d/patch.diff
    VERIF_JOBS=8 ./check $P --tier quick > build/seedtest_${P}_$k.log 2>&1
    rc=$?
    git -C /repo checkout -- .
    echo "seed $P-$k rc=$rc  $(grep -c '^VIOLATION' build/seedtest_${P}_$k.log) violation lines; $(grep -E '^\[.*->' build/seedtest_${P}_$k.log | head -2 | cut -c1-220 | tr '\n' '|')"
  else
    echo "seed $P-$k: patch does not apply to current /repo HEAD"
  fi
done
git -C /repo status --short | head -3
