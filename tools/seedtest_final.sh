#!/bin/bash
# tools/seedtest_final.sh Cxx — run the quick check against every stored seeded change of the property
# (from /root/seeded_stash or /verif/seeded), in an isolated worktree of /repo HEAD; results in build/seedresults/.
P=$1
cd /verif; mkdir -p build/seedresults
W=/tmp/seedfinal_wt_$P
[ -d $W ] || git -C /repo worktree add -q --detach $W HEAD
HEAD=$(git -C /repo rev-parse --short HEAD)
for d in $(ls -d /root/seeded_stash/$P-* /verif/seeded/$P-* 2>/dev/null | sort -u); do
  n=$(basename $d)
  [ -z "$FORCE" ] && [ -f build/seedresults/$n.txt ] && grep -q "head=$HEAD" build/seedresults/$n.txt && continue
  pf=$d/patch.diff; [ -f $d/patch_rebased.diff ] && pf=$d/patch_rebased.diff
  git -C $W checkout -q --detach $(git -C /repo rev-parse HEAD); git -C $W checkout -q -- .
  if ! git -C $W apply --check $pf 2>/dev/null; then echo "$n head=$HEAD result=NOAPPLY" > build/seedresults/$n.txt; echo "$n NOAPPLY"; continue; fi
  git -C $W apply $pf
  cp evidence/$P.json build/seedresults/.evidence_$P.bak 2>/dev/null   # the evidence file describes runs on /repo, not on seeded copies
  VERIF_REPO=$W VERIF_JOBS=6 ./check $P --tier quick > build/seedresults/$n.log 2>&1; rc=$?
  cp build/seedresults/.evidence_$P.bak evidence/$P.json 2>/dev/null
  git -C $W checkout -q -- .
  nv=$(grep -c '^VIOLATION' build/seedresults/$n.log); ni=$(grep '^VIOLATION' build/seedresults/$n.log | grep -vc 'no-failing-input-found')
  what=$(grep -E '^\[.*->' build/seedresults/$n.log | head -1 | sed 's/^\[[^]]*\] *-> *//' | cut -c1-160)
  echo "$n head=$HEAD rc=$rc violations=$nv with_input=$ni patch=$(basename $pf) what=$what" > build/seedresults/$n.txt
  cat build/seedresults/$n.txt | cut -c1-200
done
git -C /repo worktree remove --force $W 2>/dev/null
