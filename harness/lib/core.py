"""Shared machinery of every check: build gate, grep gate, Print Assumptions gate, running generated
case files through coqc (vm_compute), verdicts, known findings, evidence."""
import fcntl
import hashlib
import json
import os
import random
import re
import subprocess
import sys
import time
from concurrent.futures import ThreadPoolExecutor
from pathlib import Path

VERIF = Path(__file__).resolve().parents[2]
REPO = Path(os.environ.get('VERIF_REPO', '/repo'))
COQ = VERIF / 'coq'
BUILD = VERIF / 'build'
THEORIES = COQ / 'theories'
JOBS = int(os.environ.get('VERIF_JOBS', '12'))

# Standard-library axioms that are allowed to appear under Print Assumptions (DESIGN.md section 4).
ALLOWED_AXIOMS = {
    'ClassicalDedekindReals.sig_forall_dec',
    'ClassicalDedekindReals.sig_not_dec',
    'FunctionalExtensionality.functional_extensionality_dep',
    'functional_extensionality_dep',
    'sig_forall_dec',
    'sig_not_dec',
    'Classical_Prop.classic',
    'classic',
    'Eqdep.Eq_rect_eq.eq_rect_eq',
    'Eq_rect_eq.eq_rect_eq',
    'eq_rect_eq',
    'JMeq.JMeq_eq',
    'JMeq_eq',
    'ProofIrrelevance.proof_irrelevance',
    'proof_irrelevance',
    'PropExtensionality.propositional_extensionality',
}

FORBIDDEN = re.compile(
    r'\b(Admitted|admit|Axiom|Axioms|Parameter|Parameters|Conjecture|Conjectures|give_up)\b'
    r'|Unset\s+Guard|bypass_check|type-in-type|impredicative-set|Admit\s+Obligations'
    r'|Unset\s+Positivity|Unset\s+Universe\s+Checking|native_compute'
)


def strip_comments(text):
    out = []
    depth = 0
    i = 0
    n = len(text)
    while i < n:
        if text.startswith('(*', i):
            depth += 1
            i += 2
        elif text.startswith('*)', i) and depth > 0:
            depth -= 1
            i += 2
        else:
            if depth == 0:
                out.append(text[i])
            elif text[i] == '\n':
                out.append('\n')
            i += 1
    return ''.join(out)


def grep_gate(files):
    """No forbidden construct, and no Variable/Hypothesis outside a Section."""
    problems = []
    for f in files:
        text = strip_comments(Path(f).read_text())
        for m in FORBIDDEN.finditer(text):
            line = text.count('\n', 0, m.start()) + 1
            problems.append(f"{f}:{line}: forbidden '{m.group(0)}'")
        depth = 0
        for ln, line in enumerate(text.split('\n'), 1):
            s = line.strip()
            if re.match(r'Section\s+\w+\s*\.', s):
                depth += 1
            elif re.match(r'End\s+\w+\s*\.', s) and depth > 0:
                depth -= 1
            elif depth == 0 and re.match(r'(Variable|Variables|Hypothesis|Hypotheses|Context)\b', s):
                problems.append(f"{f}:{ln}: '{s.split()[0]}' outside a Section")
    return problems


THEOREM_RE = re.compile(r'^\s*(?:Theorem|Lemma|Example|Corollary|Fact|Proposition)\s+([A-Za-z_][\w\']*)', re.M)


def theorem_names(vfile):
    return THEOREM_RE.findall(strip_comments(Path(vfile).read_text()))


def sh(cmd, timeout=1800, cwd=None, env=None):
    try:
        p = subprocess.run(cmd, stdout=subprocess.PIPE, stderr=subprocess.STDOUT, timeout=timeout,
                           cwd=cwd, env=env, text=True, errors='replace')
        return p.returncode, p.stdout
    except subprocess.TimeoutExpired as e:
        out = e.stdout if isinstance(e.stdout, str) else (e.stdout or b'').decode(errors='replace')
        return 124, out + '\nTIMEOUT'


def ensure_makefile():
    BUILD.mkdir(exist_ok=True)
    vfiles = sorted(str(p.relative_to(COQ)) for p in THEORIES.rglob('*.v'))
    header = (COQ / '_CoqProject.in').read_text()
    want = header + '\n'.join(vfiles) + '\n'
    proj = COQ / '_CoqProject'
    if not proj.exists() or proj.read_text() != want or not (COQ / 'Makefile').exists():
        proj.write_text(want)
        rc, out = sh(['coq_makefile', '-f', '_CoqProject', '-o', 'Makefile'], cwd=COQ)
        if rc != 0:
            raise RuntimeError('coq_makefile failed: ' + out)


def coq_make(targets, timeout=3000):
    """Full .vo build of the given targets (paths relative to coq/), serialised by a lock."""
    BUILD.mkdir(exist_ok=True)
    with open(BUILD / '.make.lock', 'w') as lk:
        fcntl.flock(lk, fcntl.LOCK_EX)
        ensure_makefile()
        rc, out = sh(['make', '-j', str(JOBS), '--no-print-directory'] + list(targets), cwd=COQ, timeout=timeout)
    return rc == 0, out


def coqc_file(path, timeout=900, extra_q=()):
    cmd = ['coqc', '-Q', str(THEORIES), 'PV']
    for (d, n) in extra_q:
        cmd += ['-Q', str(d), n]
    cmd += ['-w', '-notation-overridden,-ambiguous-paths,-deprecated-hint-without-locality', str(path)]
    env = dict(os.environ)
    return sh(['bash', '-c', 'ulimit -s unlimited 2>/dev/null; exec "$@"', 'x'] + cmd, timeout=timeout, env=env)


def print_assumptions(rundir, modules, qualified_names):
    """Returns {name: 'closed' | [axioms]} by one coqc run."""
    f = Path(rundir) / 'assum.v'
    lines = [f"From PV Require Import {' '.join(modules)}."]
    for qn in qualified_names:
        lines.append(f'Print Assumptions {qn}.')
    f.write_text('\n'.join(lines) + '\n')
    rc, out = coqc_file(f)
    if rc != 0:
        return None, out
    blocks = re.split(r'^(?=Closed under the global context|Axioms:)', out, flags=re.M)
    blocks = [b for b in blocks if b.startswith('Closed under') or b.startswith('Axioms:')]
    res = {}
    if len(blocks) != len(qualified_names):
        return None, f'expected {len(qualified_names)} blocks, got {len(blocks)}:\n{out}'
    for qn, b in zip(qualified_names, blocks):
        if b.startswith('Closed under'):
            res[qn] = 'closed'
        else:
            axs = re.findall(r'^([A-Za-z_][\w\.\']*)\s*:', b, flags=re.M)
            res[qn] = [a for a in axs if a != 'Axioms']     # the block header "Axioms:" is not an axiom
    return res, out


def parse_nested_nat_lists(text):
    """Parse the value printed by `Eval vm_compute in (...)` of type list (list nat) or list nat."""
    m = re.search(r'=\s*(.*?)\n\s*:\s*list', text, flags=re.S)
    if not m:
        raise ValueError('no result in coqc output: ' + text[-2000:])
    s = re.sub(r'%nat', '', m.group(1))
    s = re.sub(r'\s+', '', s).replace(';', ',')
    if not re.fullmatch(r'[\[\],0-9]*', s):
        raise ValueError('unexpected result text: ' + s[:500])
    return json.loads(s)


class Ctx:
    def __init__(self, prop, tier, seed):
        self.prop = prop
        self.tier = tier
        self.seed = seed
        self.rng = random.Random(f'{prop}-{seed}')
        self.t0 = time.time()
        self.rundir = BUILD / 'run' / f'{prop}-{os.getpid()}'
        self.rundir.mkdir(parents=True, exist_ok=True)
        self.replaydir = BUILD / 'replay'
        self.replaydir.mkdir(parents=True, exist_ok=True)
        self.violations = []
        self.known_printed = []
        self.coverage = {'evaluations': 0, 'distinct_nontrivial': 0, 'samples': []}
        self.obligations = 0
        self.discharged = 0
        self.trusted = []
        self.assumptions = []
        self.broken = []       # names of theorems / correspondences that no longer check
        self.notes = []
        self._nrep = 0
        kf = VERIF / 'known_findings.json'
        allf = list(json.loads(kf.read_text())['findings']) if kf.exists() else []
        for extra in sorted((VERIF / 'known_findings.d').glob('*.json')):   # staging area, merged by hand
            d = json.loads(extra.read_text())
            allf += d['findings'] if isinstance(d, dict) else d
        self.findings = [f for f in allf if f['property'] == prop]

    # ---- logging
    def log(self, *a):
        print(f'[{self.prop} {time.time() - self.t0:6.1f}s]', *a, flush=True)

    # ---- verdicts
    def violation(self, what, replay, no_input=False):
        # at most 3 reported violations per distinct description; the rest are only counted
        self._seen = getattr(self, '_seen', {})
        self._seen[what] = self._seen.get(what, 0) + 1
        if self._seen[what] > 3:
            self.coverage['suppressed_duplicate_violations'] = self.coverage.get('suppressed_duplicate_violations', 0) + 1
            return
        self._nrep += 1
        path = self.replaydir / f'{self.prop}-{os.getpid()}-{self._nrep}.json'
        replay = dict(replay)
        replay.setdefault('property', self.prop)
        replay.setdefault('what', what)
        replay.setdefault('replay_cmd', f'./check {self.prop} --replay {path}')
        path.write_text(json.dumps(replay, indent=1, default=str))
        self.violations.append({'what': what, 'replay': str(path), 'no_input': no_input})
        tail = ' no-failing-input-found' if no_input else ''
        print(f'VIOLATION property={self.prop} replay={path}{tail}', flush=True)
        self.log('  ->', what)

    def open_finding(self, fid):
        for f in self.findings:
            if f['id'] == fid and f.get('status') == 'open':
                return f
        return None

    def known(self, fid, what=None):
        f = self.open_finding(fid)
        assert f is not None, fid
        if fid not in self.known_printed:
            self.known_printed.append(fid)
            print(f"KNOWN-FINDING: property={self.prop} {fid}: {what or f['what_fails']}", flush=True)

    # ---- gates
    def build_gate(self, prop_dirs, extra_vfiles=()):
        """make the .vo of every .v under the property's theory directories; grep gate; assumptions."""
        vfiles = []
        for d in prop_dirs:
            vfiles += sorted((THEORIES / d).glob('*.v'))
        base = sorted((THEORIES / 'Base').glob('*.v'))
        problems = grep_gate(vfiles + base + list(extra_vfiles))
        for p in problems:
            self.log('GREP-GATE', p)
        targets = [str(p.relative_to(COQ)) + 'o' for p in vfiles]
        ok, out = coq_make(targets)
        (self.rundir / 'make.log').write_text(out)
        thms = []
        for p in vfiles:
            if p.name in ('Properties.v', 'Refuted.v', 'Examples.v'):
                mod = 'PV.' + '.'.join(p.relative_to(THEORIES).with_suffix('').parts)
                thms += [(mod, n) for n in theorem_names(p)]
        self.obligations += len(thms)
        if problems:
            self.broken.append('grep-gate: ' + '; '.join(problems))
        if not ok:
            m = re.search(r'File "([^"]+)", line (\d+).*?\nError:(.*?)(?:\n\n|\Z)', out, flags=re.S)
            where = f'{m.group(1)}:{m.group(2)}:{m.group(3).strip()[:300]}' if m else out[-600:]
            self.broken.append('coq build failed: ' + where)
            self.log('BUILD FAILED', where)
            return False
        mods = sorted({m for m, _ in thms})
        if thms:
            res, raw = print_assumptions(self.rundir, [m[3:] for m in mods], [f'{m}.{n}' for m, n in thms])
            if res is None:
                self.broken.append('Print Assumptions failed: ' + raw[-400:])
                return False
            used = set()
            for qn, r in res.items():
                if r == 'closed':
                    self.discharged += 1
                else:
                    bad = [a for a in r if a not in ALLOWED_AXIOMS and a.split('.')[-1] not in ALLOWED_AXIOMS]
                    if bad:
                        self.broken.append(f'{qn} depends on non-allowed axioms {bad}')
                    else:
                        self.discharged += 1
                        used.update(r)
            self.trusted.append('Coq 8.16.1 kernel + vm_compute (no native_compute); coqc full .vo build')
            if used:
                self.trusted.append('standard-library axioms reported by Print Assumptions: ' + ', '.join(sorted(used)))
            else:
                self.trusted.append('Print Assumptions: all property theorems closed under the global context')
            self.coverage['theorems'] = [f'{m}.{n}' for m, n in thms]
        if self.tier == 'thorough' and mods and os.environ.get('VERIF_NO_COQCHK') != '1':
            self.run_coqchk(mods)
        return not problems

    def run_coqchk(self, mods):
        """Independent re-check of the compiled property files (and everything they depend on)."""
        rc, out = sh(['coqchk', '-o', '-silent', '-Q', str(THEORIES), 'PV'] + list(mods), timeout=2400, cwd=COQ)
        (self.rundir / 'coqchk.log').write_text(out)
        summary = out[out.find('CONTEXT SUMMARY'):] if 'CONTEXT SUMMARY' in out else out[-800:]
        m = re.search(r'\* Axioms:(.*?)\n\s*\n\* Constants/Inductives relying on type-in-type:(.*?)\n\s*\n'
                      r'\* Constants/Inductives relying on unsafe \(co\)fixpoints:(.*?)\n\s*\n'
                      r'\* Inductives whose positivity is assumed:(.*?)\n', summary + '\n', flags=re.S)
        info = {'rc': rc}
        if m:
            axioms = [a.strip() for a in m.group(1).strip().split('\n') if a.strip() and a.strip() != '<none>']
            info.update({'axioms': axioms, 'type_in_type': m.group(2).strip(), 'unsafe_fix': m.group(3).strip(),
                         'assumed_positivity': m.group(4).strip()})
            bad = [a for a in axioms if a not in ALLOWED_AXIOMS and a.split('.')[-1] not in ALLOWED_AXIOMS]
            if rc != 0 or bad or any(info[k] != '<none>' for k in ('type_in_type', 'unsafe_fix', 'assumed_positivity')):
                self.broken.append(f'coqchk: rc={rc} non-allowed axioms {bad} / unsafe flags {info}')
            self.trusted.append('coqchk -o (independent checker) on the Properties/Refuted/Examples modules: axioms '
                                + (', '.join(axioms) if axioms else '<none>'))
        else:
            self.broken.append('coqchk: could not parse summary: ' + summary[-300:])
        self.coverage['coqchk'] = info

    # ---- running case files
    def run_cases(self, name, imports, case_type, cases, verdict, shard=250, timeout=900, prelude=''):
        """cases: list of Gallina terms of type case_type; verdict: Gallina function case_type -> list nat.
        Returns list (one per case) of lists of nat codes."""
        d = self.rundir / name
        d.mkdir(parents=True, exist_ok=True)
        files = []
        for k in range(0, len(cases), shard):
            f = d / f'cases_{k // shard}.v'
            body = ';\n'.join(cases[k:k + shard])
            f.write_text(
                'From Coq Require Import QArith ZArith NArith List Bool PArith.\n'
                f'From PV Require Import {imports}.\nImport ListNotations.\n{prelude}\n'
                f'Definition cases : list ({case_type}) := [\n{body}\n].\n'
                f'Eval vm_compute in (map ({verdict}) cases).\n')
            files.append((f, min(shard, len(cases) - k)))
        results = [None] * len(files)

        def one(i):
            f, n = files[i]
            rc, out = coqc_file(f, timeout=timeout)
            if rc != 0:
                return ('error', out[-3000:])
            try:
                r = parse_nested_nat_lists(out)
            except ValueError as e:
                return ('error', str(e))
            if len(r) != n:
                return ('error', f'expected {n} verdicts, got {len(r)}')
            return ('ok', r)

        with ThreadPoolExecutor(max_workers=JOBS) as ex:
            for i, r in enumerate(ex.map(one, range(len(files)))):
                results[i] = r
        out = []
        for (f, n), (st, r) in zip(files, results):
            if st == 'error':
                raise RuntimeError(f'coqc failed on {f}: {r}')
            out += r
        return out

    # ---- evidence
    def finish(self, level='proof', checker_cmd=None):
        cov = self.coverage
        cov['obligations'] = self.obligations
        cov['discharged'] = self.discharged
        cov['checker_cmd'] = checker_cmd or (
            'make -C /verif/coq (coqc 8.16.1 full .vo build) ; coqc assum.v (Print Assumptions per theorem) ; '
            'coqc cases_k.v (Eval vm_compute of the model against implementation observations)')
        cov['trusted_base'] = self.trusted
        cov['known_findings_printed'] = self.known_printed
        cov['broken'] = self.broken
        cov['notes'] = self.notes
        cov['samples'] = cov['samples'][:6]
        ev = {
            'property_id': self.prop, 'tier': self.tier, 'seed': self.seed, 'level': level,
            'coverage': cov, 'assumptions': self.assumptions,
            'wall_s': round(time.time() - self.t0, 2), 'violations': len(self.violations),
        }
        (VERIF / 'evidence').mkdir(exist_ok=True)
        (VERIF / 'evidence' / f'{self.prop}.json').write_text(json.dumps(ev, indent=1, default=str) + '\n')
        self.log(f"obligations {self.obligations} discharged {self.discharged}; evaluations {cov['evaluations']}; "
                 f"violations {len(self.violations)}; known {self.known_printed}")
        # generated case files and coqc output are large (1-2 GB per run): drop them unless asked to keep;
        # replay files live in build/replay and do not depend on the run directory
        if os.environ.get('VERIF_KEEP_RUN') != '1' and not self.violations:
            import shutil
            shutil.rmtree(self.rundir, ignore_errors=True)
        return 1 if self.violations else 0


def source_sha(*relpaths):
    h = hashlib.sha256()
    for r in relpaths:
        h.update((REPO / r).read_bytes())
    return h.hexdigest()[:16]
