"""Printers: Python values -> Gallina terms (text).  Part of the trusted base of the correspondence."""
from fractions import Fraction


def pos(n):
    assert isinstance(n, int) and n >= 1, n
    return f"{n}%positive"


def nat(n):
    assert isinstance(n, int) and 0 <= n < 5000, n
    return f"{n}%nat"


def z(n):
    assert isinstance(n, int)
    return f"({n})%Z"


def q(x):
    x = Fraction(x)
    return f"({x.numerator}#{x.denominator})%Q"


def boolean(b):
    return "true" if b else "false"


def lst(items):
    return "[" + "; ".join(items) + "]"


def opt(x):
    return "None" if x is None else f"(Some {x})"


def pair(a, b):
    return f"({a}, {b})"


def tup(*xs):
    return "(" + ", ".join(xs) + ")"


def string_codes(s):
    """A Python str as list N of code points."""
    return lst([f"{ord(c)}%N" for c in s])


class Names:
    """Bijection between Python names and positive identifiers, stable within one case."""

    def __init__(self, start=1):
        self.ids = {}
        self.rev = {}
        self.next = start

    def get(self, name):
        name = str(name)
        if name not in self.ids:
            self.ids[name] = self.next
            self.rev[self.next] = name
            self.next += 1
        return self.ids[name]

    def p(self, name):
        return pos(self.get(name))

    def name(self, i):
        return self.rev[i]
