"""sympy / pharmpy Expr -> PV.Base.Expr term.  Fail-closed: an unknown node raises Unconvertible
and the case is skipped and counted, never approximated.  Function ids mirror Base/Interp.v."""
from fractions import Fraction

import sympy
from sympy.core.function import AppliedUndef
from sympy.core.relational import Relational
from sympy.logic.boolalg import And, BooleanFalse, BooleanTrue, Not, Or

from . import coqterm as ct

FUNC_IDS = {
    'exp': 1, 'log': 2, 'sqrt': 3, 'Abs': 4, 'pow': 5, 'floor': 6, 'sign': 7, 'Mod': 8,
    'sin': 9, 'cos': 10, 'tan': 11, 'asin': 12, 'acos': 13, 'atan': 14, 'int': 15,
    'gamma': 16, 'Max': 17, 'Min': 18, 'ceiling': 19,
}
REL = {'<': 'OLt', '<=': 'OLe', '==': 'OEq', '!=': 'ONe', '>': 'OGt', '>=': 'OGe'}


class Unconvertible(Exception):
    pass


def to_sympy(e):
    if hasattr(e, '_sympy_'):
        return e._sympy_()
    return sympy.sympify(e)


def _fold(op, args):
    r = args[0]
    for a in args[1:]:
        r = f"({op} {r} {a})"
    return r


def expr(e, names):
    """Convert a sympy expression to a Coq term string."""
    e = to_sympy(e)
    return _expr(e, names)


def _expr(e, names):
    if isinstance(e, (sympy.Integer, sympy.Rational)):
        return f"(Num {ct.q(Fraction(int(e.p), int(e.q)))})"
    if isinstance(e, sympy.Float):
        return f"(Num {ct.q(Fraction(str(e)))})"
    if isinstance(e, sympy.Symbol):
        return f"(Sym {names.p(e.name)})"
    if isinstance(e, AppliedUndef):
        # A_CENTRAL(t): an opaque symbol plus its arguments as (zero-weighted) free symbols
        r = f"(Sym {names.p(str(e))})"
        for a in e.args:
            r = f"(Add {r} (Mul (Num (0#1)%Q) {_expr(a, names)}))"
        return r
    if isinstance(e, sympy.Add):
        return _fold('Add', [_expr(a, names) for a in e.args])
    if isinstance(e, sympy.Mul):
        return _fold('Mul', [_expr(a, names) for a in e.args])
    if isinstance(e, sympy.Pow):
        return f"(Fn2 {FUNC_IDS['pow']}%positive {_expr(e.base, names)} {_expr(e.exp, names)})"
    if isinstance(e, sympy.Piecewise):
        r = "PwNil"
        for (v, c) in reversed(e.args):
            r = f"(PwCons {_cond(c, names)} {_expr(v, names)} {r})"
        return r
    if isinstance(e, sympy.Function):
        name = type(e).__name__
        if name in FUNC_IDS:
            args = [_expr(a, names) for a in e.args]
            if len(args) == 1:
                return f"(Fn1 {FUNC_IDS[name]}%positive {args[0]})"
            if len(args) == 2:
                return f"(Fn2 {FUNC_IDS[name]}%positive {args[0]} {args[1]})"
    raise Unconvertible(type(e).__name__)


def cond(c, names):
    return _cond(to_sympy(c), names)


def _cond(c, names):
    if c is sympy.true or isinstance(c, BooleanTrue):
        return "CTrue"
    if c is sympy.false or isinstance(c, BooleanFalse):
        return "CFalse"
    if isinstance(c, Relational):
        return f"(CRel {REL[c.rel_op]} {_expr(c.lhs, names)} {_expr(c.rhs, names)})"
    if isinstance(c, And):
        return _fold('CAnd', [_cond(a, names) for a in c.args])
    if isinstance(c, Or):
        return _fold('COr', [_cond(a, names) for a in c.args])
    if isinstance(c, Not):
        return f"(CNot {_cond(c.args[0], names)})"
    raise Unconvertible(type(c).__name__)


def env(point, names):
    """dict name -> Fraction  as  list (id * Q)."""
    return ct.lst([ct.pair(names.p(k), ct.q(v)) for k, v in point.items()])


def symset(symbols, names):
    """A set of pharmpy/sympy symbols (Symbol or AppliedUndef) as list id; argument symbols of
    applied functions are listed by the caller (they are separate members of the set)."""
    out = []
    for s in symbols:
        s = to_sympy(s)
        if isinstance(s, sympy.Symbol):
            out.append(names.p(s.name))
        elif isinstance(s, AppliedUndef):
            out.append(names.p(str(s)))
        else:
            raise Unconvertible(type(s).__name__)
    return ct.lst(out)
