"""C04 — parameter and random-effect edits are written back exactly.
Model: coq/theories/C04 (Cst.v, Lcs.v, Model.v, Check.v); theorems in Properties.v / Refuted.v.
Tie: the hand-written model is run inside Coq on the REAL lark syntax trees of generated $THETA / $OMEGA /
$SIGMA layouts and compared with what pharmpy regenerated (exact trees and text); the property itself is
evaluated on the implementation by re-reading edited.code."""
import json
import os
import random
import traceback
from concurrent.futures import ProcessPoolExecutor

from harness.lib.core import JOBS, VERIF, source_sha
from harness.props import c04lib as L

LEVEL = 'proof'
IMPORTS = 'C04.Cst C04.Lcs C04.Model C04.ModelOmega C04.ModelRv C04.ModelCreate C04.Check'

TAGS = {
    1: 'regenerated $THETA record trees differ from the model',
    2: 'parse of lark-produced $THETA trees differs from the model',
    4: 're-read of the regenerated text differs from what the model predicts',
    5: 'CPython float printing contract violated on a tabulated value',
    6: 'the reference recogniser refuses a regenerated text that lark accepts, inside the guard',
    11: 're-reading the regenerated code raises',
    12: 're-read theta values/bounds/fix differ from the in-memory model',
    13: 'an unchanged value changed its spelling',
    14: 'the edit itself crashes inside update_source',
    15: 're-read theta names differ from the in-memory model',
    21: 'regenerated diagonal $OMEGA/$SIGMA record tree differs from the model',
    22: 'OmegaRecord.parse of a lark-produced diagonal record differs from the model',
    23: 'regenerated BLOCK record tree differs from the model (given the converted values)',
    24: 'the regenerated diagonal record tree does not mean what pharmpy reads from its text',
    25: 'lcs.diff on distributions (update_random_variables) differs from the model',
    26: 'the calls made by update_random_variable_records (update / remove / create_omega_single / create_omega_block, in order) differ from the planned actions of the model',
    27: 'the record create_omega_single / create_omega_block returned differs from the model',
    28: 'the record OmegaRecord.remove returned (record without BLOCK) differs from the model',
    212: 'guard_plan (the guard of update_thetas_realises) disagrees with the conjuncts evaluated one by one',
    31: 're-reading the regenerated code raises ($OMEGA/$SIGMA edit)',
    32: 're-read OMEGA/SIGMA values or FIX differ from the in-memory model',
    33: 'an unchanged OMEGA/SIGMA value changed its spelling',
    34: 'the $OMEGA/$SIGMA edit itself crashes inside update_source',
    35: 're-read OMEGA/SIGMA names or distribution structure differ from the in-memory model',
    41: 're-reading the code generated after a structural random-effect edit raises',
    42: 're-read random-variable names differ from the in-memory model (structural edit)',
    43: 're-read block structure / levels differ from the in-memory model (structural edit)',
    44: 're-read variances / covariances differ from the in-memory model (structural edit)',
    45: 're-read FIX flags differ from the in-memory model (structural edit)',
    46: 're-read OMEGA/SIGMA parameter names differ from the in-memory model (structural edit)',
    47: 'a structural random-effect edit crashes with an internal error',
    48: 're-read FIX flags inside a joint distribution differ from the in-memory model (structural edit)',
}
CORR = (1, 2, 4, 5, 6, 21, 22, 23, 24, 25, 26, 27, 28, 212)
ORACLE = (11, 12, 13, 14, 15, 31, 32, 33, 34, 35, 41, 42, 43, 44, 45, 46, 47, 48)
GUARD_NAMES = {201: 'g_plain_layout', 202: 'g_xn_uniform', 203: 'g_xn_nofix', 205: 'g_repr',
               206: 'g_count', 207: 'g_rm_single', 208: 'g_removed_unnamed', 209: 'g_names', 210: 'g_bounds_canonical', 211: 'g_order',
               221: 'g_plain_item', 222: 'c_oxn_uniform', 223: 'g_sd_exact', 224: 'g_orepr', 226: 'g_ocount', 227: 'g_block_scale_exact', 241: 'c_default_names_in_place', 242: 'c_block_fix_uniform',
               244: 'c_no_item_leaves_a_multi_item_record', 245: 'c_no_scaled_record', 246: 'c_no_item_leaves_an_xn_record', 251: 'c_records_hold_one_distribution', 252: 'c_no_fixed_iov_created',
               299: 'plan_error'}
# guard conjunct / class predicate -> finding id (conjuncts without an entry describe unrepresentable inputs,
# not defects).  After the batch-2 fixes (b54b188, f6a49ae, 5bd60d8) the ids C04-OMEGA-XN-SPLIT,
# C04-OMEGA-BLOCK-FIX-LOST and C04-OMEGA-DIAG-ITEM-REMOVED are fixed and no tag maps to them any more: what
# still fails in their neighbourhood is listed under separate open ids.
#   222 is no guard conjunct any more (omega_diag_update_readback holds without it): it only says that a
#   (v)xn group was split, which still moves the name comment and re-spells the later copies.
FINDING_OF = {202: 'C04-THETA-XN-EDIT', 203: 'C04-THETA-XN-FIX',
              201: 'C04-THETA-EXOTIC-LAYOUT', 207: 'C04-THETA-REMOVE-XN', 208: 'C04-THETA-REMOVE-COMMENT',
              209: 'C04-THETA-NAMES-SHIFT', 210: 'C04-THETA-BOUND-RESPELL', 211: 'C04-THETA-INSERT-ORDER', 222: 'C04-OMEGA-XN-SPLIT-NAMES', 223: 'C04-OMEGA-SCALE-INEXACT', 227: 'C04-OMEGA-SCALE-INEXACT',
              241: 'C04-OMEGA-NAMES-SHIFT', 242: 'C04-OMEGA-BLOCK-PARTIAL-FIX', 244: 'C04-OMEGA-DIAG-ITEM-ORDER',
              245: 'C04-OMEGA-SCALE-INEXACT', 246: 'C04-OMEGA-XN-REMOVE', 252: 'C04-OMEGA-IOV-SAME-FIX'}
# which false guard conjuncts can explain which oracle tag
EXPLAINS = {11: (201, 202, 203, 205, 207, 208), 12: (201, 202, 203, 205, 207, 211), 14: (201, 202, 207, 206),
            15: (208, 209, 207, 202, 211), 13: (210, 201, 202, 207),
            31: (221, 224), 32: (221, 223, 224, 227), 33: (221, 222, 223, 227), 34: (221, 226), 35: (221, 222),
            41: (246,), 42: (244, 246), 43: (244, 246), 44: (245, 244, 246), 45: (244, 246), 48: (242, 244, 246), 46: (241, 244, 246),
            47: (246, 252)}


# ------------------------------------------------------------------ worker side
def run_theta_spec(spec):
    """Replay a concrete spec {layout, edits} on the real code; returns list of (term, info)."""
    out = []
    code = L.theta_model_code(spec['layout'])
    ft0 = L.FT()
    po, pinfo = L.parse_obs_term(code, ft0)
    if po is None or not pinfo.get('ok'):
        # the layout itself is refused: only the parse correspondence can be checked
        if po is not None:
            term = ("(C1 (CTheta (mkTS " + ft0.term() + " [] [] [] [] (ROk []) " + "[" + po + "] None)))")
            out.append((term, {'edit': 'parse-only', 'parse_error': pinfo.get('error')}))
        else:
            out.append((None, {'edit': 'lark-reject', 'parse_error': pinfo.get('pre_error')}))
        return out
    cur = pinfo['model']
    first = (po, ft0)
    for edit in spec['edits']:
        term, info, edited = L.observe_theta_step(cur, edit, first)
        first = None
        out.append(('(C1 (CTheta ' + term + '))', info))
        if edited is None or not info.get('consistent'):
            break
        cur = edited
    return out


def run_rv_spec(spec):
    from pharmpy.modeling import read_model_from_string
    out = []
    code = L.rv_model_code(spec['omegas'], spec['sigmas'], spec['ne'], spec['ns'])
    try:
        cur = read_model_from_string(code)
    except Exception as e:
        return [(None, {'edit': 'rv-layout-reject', 'parse_error': type(e).__name__ + ': ' + str(e)[:80]})]
    if not L.layout_read_exactly(cur):
        return [(None, {'edit': 'rv-layout-repaired-on-read'})]
    cs = cur.internals.control_stream
    fresh = list(cs.get_records('OMEGA')) + list(cs.get_records('SIGMA'))
    for edit in spec['edits']:
        term, info, edited = L.observe_rv_step(cur, edit, fresh)
        fresh = []
        out.append(('(C1 (COmega ' + term + '))', info))
        if edited is None or not info.get('consistent'):
            break
        cur = edited
    return out


def gen_and_run_rv(task):
    from pharmpy.modeling import read_model_from_string
    subseed, count = task
    rng = random.Random(subseed)
    res = []
    for _ in range(count):
        om, ne = L.gen_rv_layout(rng, 'OMEGA')
        si, ns = L.gen_rv_layout(rng, 'SIGMA')
        spec = {'kind': 'rv', 'omegas': om, 'sigmas': si, 'ne': ne, 'ns': ns, 'edits': []}
        try:
            code = L.rv_model_code(om, si, ne, ns)
            try:
                cur = read_model_from_string(code)
            except Exception as e:
                res.append((spec, [(None, {'edit': 'rv-layout-reject',
                                           'parse_error': type(e).__name__ + ': ' + str(e)[:80]})]))
                continue
            if not L.layout_read_exactly(cur):
                res.append((spec, [(None, {'edit': 'rv-layout-repaired-on-read'})]))
                continue
            cs = cur.internals.control_stream
            fresh = list(cs.get_records('OMEGA')) + list(cs.get_records('SIGMA'))
            steps = []
            for step in range(rng.choice([1, 2, 3])):
                edit = L.gen_rv_edit(rng, cur)
                if edit is None:
                    break
                spec['edits'].append(edit)
                term, info, edited = L.observe_rv_step(cur, edit, fresh)
                fresh = []
                steps.append(('(C1 (COmega ' + term + '))', info))
                if edited is None or not info.get('consistent'):
                    break
                cur = edited
            res.append((spec, steps))
        except L.UnknownRule as e:
            res.append((spec, [(None, {'edit': 'unknown-rule', 'rule': str(e)})]))
        except Exception:
            res.append((spec, [(None, {'edit': 'harness-error', 'error': traceback.format_exc()[-800:]})]))
    return res


def hist_layout(rng):
    for _ in range(50):
        om, ne = L.gen_rv_layout(rng, 'OMEGA')
        if 3 <= ne <= 5:
            return om, ne
    return '$OMEGA 0.1\n$OMEGA 0.2\n$OMEGA 0.3\n', 3


def run_hist_spec(spec):
    from pharmpy.modeling import read_model_from_string
    code = L.hist_model_code(spec['omegas'], spec['sigmas'], spec['ne'], spec['ns'], spec['abbr'])
    try:
        cur = read_model_from_string(code)
    except Exception as e:
        return [(None, {'edit': 'rv-layout-reject', 'parse_error': type(e).__name__ + ': ' + str(e)[:80]})]
    if not L.layout_read_exactly(cur):
        return [(None, {'edit': 'rv-layout-repaired-on-read'})]
    out = []
    for op in spec['edits']:
        term, info, edited = L.observe_hist_step(cur, op)
        out.append((term, info))
        if edited is None or not info.get('chain_ok'):
            break
        cur = edited
    return out


def gen_and_run_hist(task):
    from pharmpy.modeling import read_model_from_string
    subseed, count = task
    rng = random.Random(subseed)
    res = []
    for _ in range(count):
        if rng.random() < 0.35:      # one record per eta (no multi-item record involved)
            ne = rng.choice([3, 4, 4, 5])
            om = ''.join(f"$OMEGA {rng.choice(L.OV)}{rng.choice(['', '', ' FIX'])}\n" for _ in range(ne))
        else:
            om, ne = hist_layout(rng)
        spec = {'kind': 'hist', 'omegas': om, 'sigmas': '$SIGMA 1\n', 'ne': ne, 'ns': 1,
                'abbr': rng.random() < 0.4, 'edits': []}
        try:
            code = L.hist_model_code(om, spec['sigmas'], ne, 1, spec['abbr'])
            try:
                cur = read_model_from_string(code)
            except Exception as e:
                res.append((spec, [(None, {'edit': 'rv-layout-reject',
                                           'parse_error': type(e).__name__ + ': ' + str(e)[:80]})]))
                continue
            if not L.layout_read_exactly(cur):
                res.append((spec, [(None, {'edit': 'rv-layout-repaired-on-read'})]))
                continue
            steps = []
            for step in range(rng.choice([1, 2, 3, 4])):
                op = L.gen_hist_op(rng, cur)
                if op is None:
                    break
                spec['edits'].append(op)
                term, info, edited = L.observe_hist_step(cur, op)
                steps.append((term, info))
                if edited is None or not info.get('chain_ok'):
                    break
                cur = edited
            res.append((spec, steps))
        except L.UnknownRule as e:
            res.append((spec, [(None, {'edit': 'unknown-rule', 'rule': str(e)})]))
        except Exception:
            res.append((spec, [(None, {'edit': 'harness-error', 'error': traceback.format_exc()[-800:]})]))
    return res


def gen_and_run(task):
    """Generate `count` theta specs from the sub-seed with the real model in the loop, and observe them."""
    subseed, count = task
    rng = random.Random(subseed)
    res = []
    for _ in range(count):
        layout = L.gen_theta_layout(rng)
        spec = {'kind': 'theta', 'layout': layout, 'edits': []}
        try:
            code = L.theta_model_code(layout)
            ft0 = L.FT()
            po, pinfo = L.parse_obs_term(code, ft0)
            if po is None or not pinfo.get('ok'):
                res.append((spec, run_theta_spec(spec)))
                continue
            cur = pinfo['model']
            first = (po, ft0)
            steps = []
            for step in range(rng.choice([1, 2, 3, 3])):
                edit = L.gen_theta_edit(rng, cur, step)
                if edit is None:
                    break
                spec['edits'].append(edit)
                term, info, edited = L.observe_theta_step(cur, edit, first)
                first = None
                steps.append(('(C1 (CTheta ' + term + '))', info))
                if edited is None or not info.get('consistent'):
                    break
                cur = edited
            if not steps:
                steps = run_theta_spec(spec)
            res.append((spec, steps))
        except L.UnknownRule as e:
            res.append((spec, [(None, {'edit': 'unknown-rule', 'rule': str(e)})]))
        except Exception as e:
            res.append((spec, [(None, {'edit': 'harness-error', 'error': traceback.format_exc()[-800:]})]))
    return res


def run_spec_task(spec):
    try:
        if spec.get('kind') == 'rv':
            return (spec, run_rv_spec(spec))
        if spec.get('kind') == 'hist':
            return (spec, run_hist_spec(spec))
        return (spec, run_theta_spec(spec))
    except Exception:
        return (spec, [(None, {'edit': 'harness-error', 'error': traceback.format_exc()[-800:]})])


# ------------------------------------------------------------------ classification
def classify(ctx, spec, step_no, tags, info):
    tags = set(tags)
    if 6 in tags:
        if any(t >= 200 for t in tags):       # outside the guard the recogniser may be conservative
            ctx.coverage['recogniser_conservative_outside_guard'] = \
                ctx.coverage.get('recogniser_conservative_outside_guard', 0) + 1
            tags.discard(6)
    corr = sorted(t for t in tags if t in CORR)
    oracle = sorted(t for t in tags if t in ORACLE)
    guards = sorted(t for t in tags if t >= 200)
    status = 'ok'
    for t in oracle:
        why = [g for g in guards if g in EXPLAINS.get(t, ())]
        if t in (32, 44) and info.get('max_rel_dev') is not None and not (info['max_rel_dev'] < 1e-12):
            why = [g for g in why if g not in (223, 227, 245)]      # more than float noise: not explained by the scale
        fids = [FINDING_OF[g] for g in why if g in FINDING_OF]
        unrep = [g for g in why if g not in FINDING_OF]
        open_f = [f for f in fids if is_open(ctx, f)]
        if not corr and open_f:
            for f in open_f[:1]:
                ctx.coverage.setdefault('known_hits', {}).setdefault(f, 0)
                ctx.coverage['known_hits'][f] += 1
            status = 'known' if status == 'ok' else status
        elif not corr and unrep and not fids:
            ctx.coverage.setdefault('unrepresentable_hits', {}).setdefault(GUARD_NAMES[unrep[0]], 0)
            ctx.coverage['unrepresentable_hits'][GUARD_NAMES[unrep[0]]] += 1
            status = 'unrepresentable' if status == 'ok' else status
        else:
            ctx.violation(TAGS.get(t, str(t)), {'spec': {**spec, 'edits': spec['edits'][:step_no + 1]}, 'tags': sorted(tags),
                                    'tag_meaning': TAGS.get(t, str(t)), 'guards_false': [GUARD_NAMES.get(g, g) for g in guards],
                                    'info': {k: v for k, v in info.items() if k != 'model'}})
            status = 'violation'
    if corr and status != 'violation':
        ctx.broken.append('correspondence C04 model vs implementation: ' + ', '.join(TAGS[t] for t in corr)
                          + ' on ' + json.dumps({**spec, 'edits': spec['edits'][:step_no + 1]}))
        ctx.coverage.setdefault('corr_disagreements', []).append({'spec': spec, 'step': step_no, 'tags': sorted(tags)})
        status = 'broken'
    return status


def evaluate(ctx, results, label):
    """results: list of (spec, [(term, info)]).  Runs the Coq verdicts and classifies."""
    terms, index = [], []
    stats = {}
    for spec, steps in results:
        for k, (term, info) in enumerate(steps):
            if term is None:
                stats[info['edit']] = stats.get(info['edit'], 0) + 1
                if info['edit'] in ('harness-error', 'unknown-rule'):
                    ctx.broken.append(f"harness could not observe a case: {info}")
                continue
            terms.append('(' + term + ')')
            index.append((spec, k, info))
    verdicts = ctx.run_cases(label, IMPORTS, 'case2', terms, 'verdict2', shard=40) if terms else []
    out = []
    for (spec, k, info), tags in zip(index, verdicts):
        st = classify(ctx, spec, k, tags, info)
        stats[st] = stats.get(st, 0) + 1
        # how many steps that remove / add thetas lie inside guard_plan (theorem update_thetas_realises)
        if spec.get('kind', 'theta') == 'theta' and info.get('edit') in ('compound', 'replace', 'remove', 'add'):
            inside = not any(t in (201, 202, 203, 205, 206, 211, 299) for t in tags)
            key = 'structural_theta_steps_inside_guard_plan' if inside else 'structural_theta_steps_outside_guard_plan'
            ctx.coverage[key] = ctx.coverage.get(key, 0) + 1
        out.append((spec, k, info, tags, st))
    return out, stats


def effective_findings(ctx):
    """known_findings.json followed by the staging files: the LAST entry of an id is the valid one (the
    maintainer's merge replaces entries by id)."""
    eff = {}
    for f in ctx.findings:
        eff[f['id']] = f
    return eff


def is_open(ctx, fid):
    f = effective_findings(ctx).get(fid)
    return f is not None and f.get('status') == 'open' and ctx.open_finding(fid) is not None


def finding_probes(ctx):
    for f in effective_findings(ctx).values():
        if f.get('status') != 'open':
            continue
        res = [run_spec_task(f['witness'])]
        rows, _ = evaluate_quiet(ctx, res, 'finding-' + f['id'])
        hit = any(f['expect_tag'] in tags and not (set(tags) & set(CORR)) for _, _, _, tags in rows)
        if hit:
            ctx.known(f['id'])
        else:
            ctx.notes.append(f"finding_not_reproduced {f['id']} (tags {[t for *_, t in rows]})")


def evaluate_quiet(ctx, results, label):
    terms, index = [], []
    for spec, steps in results:
        for k, (term, info) in enumerate(steps):
            if term is not None:
                terms.append('(' + term + ')')
                index.append((spec, k, info))
    verdicts = ctx.run_cases(label, IMPORTS, 'case2', terms, 'verdict2', shard=40) if terms else []
    return [(s, k, i, t) for (s, k, i), t in zip(index, verdicts)], None


def run(ctx):
    ctx.build_gate(['C04'])
    ctx.trusted += [
        'harness/props/c04lib.py: export of real AttrTree/AttrToken trees and Parameter objects to Gallina terms; '
        'rule numbering read from coq/theories/C04/Cst.v',
        'CPython float functions (float(str), str(float), format_number, ** 0.5, ** 2) are tabulated per case from the '
        'running interpreter; the contract float(str(x)) == x assumed by the theorems is re-checked on every tabulated value',
        'lark (LALR parser + contextual lexer) is an engine: its acceptance of regenerated text is modelled by '
        'reparse_ok (theta grammar + numeric-token adjacency) and validated on every case (tags 4, 6)',
    ]
    ctx.assumptions += [
        'token texts and names are ASCII; numeric tokens have at most 15 significant digits',
        'update of $ABBR / statement renumbering when thetas are removed is outside this check (C02)',
        'structural random-effect edits (create_joint_distribution, split_joint_distribution, add_iiv, remove_iiv, add_iov, '
        'remove_iov): ORACLE ONLY (re-read after every step: no exception, same rv names / order / block structure / '
        'values / FIX / parameter names); no model of update_random_variable_records / create_omega_* / $ABBR, no theorem; '
        'failures are attributed to open findings by class predicates evaluated in Coq on exported facts (tags 241-246)',
        'NOT COVERED: the numeric conversion covariance <-> SD / CORRELATION / CHOLESKY (numpy, LAPACK) and float '
        'arithmetic (** 0.5, ** 2): engines; the harness recomputes the converted array and hands it to the model; '
        're-read deviations of scaled records are accepted only below 1e-12 relative',
        'NOT COVERED: BLOCK records that pharmpy repairs on read (not positive definite) are skipped and counted',
        'update_thetas with added / removed thetas and name preservation: tied by correspondence, not proved',
    ]
    anchors = (
        'src/pharmpy/model/external/nonmem/records/theta_record.py',
        'src/pharmpy/model/external/nonmem/records/omega_record.py',
        'src/pharmpy/model/external/nonmem/update.py', 'src/pharmpy/model/external/nonmem/parsing.py',
        'src/pharmpy/internals/sequence/lcs.py', 'src/pharmpy/internals/parse/generic.py',
        'src/pharmpy/model/external/nonmem/records/grammars/theta_record.lark',
        'src/pharmpy/model/external/nonmem/records/grammars/omega_record.lark',
        'src/pharmpy/model/random_variables.py', 'src/pharmpy/model/parameters.py', 'src/pharmpy/internals/math.py')
    ctx.coverage['source_sha'] = source_sha(*anchors)
    finding_probes(ctx)
    reg = sorted((VERIF / 'regress' / 'C04').glob('*.json'))
    nlay = 198 if ctx.tier == 'quick' else 2400
    nrv = 120 if ctx.tier == 'quick' else 800
    per = 6
    tasks = [(ctx.rng.getrandbits(48), per) for _ in range(nlay // per)]
    rvtasks = [(ctx.rng.getrandbits(48), 3) for _ in range(nrv // 3)]
    nhist = 80 if ctx.tier == 'quick' else 900
    histtasks = [(ctx.rng.getrandbits(48), 4) for _ in range(nhist // 4)]
    results = []
    with ProcessPoolExecutor(max_workers=JOBS) as ex:
        f_reg = ex.map(run_spec_task, [json.loads(p.read_text()) for p in reg])
        f_rv = ex.map(gen_and_run_rv, rvtasks)
        f_hist = ex.map(gen_and_run_hist, histtasks)
        f_th = ex.map(gen_and_run, tasks)
        results += list(f_reg)
        for chunk in f_th:
            results += chunk
        for chunk in f_rv:
            results += chunk
        for chunk in f_hist:
            results += chunk
    rows, stats = evaluate(ctx, results, 'cases')
    ctx.coverage['evaluations'] = len(rows)

    def key(s, k):
        return json.dumps([s.get('layout'), s.get('omegas'), s.get('sigmas'), s.get('abbr'), s['edits'][:k + 1]])
    ctx.coverage['distinct_nontrivial'] = len({key(s, k) for s, k, i, t, st in rows if i.get('edit') != 'parse-only'})
    ctx.coverage['rule'] = ('$THETA layouts generated from the record grammar (1-3 records, 1-4 thetas each, all forms, FIX '
                            'positions, xn, name comments, numeric spellings) x 1-3 edits over set init/lower/upper/fix/unfix/'
                            'fix-to/unconstrain/multi/add/remove; $OMEGA/$SIGMA layouts (DIAGONAL(n), items with FIX/SD/VAR in any '
                            'position, (..)xn, BLOCK(n) with FIX/SD/CORR/CHOLESKY/VAR/COV, BLOCK SAME, name comments) x 1-3 edits '
                            'over set init / fix / unfix / multi; structural histories (ORACLE ONLY): 3-5 etas, unnamed or '
                            'named by $ABBR, 1-4 steps of create_joint_distribution / split_joint_distribution / add_iiv / remove_iiv '
                            '/ add_iov / remove_iov / fix / unfix / set_initial_estimates; non-trivial = a step with an edit; '
                            'distinct by layout text + edit prefix')
    ctx.coverage['case_status'] = stats
    hist, gh = {}, {}
    for s, k, i, t, st in rows:
        lab = s.get('kind', 'theta') + ':' + str(i.get('edit'))
        hist[lab] = hist.get(lab, 0) + 1
        for g in t:
            if g >= 200:
                gh[GUARD_NAMES.get(g, g)] = gh.get(GUARD_NAMES.get(g, g), 0) + 1
    ctx.coverage['input_distribution'] = {
        'edit_ops': hist, 'guard_conjunct_false': gh,
        'guard_true_steps': sum(1 for s, k, i, t, st in rows if not any(g >= 200 for g in t)),
        'reread_failures': sum(1 for s, k, i, t, st in rows if 11 in t or 31 in t),
        'theta_steps': sum(1 for s, k, i, t, st in rows if s.get('kind', 'theta') == 'theta'),
        'rv_steps': sum(1 for s, k, i, t, st in rows if s.get('kind') == 'rv'),
        'structural_history_steps': sum(1 for s, k, i, t, st in rows if s.get('kind') == 'hist'),
        'structural_history_refused_by_api': sum(1 for s, k, i, t, st in rows if s.get('kind') == 'hist' and 'ValueError' in str(i.get('edit_error'))),
        'rv_steps_with_scaled_block': sum(1 for s, k, i, t, st in rows if i.get('scaled_block')),
    }
    if source_sha(*anchors) != ctx.coverage['source_sha']:
        ctx.notes.append('WARNING: anchor source files under /repo changed while this check was running '
                         '(results mix two versions of the code)')
        ctx.log('WARNING: /repo sources changed during the run')
    ctx.coverage['samples'] = [{'spec': s, 'step': k, 'tags': t} for s, k, i, t, st in rows[:3]] + \
                              [{'spec': s, 'step': k, 'tags': t} for s, k, i, t, st in rows if s.get('kind') == 'rv'][:2]


def replay(ctx, rep):
    spec = rep['spec']
    rows, _ = evaluate_quiet(ctx, [run_spec_task(spec)], 'replay')
    bad = 0
    print('spec', json.dumps(spec))
    for s, k, i, tags in rows:
        print('step', k, {x: y for x, y in i.items() if x not in ('model', 'code')}, 'tags', tags,
              [TAGS.get(t, GUARD_NAMES.get(t, t)) for t in tags])
        if any(t in ORACLE or t in CORR for t in tags):
            bad = 1
    return bad
