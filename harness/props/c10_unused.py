"""C10 helper — stream for remove_unused_parameters_and_rvs / _get_unused_parameters_and_rvs.
Specs are JSON-able; real Statements / Parameters / RandomVariables (and a real Model) are built, the real
function is called, kept distributions and parameter names are exported, and C10/CheckUnused.v compares
with the Gallina model (tags 7, 8, 9) and evaluates the property on the implementation's answer (18-25)."""
from fractions import Fraction as F

import sympy

from harness.lib import coqterm as ct
from harness.lib import sym2coq as sc

LEAVES = ['T', 'U', 'V', 'W']
VARS = ['A', 'B', 'C', 'D', 'X', 'Y']
VALUES = [F(1), F(2), F(4), F(1, 2), F(-1), F(-2), F(3), F(8)]

UTAGS = {
    7: 'kept random variables differ from model', 8: 'kept parameters differ from model',
    9: 'Statements.free_symbols differs from model',
    18: 'a removed parameter or random variable occurs in a statement',
    19: 'changing a removed parameter or random variable changes the value of a statement',
    20: 'a parameter is kept that is in no statement, in no kept distribution and not fixed to 0',
    21: 'a random variable is kept although neither it nor a parameter of its distribution occurs in a statement',
    22: 'a kept parameter is not a parameter of the input',
    23: 'the covariance (or variance) of random variables that remain in one distribution changed',
    24: 'a removed parameter still occurs in a kept distribution',
    25: 'a random variable whose distribution parameters occur in a statement was removed',
    26: 'a parameter fixed to 0 was removed (the code exempts these on purpose)',
}
UCORR = (7, 8, 9)
UORACLE = {18: (7, 8, 9), 19: (7, 8, 9), 20: (7, 8), 21: (7, 9), 22: (8,), 23: (7,), 24: (7, 8), 25: (7, 9), 26: (8,)}


# ------------------------------------------------------------------ generator
def gen_unused_spec(rng, rexpr):
    k = rng.choice([1, 2, 3, 3, 4, 5, 6])
    etas = [f'ETA{i}' for i in range(1, k + 1)]
    order = list(range(1, k + 1))
    rvs, omegas, mus = [], [], []
    pos = 0
    while pos < k:
        size = min(rng.choice([1, 1, 2, 2, 3, 4]), k - pos)
        idx = order[pos:pos + size]
        pos += size
        if size == 1:
            i = idx[0]
            r = rng.random()
            var = f'OM{i}{i}' if r < 0.8 else ('OMS' if r < 0.95 else '0')
            mean = f'MU{i}' if rng.random() < 0.08 else '0'
            rvs.append({'names': [f'ETA{i}'], 'level': 'IIV', 'mean': [mean], 'var': [[var]]})
            omegas.append(var)
            mus.append(mean)
        else:
            mat = [['0'] * size for _ in range(size)]
            for a in range(size):
                for b in range(a + 1):
                    hi, lo = max(idx[a], idx[b]), min(idx[a], idx[b])
                    v = f'OM{hi}{lo}' if (a == b or rng.random() < 0.75) else '0'
                    mat[a][b] = mat[b][a] = v
                    omegas.append(v)
            means = [f'MU{i}' if rng.random() < 0.06 else '0' for i in idx]
            mus += means
            rvs.append({'names': [f'ETA{i}' for i in idx], 'level': 'IIV', 'mean': means, 'var': mat})
    neps = rng.choice([1, 1, 2])
    if neps == 2 and rng.random() < 0.4:
        rvs.append({'names': ['EPS1', 'EPS2'], 'level': 'RUV', 'mean': ['0', '0'],
                    'var': [['SIG11', 'SIG21'], ['SIG21', 'SIG22']]})
        omegas += ['SIG11', 'SIG21', 'SIG22']
    else:
        for i in range(1, neps + 1):
            rvs.append({'names': [f'EPS{i}'], 'level': 'RUV', 'mean': ['0'], 'var': [[f'SIG{i}{i}']]})
            omegas.append(f'SIG{i}{i}')
    epss = [f'EPS{i}' for i in range(1, neps + 1)]
    thetas = [f'TH{i}' for i in range(1, rng.choice([1, 2, 3, 4]) + 1)]
    distpars = sorted({x for x in omegas + mus if x != '0'})
    used = [e for e in etas if rng.random() < 0.5] + [t for t in thetas if rng.random() < 0.6] \
        + [e for e in epss if rng.random() < 0.75]
    if distpars and rng.random() < 0.3:
        used += rng.sample(distpars, rng.choice([1, 1, 2]) if len(distpars) > 1 else 1)
    fam = rng.choice(['pw', 'tr'])
    n = rng.choice([1, 2, 3, 4, 5, 6])
    ode_at = rng.randrange(n) if n >= 3 and rng.random() < 0.3 else None
    stmts, defined = [], []
    todo = list(used)
    rng.shuffle(todo)
    for i in range(n):
        take = [todo.pop() for _ in range(min(len(todo), rng.choice([0, 1, 1, 2])))]
        if i == n - 1:
            take += todo
            todo = []
        base = rexpr(rng, LEAVES + defined, rng.choice([1, 1, 2]), fam)
        extra = ''.join(f' + {s}*{rng.choice(LEAVES + [str(rng.choice([2, 3]))])}' for s in take)
        if i == ode_at:
            stmts.append(['ODE', f'({base}){extra}'])
            defined.append('A_CENTRAL(t)')
            continue
        lhs = rng.choice(VARS) if rng.random() > 0.03 else rng.choice(thetas + distpars + etas)
        stmts.append([lhs, f'({base}){extra}'])
        if lhs not in defined:
            defined.append(lhs)
    params = []
    for name in thetas + distpars + (['XP1'] if rng.random() < 0.4 else []):
        if rng.random() < 0.04:
            continue
        if name not in used and rng.random() < 0.3:
            init, fix = 0, True
        else:
            init, fix = rng.choice([0, 0.1, 1, 2, 0.5]), rng.random() < 0.3
        params.append([name, init, fix])
    return {'kind': 'unused', 'stmts': stmts, 'params': params, 'rvs': rvs}


EXAMPLE_OPS = {
    'pheno': [
        [],
        [['drop', 'CL']],
        [['joint', ['ETA_CL', 'ETA_VC']], ['drop', 'CL']],
        [['joint', ['ETA_CL', 'ETA_VC']], ['reassign', 'VC', 'TVV'], ['fix0', 'POP_VC']],
        [['reassign', 'CL', 'TVCL'], ['addparam', 'XP1', 0, True], ['addparam', 'XP2', 1, False]],
        [['reassign', 'Y', 'F'], ['fix0', 'SIGMA']],
        [['joint', ['ETA_CL', 'ETA_VC']], ['reassign', 'CL', 'TVCL + IIV_CL_IIV_VC']],
    ],
    'moxo': [
        [],
        [['reassign', 'CL', 'POP_CL']],
        [['reassign', 'VC', 'POP_V'], ['fix0', 'POP_V']],
        [['reassign', 'CL', 'POP_CL'], ['reassign', 'VC', 'POP_V']],
        [['reassign', 'KA', 'POP_KA'], ['addparam', 'XP1', 0, True]],
        [['joint', ['ETA_1', 'ETA_2', 'ETA_3']], ['reassign', 'VC', 'POP_V']],
    ],
}


def example_specs():
    return [{'kind': 'unused', 'example': name, 'ops': ops} for name, lst in EXAMPLE_OPS.items() for ops in lst]


# ------------------------------------------------------------------ implementation side
def _expr(s):
    from pharmpy.basic import Expr
    return Expr(sympy.sympify(s))


def build_triple(spec):
    """(statements, parameters, random_variables, model or None) of real pharmpy objects."""
    from pharmpy.model import (Assignment, Bolus, Compartment, CompartmentalSystem, CompartmentalSystemBuilder,
                               JointNormalDistribution, Model, NormalDistribution, Parameter, Parameters,
                               RandomVariables, Statements, output)
    if 'example' in spec:
        from pharmpy.modeling import (create_joint_distribution, fix_parameters_to, load_example_model)
        model = load_example_model(spec['example'])
        for op in spec['ops']:
            if op[0] == 'drop':
                st = model.statements
                i = st.find_assignment_index(op[1])
                model = model.replace(statements=st[0:i] + st[i + 1:])
            elif op[0] == 'reassign':
                model = model.replace(statements=model.statements.reassign(op[1], _expr(op[2])))
            elif op[0] == 'joint':
                model = create_joint_distribution(model, rvs=list(op[1]))
            elif op[0] == 'fix0':
                model = fix_parameters_to(model, {op[1]: 0})
            elif op[0] == 'addparam':
                model = model.replace(parameters=model.parameters + Parameter.create(op[1], op[2], fix=op[3]))
            else:
                raise ValueError(op)
        return model.statements, model.parameters, model.random_variables, model
    sts = []
    for lhs, rhs in spec['stmts']:
        if lhs == 'ODE':
            cb = CompartmentalSystemBuilder()
            c = Compartment.create('CENTRAL', doses=(Bolus.create('AMT'),))
            cb.add_compartment(c)
            cb.add_flow(c, output, _expr(rhs))
            sts.append(CompartmentalSystem(cb))
        else:
            sts.append(Assignment.create(lhs, _expr(rhs)))
    statements = Statements(sts)
    dists = []
    for d in spec['rvs']:
        if len(d['names']) == 1:
            dists.append(NormalDistribution.create(d['names'][0], d['level'], _expr(d['mean'][0]), _expr(d['var'][0][0])))
        else:
            dists.append(JointNormalDistribution.create(d['names'], d['level'], [_expr(m) for m in d['mean']],
                                                        [[_expr(v) for v in row] for row in d['var']]))
    rvs = RandomVariables.create(dists)
    params = Parameters.create([Parameter.create(n, init, fix=fix) for n, init, fix in spec['params']])
    try:
        from pharmpy.model import DataInfo
        model = Model.create(name='gen', parameters=params, random_variables=rvs, statements=statements,
                             datainfo=DataInfo.create(LEAVES + ['AMT']))
    except Exception:   # input refused by Model.create: the direct call is still observed
        return statements, params, rvs, None
    # Model.create canonicalises initial estimates (nearest positive semidefinite matrix, C11): the input of the
    # call under observation is what the model holds
    return model.statements, model.parameters, model.random_variables, model


def dist_term(d, names):
    from pharmpy.model import JointNormalDistribution, NormalDistribution
    if isinstance(d, NormalDistribution):
        return (f"(Normal {names.p(d.names[0])} {sc.symset(d.mean.free_symbols, names)} "
                f"{sc.symset(d.variance.free_symbols, names)})")
    if not isinstance(d, JointNormalDistribution):
        raise sc.Unconvertible(type(d).__name__)
    n = len(d.names)
    if d.variance.rows != n or d.variance.cols != n or len(d.mean) != n:
        raise sc.Unconvertible('shape')
    rows = []
    for i, name in enumerate(d.names):
        ents = ct.lst([sc.symset(d.variance[i, j].free_symbols, names) for j in range(n)])
        rows.append(f"(mkRow {names.p(name)} {sc.symset(d.mean[i].free_symbols, names)} {ents})")
    return "(Joint " + ct.lst(rows) + ")"


def observe_unused(spec, points_rng, stmt_term):
    from pharmpy.modeling import remove_unused_parameters_and_rvs
    from pharmpy.modeling.common import _get_unused_parameters_and_rvs
    names = ct.Names()
    try:
        statements, params, rvs, model = build_triple(spec)
    except (TypeError, ValueError, sympy.SympifyError) as e:
        raise sc.Unconvertible('build: ' + str(e)[:80])
    stmt_terms = [stmt_term(s, names) for s in statements]
    pterms = [f"(mkParam {names.p(p.name)} {ct.boolean(bool(p.fix))} {ct.q(F(p.init))})" for p in params]
    rterms = [dist_term(d, names) for d in rvs]
    sfree = sc.symset(statements.free_symbols, names)
    # applied functions (amounts A_X(t)) are symbols of the Gallina IR but not of Expr.free_symbols
    amts = ct.lst(sorted({names.p(n) for n in list(names.ids) if '(' in n}))
    new_rvs, new_params = _get_unused_parameters_and_rvs(statements, params, rvs)
    nr = [dist_term(d, names) for d in new_rvs]
    npn = [names.p(n) for n in new_params.names]
    mterm = "None"
    info = {'n': len(statements), 'ndists': len(rvs), 'nparams': len(params),
            'removed_params': len(params) - len(new_params), 'removed_rvs': len(rvs.names) - len(new_rvs.names),
            'joint': sum(1 for d in rvs if len(d.names) > 1), 'model': False, 'model_error': None,
            'fixed_zero_kept': sum(1 for p in new_params if p.fix and p.init == 0
                                   and p.symbol not in statements.free_symbols and p.symbol not in new_rvs.free_symbols)}
    if model is not None:
        try:
            m2 = remove_unused_parameters_and_rvs(model)
            mterm = ct.opt(ct.pair(ct.lst([names.p(n) for n in m2.random_variables.names]),
                                   ct.lst([names.p(n) for n in m2.parameters.names])))
            info['model'] = True
        except Exception as e:       # update_source of a changed example model belongs to C02/C04
            info['model_error'] = type(e).__name__
    allnames = list(names.ids.keys())
    pts = [{n: points_rng.choice(VALUES) for n in allnames} for _ in range(6)]
    envs = ct.lst([sc.env(p, names) for p in pts])
    term = ("(mkU " + ct.lst(stmt_terms) + "\n  " + ct.lst(pterms) + "\n  " + ct.lst(rterms) + "\n  " + sfree
            + " " + amts + "\n  " + ct.lst(nr) + "\n  " + ct.lst(npn) + "\n  " + mterm + "\n  " + envs + ")")
    info['nqueries'] = 2 if info['model'] else 1
    return term, info
