"""C08 — structural feature setters are detectable, idempotent, reversible and total.
Model: coq/theories/C08 (Model.v: graph-level detectors + graph part of the setters + skeletons;
Check.v: comparison inside Coq); theorems in Properties.v / Refuted.v.
Tie: random feature-request sequences applied with the real setters of pharmpy.modeling.odes to
load_example_model('pheno') (IV, NONMEM) and create_basic_pk_model('oral') (generic); after every step
the real compartmental system and every detector's answer are exported and compared inside Coq."""
import json
import multiprocessing as mp
import os
import re

from fractions import Fraction as F

from harness.lib import coqterm as ct
from harness.lib import sym2coq as sc
from harness.lib.core import VERIF, source_sha

LEVEL = 'proof'
IMPORTS = 'Base.PyData Base.Expr Base.Interp Base.Stmts C08.Model C08.Check'

TAGS = {
    1: 'a detector answers differently from the model on the exported system',
    2: 'setter outcome class (result / documented refusal / internal error kind) differs from the model',
    3: 'resulting compartmental system differs from the model (up to node order)',
    4: 'result differs from the closed form `step` on the skeleton (up to node order)',
    11: 'setter raises an internal error (IndexError/AttributeError/NetworkXUnfeasible/list.remove/duplicate parameter/AssertionError)',
    12: 'setter raises an undocumented exception from the statement / parameter / code-generation layers',
    13: 'resulting system is not a state of the structural search space',
    14: 'requested feature is not what the detectors report afterwards',
    15: 'another feature category changed',
    16: 'requesting the same feature again changes the structure',
    17: 'undoing the feature does not restore the structure',
    19: 'requesting the same feature again changes the model function (statements differ by exact evaluation)',
    18: 'refusal outside the documented refusal set',
    70: 'exported system outside the model domain (duplicate compartment names / no central / no dose)',
    71: 'system before the step is not a valid skeleton graph (oracle skipped)',
    91: 'statement comparison inconclusive (too few sample points where both sides are defined)',
    92: 'statement comparison skipped: the second application renamed a parameter',
    72: 'system before the step is not skeleton-shaped (setter correspondence skipped, detectors still compared)',
}
CORR = (1, 2, 3, 4)
ORACLE = (11, 12, 13, 14, 15, 16, 17, 18, 19)
# guard tag -> (finding id, oracle tags it explains); 51-54 and 62 belonged to findings that are fixed in /repo
# (3342873, decea79, 2e21c7f, e1c4639, 6f6df8b): a recurrence has no guard tag any more and is a VIOLATION
GUARDS = {
    55: ('C08-ZO-TRANSIT-DEPOT', (12, 13)),
    56: ('C08-FO-ZO-TRANSITS', (12, 13)),
    57: ('C08-FO-SEQ-TRANSITS-NOOP', (14,)),
    58: ('C08-FO-DROPS-LAG', (15,)),
    59: ('C08-NODEPOT-MDT-CLASH', (11,)),
    60: ('C08-TRANSIT-STALE-LAG', (12, 13, 15, 16, 19)),
    61: ('C08-SINGLE-TRANSIT', (12, 13, 14, 16, 19)),
    63: ('C08-REMOVE-PERIPH-KRATES', (11,)),
    64: ('C08-DROPS-BIOAVAILABILITY', (15, 17)),
    # environment condition of the statement layers (not a conjunct of the Coq guard, see Check.v env_tags)
    81: ('C08-TRANSIT-ROUNDTRIP-KRATES', (12,)),
}

ABS = ['ABS_INST', 'ABS_FO', 'ABS_ZO', 'ABS_SEQ']
ELS = ['EL_FO', 'EL_ZO', 'EL_MM', 'EL_MIX']


# ------------------------------------------------------------------ requests
def req_term(r):
    simple = {'ABS_INST': 'AbsInst', 'ABS_FO': 'AbsFO', 'ABS_ZO': 'AbsZO', 'ABS_SEQ': 'AbsSeq',
              'EL_FO': 'ElFO', 'EL_ZO': 'ElZO', 'EL_MM': 'ElMM', 'EL_MIX': 'ElMix',
              'LAG_ON': 'LagOn', 'LAG_OFF': 'LagOff', 'BIO_ON': 'BioOn', 'BIO_OFF': 'BioOff',
              'PER_ADD': 'PerAdd', 'PER_REM': 'PerRem'}
    if r in simple:
        return simple[r]
    p = r.split(':')
    if p[0] == 'PER':
        return f'(PerSet {ct.nat(int(p[1]))})'
    if p[0] == 'TR':
        return f'(Transits {ct.nat(int(p[1]))} {ct.boolean(p[2] == "K")})'
    raise ValueError(r)


def req_func(r):
    from functools import partial

    from pharmpy import modeling as M
    simple = {'ABS_INST': M.set_instantaneous_absorption, 'ABS_FO': M.set_first_order_absorption,
              'ABS_ZO': M.set_zero_order_absorption, 'ABS_SEQ': M.set_seq_zo_fo_absorption,
              'EL_FO': M.set_first_order_elimination, 'EL_ZO': M.set_zero_order_elimination,
              'EL_MM': M.set_michaelis_menten_elimination, 'EL_MIX': M.set_mixed_mm_fo_elimination,
              'LAG_ON': M.add_lag_time, 'LAG_OFF': M.remove_lag_time,
              'BIO_ON': M.add_bioavailability, 'BIO_OFF': M.remove_bioavailability,
              'PER_ADD': M.add_peripheral_compartment, 'PER_REM': M.remove_peripheral_compartment}
    if r in simple:
        return simple[r]
    p = r.split(':')
    if p[0] == 'PER':
        return partial(M.set_peripheral_compartments, n=int(p[1]))
    if p[0] == 'TR':
        return partial(M.set_transit_compartments, n=int(p[1]), keep_depot=(p[2] == 'K'))
    raise ValueError(r)


def undo_candidate(r, nper_before):
    if r == 'LAG_ON':
        return 'LAG_OFF'
    if r == 'BIO_ON':
        return 'BIO_OFF'
    if r == 'PER_ADD':
        return 'PER_REM'
    if r.startswith('PER:') and int(r.split(':')[1]) > nper_before:
        return f'PER:{nper_before}'
    if r in ('EL_ZO', 'EL_MM', 'EL_MIX'):
        return 'EL_FO'
    if r in ('ABS_FO', 'ABS_ZO'):
        return 'ABS_INST'
    if r == 'ABS_SEQ':
        return 'ABS_FO'
    if r.startswith('TR:') and r.endswith(':K') and int(r.split(':')[1]) >= 1:
        return 'TR:0:K'
    return None


# ------------------------------------------------------------------ export of real objects
NAME_RE = re.compile(r'(TRANSIT|PERIPHERAL)([1-9][0-9]{0,2}|0)$')


def name_term(name):
    if name == 'CENTRAL':
        return 'NCentral'
    if name == 'DEPOT':
        return 'NDepot'
    m = NAME_RE.match(name)
    if m:
        return f"({'NTransit' if m.group(1) == 'TRANSIT' else 'NPeriph'} {ct.nat(int(m.group(2)))})"
    return f'(NOther {ct.string_codes(name)})'


class DuplicateNames(Exception):
    pass


def graph_term(model, impl=None):
    """The frozen compartmental system of a real model as a PV.C08.Model.graph term."""
    from pharmpy.basic import Expr
    from pharmpy.model import Infusion, output
    odesmod = impl or _odes_module()
    odes = model.statements.ode_system
    g = odes._g
    before = model.statements.before_odes
    names = [n.name for n in g.nodes if n is not output]
    if len(set(names)) != len(names):
        raise DuplicateNames(names)
    nodes = []
    for n in g.nodes:
        if n is output:
            continue
        doses = [f'(mkDose {ct.boolean(bool(odesmod._dose_zo(model, d)))} {ct.boolean(isinstance(d, Infusion))} {ct.nat(int(d.admid))})'
                 for d in n.doses]
        nodes.append(f'(mkNode {name_term(n.name)} {ct.lst(doses)} {ct.boolean(n.lag_time != 0)} {ct.boolean(n.bioavailability != 1)})')
    # predecessor order of output must be node order (the model derives it from the node order)
    order = {id(n): i for i, n in enumerate(g.nodes)}
    for v in g.nodes:
        pl = [order[id(u)] for u in g.predecessors(v)]
        assert pl == sorted(pl), 'predecessor order is not node order'
    classes = []
    edges = []
    cl = Expr.symbol('CL')
    for u, v, rate in g.edges.data('rate'):
        full = before.full_expression(rate)
        for i, rep in enumerate(classes):
            if rep == full:
                rid = i + 1
                break
        else:
            classes.append(full)
            rid = len(classes)
        fs = rate.free_symbols
        dst = 'NOutput' if v is output else name_term(v.name)
        edges.append(f'(mkEdge {name_term(u.name)} {dst} {ct.nat(rid)} {ct.boolean(odes.t in fs)} {ct.boolean(cl in fs)})')
    kmfix = 'POP_KM' in model.parameters and bool(model.parameters['POP_KM'].fix)
    mat = model.statements.find_assignment('MAT') is not None
    # the fact set_transit_compartments looks at: POP_MDT exists once the lag time is removed (the lag-time
    # parameter is itself called MDT when no other MDT exists)
    try:
        popmdt = 'POP_MDT' in odesmod.remove_lag_time(model).parameters.names
    except Exception:  # noqa
        popmdt = 'POP_MDT' in model.parameters.names
    central = odes.central_compartment
    elq = odes.get_flow(central, output).as_numer_denom()[1] != 1
    krates = any(odes.get_flow(p, central).as_numer_denom()[1] == 1 for p in odes.find_peripheral_compartments())
    return (f'(mkGraph {ct.lst(nodes)}\n     {ct.lst(edges)}\n     {ct.boolean(kmfix)} {ct.boolean(mat)} {ct.boolean(popmdt)} {ct.boolean(krates)} {ct.boolean(elq)})',
            {'nodes': names, 'nedges': len(edges)})


def _odes_module():
    from pharmpy.modeling import odes
    return odes


def detect_term(model, impl=None):
    """Every detector's answer on a real model as a PV.C08.Model.detected term."""
    from pharmpy import modeling as M
    O = impl or _odes_module()
    if O.has_seq_zo_fo_absorption(model):
        a = 'SEQ'
    elif O.has_zero_order_absorption(model):
        a = 'ZO'
    elif O.has_first_order_absorption(model):
        a = 'FO'
    elif O.has_instantaneous_absorption(model):
        a = 'INST'
    else:
        a = None
    if O.has_mixed_mm_fo_elimination(model):
        e = 'EMIX'
    elif O.has_zero_order_elimination(model):
        e = 'EZO'
    elif O.has_first_order_elimination(model):
        e = 'EFO'
    elif O.has_michaelis_menten_elimination(model):
        e = 'EMM'
    else:
        e = None
    odes = model.statements.ode_system
    depot = odes.find_depot(model.statements)
    ntr = O.get_number_of_transit_compartments(model)
    nper = O.get_number_of_peripheral_compartments(model)
    lag = bool(O.has_lag_time(model))
    bio = odes.dosing_compartments[0].bioavailability != 1
    term = (f'(mkDet {ct.opt(a)} {ct.opt(e)} {ct.nat(int(ntr))} '
            f'{ct.opt(None if depot is None else name_term(depot.name))} {ct.nat(int(nper))} {ct.boolean(lag)} {ct.boolean(bio)})')
    return term, {'abs': a, 'elim': e, 'transits': int(ntr), 'depot': None if depot is None else depot.name,
                  'periph': int(nper), 'lag': lag, 'bio': bool(bio)}


def stmts_term(model, names):
    """model.statements as a PV.Base.Stmts list (raises sc.Unconvertible on an unknown node)."""
    from pharmpy.model import Assignment
    out = []
    for st in model.statements:
        if isinstance(st, Assignment):
            out.append(f"(Assign {names.p(str(sc.to_sympy(st.symbol)))} {sc.expr(st.expression, names)})")
        else:
            out.append(f"(Ode {sc.symset(list(st.amounts), names)} {sc.symset(st.rhs_symbols, names)})")
    return ct.lst(out)


def sample_envs(names, rng):
    """Exact sample points: integers for the random effects (exp is interpreted as 2**n on integers),
    positive rationals for everything else."""
    envs = []
    for _ in range(4):
        pt = {}
        for n in list(names.ids):
            if n.startswith('ETA') or n.startswith('EPS') or n.startswith('IIV') or n.startswith('SIGMA'):
                pt[n] = F(rng.choice([0, 1, 2, -1]))
            else:
                pt[n] = rng.choice([F(1), F(2), F(4), F(3), F(8), F(1, 2)])
        envs.append(sc.env(pt, names))
    return ct.lst(envs)


DOCUMENTED = ('Cannot set the number of transits to 1', 'Model already has an infusion given in the dataset',
              'Number of compartments must be integer')


def classify_exception(e):
    """real exception -> (Coq res term, python description)"""
    import networkx as nx
    msg = str(e)
    desc = f'{type(e).__name__}: {msg[:120]}'
    if any(msg.startswith(d) for d in DOCUMENTED):
        return 'Refuse', desc
    if isinstance(e, IndexError):
        k = 'CIndex'
    elif isinstance(e, AttributeError):
        k = 'CAttr'
    elif isinstance(e, nx.NetworkXUnfeasible):
        k = 'CDupName'
    elif isinstance(e, DuplicateNames):
        k = 'CDupName'
    elif isinstance(e, nx.NetworkXError):
        k = 'CNoEdge'
    elif isinstance(e, AssertionError):
        k = 'CAssert'
    elif isinstance(e, ValueError) and 'list.remove' in msg:
        k = 'CListRemove'
    elif isinstance(e, ValueError) and msg.startswith('Parameter names must be unique'):
        k = 'CDupParam'
    elif isinstance(e, ValueError) and msg.startswith('Could not find theta connected to'):
        k = 'CValue'
    else:
        k = 'CStmt'
    return f'(Crash {k})', desc


def apply_real(model, r, impl=None):
    """Apply one request with the real setter; returns (model or None, res term, info)."""
    f = req_func(r) if impl is None else impl_func(impl, r)
    try:
        m2 = f(model)
        gterm, ginfo = graph_term(m2, impl)
        return m2, f'(Ok {gterm})', {'ok': True, 'nodes': ginfo['nodes']}
    except Exception as e:  # noqa: every exception is an observation here
        term, desc = classify_exception(e)
        return None, term, {'ok': False, 'exc': desc, 'res': term}


def impl_func(impl, r):
    """Same requests, but through a (possibly mutated) copy of odes.py loaded as module `impl`."""
    from functools import partial
    simple = {'ABS_INST': 'set_instantaneous_absorption', 'ABS_FO': 'set_first_order_absorption',
              'ABS_ZO': 'set_zero_order_absorption', 'ABS_SEQ': 'set_seq_zo_fo_absorption',
              'EL_FO': 'set_first_order_elimination', 'EL_ZO': 'set_zero_order_elimination',
              'EL_MM': 'set_michaelis_menten_elimination', 'EL_MIX': 'set_mixed_mm_fo_elimination',
              'LAG_ON': 'add_lag_time', 'LAG_OFF': 'remove_lag_time',
              'BIO_ON': 'add_bioavailability', 'BIO_OFF': 'remove_bioavailability',
              'PER_ADD': 'add_peripheral_compartment', 'PER_REM': 'remove_peripheral_compartment'}
    if r in simple:
        return getattr(impl, simple[r])
    p = r.split(':')
    if p[0] == 'PER':
        return partial(impl.set_peripheral_compartments, n=int(p[1]))
    return partial(impl.set_transit_compartments, n=int(p[1]), keep_depot=(p[2] == 'K'))


def start_model(kind):
    """A FRESH start model for every sequence: update._add_cmt / add_admid write columns into the dataset
    of the model they are given IN PLACE (known C06 defect), so models derived from one shared start
    object influence each other (observed: KeyError 'TRANSIT1' in update_cmt depending on what ran before)."""
    from pharmpy.modeling import create_basic_pk_model, load_example_model
    if kind in ('pheno', 'moxo'):
        return load_example_model(kind)
    return create_basic_pk_model('oral')


def observe(spec, impl=None, perturb=None):
    """Run the real setters on a spec; returns (Coq case term, info)."""
    O = impl or _odes_module()
    model = start_model(spec['start'])
    g0, _ = graph_term(model, impl)
    d0, _ = detect_term(model, impl)
    steps = []
    info = {'steps': [], 'calls': 0, 'stmt_compared': 0, 'stmt_unconvertible': 0}
    names = ct.Names()
    for i, r in enumerate(spec['seq']):
        nper = int(O.get_number_of_peripheral_compartments(model))
        m2, res, sinfo = apply_real(model, r, impl)
        info['calls'] += 1
        sinfo['req'] = r
        if m2 is None:
            steps.append(f'(mkStep {req_term(r)} {res} (mkDet None None 0%nat None 0%nat false false) None None None)')
            info['steps'].append(sinfo)
            break
        try:
            dterm, dinfo = detect_term(m2, impl)
        except Exception as e:  # a detector that raises on the result: the sequence ends here
            sinfo['detector_exc'] = f'{type(e).__name__}: {str(e)[:80]}'
            steps.append(f'(mkStep {req_term(r)} (Crash CStmt) (mkDet None None 0%nat None 0%nat false false) None None None)')
            info['steps'].append(sinfo)
            break
        sinfo['det'] = dinfo
        m2b, again, ainfo = apply_real(m2, r, impl)
        info['calls'] += 1
        again_st = 'None'
        if m2b is not None:
            try:
                again_st = f'(Some ({stmts_term(m2, names)},\n      {stmts_term(m2b, names)}))'
                info['stmt_compared'] += 1
            except (sc.Unconvertible, TypeError, ZeroDivisionError):
                info['stmt_unconvertible'] += 1
        u = undo_candidate(r, nper)
        if u is not None:
            _, ures, _ = apply_real(m2, u, impl)
            info['calls'] += 1
            undo = f'(Some ({req_term(u)}, {ures}))'
        else:
            undo = 'None'
        if perturb is not None:
            res, dterm = perturb(i, r, res, dterm)
        steps.append(f'(mkStep {req_term(r)} {res}\n   {dterm}\n   (Some {again})\n   {undo}\n   {again_st})')
        info['steps'].append(sinfo)
        model = m2
    import random as _random
    envs = sample_envs(names, _random.Random(json.dumps(spec, sort_keys=True)))
    term = f'(mkCase {g0}\n  {d0}\n  {ct.lst(steps)}\n  {envs})'
    return term, info


# ------------------------------------------------------------------ generator
def gen_request(rng):
    k = rng.random()
    if k < 0.28:
        return rng.choice(ABS)
    if k < 0.42:
        return rng.choice(ELS)
    if k < 0.58:
        return rng.choice(['PER:0', 'PER:1', 'PER:2', 'PER:1', 'PER:2', 'PER_ADD', 'PER_REM'])
    if k < 0.84:
        # MFL TRANSITS(n, DEPOT) -> n, keep_depot=True ; TRANSITS(n, NODEPOT) -> n+1, keep_depot=False
        n = rng.choice([0, 1, 3, 3, 2])
        return f'TR:{n}:K' if rng.random() < 0.6 else f'TR:{n + 1}:N'
    return rng.choice(['LAG_ON', 'LAG_ON', 'LAG_OFF', 'BIO_ON', 'BIO_ON', 'BIO_OFF'])


def gen_spec(rng):
    n = rng.choice([1, 2, 3, 3, 4, 4, 5, 5])
    return {'start': rng.choice(['pheno', 'oral', 'oral']), 'seq': [gen_request(rng) for _ in range(n)]}


def exhaustive_specs(maxlen):
    alphabet = ABS + ELS + ['PER:0', 'PER:1', 'PER:2', 'TR:0:K', 'TR:1:K', 'TR:3:K', 'TR:1:N', 'TR:2:N', 'TR:4:N',
                            'LAG_ON', 'LAG_OFF', 'BIO_ON', 'BIO_OFF']
    import itertools
    out = []
    for start in ('oral', 'pheno'):
        for k in range(1, maxlen + 1):
            for seq in itertools.product(alphabet, repeat=k):
                out.append({'start': start, 'seq': list(seq)})
    return out


def category_pairs():
    """All ordered pairs of requests within one feature category (the setters' own from->to tables)."""
    cats = [ABS, ELS, ['LAG_ON', 'LAG_OFF'], ['BIO_ON', 'BIO_OFF'], ['PER:0', 'PER:1', 'PER:2', 'PER_ADD', 'PER_REM'],
            ['TR:0:K', 'TR:1:K', 'TR:2:K', 'TR:3:K', 'TR:1:N', 'TR:2:N', 'TR:4:N']]
    out = []
    for start in ('oral', 'pheno'):
        for cat in cats:
            for a in cat:
                for b in cat:
                    out.append({'start': start, 'seq': [a, b]})
    return out


# ------------------------------------------------------------------ running
def _worker(spec):
    import warnings
    warnings.filterwarnings('ignore')
    try:
        term, info = observe(spec)
        return ('ok', term, info)
    except Exception as e:  # machinery failure (not an observation): fail closed
        import traceback
        return ('fail', f'{type(e).__name__}: {e}', traceback.format_exc()[-1500:])


def observe_all(ctx, specs):
    jobs = max(1, min(int(os.environ.get('VERIF_JOBS', '12')), 16))
    if len(specs) <= 3:
        return [_worker(s) for s in specs]
    mpctx = mp.get_context('fork')
    with mpctx.Pool(jobs) as pool:
        return pool.map(_worker, specs, chunksize=max(1, len(specs) // (jobs * 8)))


def split_codes(codes):
    """list of 100*step+tag -> {step: set(tags)}"""
    out = {}
    for c in codes:
        out.setdefault(c // 100, set()).add(c % 100)
    return out


def classify(ctx, spec, codes, info):
    """Returns 'ok' | 'known' | 'violation' | 'broken' and reports."""
    status = 'ok'
    tainted = False
    for step, tags in sorted(split_codes(codes).items()):
        corr = sorted(t for t in tags if t in CORR)
        oracle = sorted(t for t in tags if t in ORACLE)
        if tainted and oracle:
            # a defect already manifested earlier in this history: the later steps run on a model whose
            # bookkeeping may be inconsistent; they still count for the correspondence, not for the property
            ctx.coverage['tainted_oracle_steps'] = ctx.coverage.get('tainted_oracle_steps', 0) + 1
            oracle = []
        if oracle:
            tainted = True
        guards = sorted(t for t in tags if t in GUARDS)
        sub = {'start': spec['start'], 'seq': spec['seq'][:step]}
        for t in oracle:
            fids = [GUARDS[g][0] for g in guards if t in GUARDS[g][1] and ctx.open_finding(GUARDS[g][0])]
            if not corr and fids:
                for fid in fids[:1]:
                    kh = ctx.coverage.setdefault('known_hits', {})
                    kh[fid] = kh.get(fid, 0) + 1
                if status == 'ok':
                    status = 'known'
            else:
                what = f"{TAGS[t]} [{spec['start']}: {' '.join(sub['seq'])}]"
                exc = next((s.get('exc') for s in info.get('steps', [])[step - 1:step] if s.get('exc')), None)
                ctx.violation(TAGS[t], {'spec': sub, 'codes': sorted(codes), 'tag': t, 'tag_meaning': TAGS[t],
                                        'step': step, 'exception': exc, 'what': what})
                status = 'violation'
        if corr and not oracle:
            ctx.broken.append('correspondence C08 model vs implementation: ' + ', '.join(TAGS[t] for t in corr)
                              + f" at step {step} of {spec['start']}: {' '.join(spec['seq'])}")
            ctx.coverage.setdefault('corr_disagreements', []).append({'spec': spec, 'codes': sorted(codes)})
            if status != 'violation':
                status = 'broken'
    return status


def run_specs(ctx, specs, label, quiet=False):
    obs = observe_all(ctx, specs)
    terms, kept, infos = [], [], []
    for spec, o in zip(specs, obs):
        if o[0] != 'ok':
            ctx.broken.append(f"harness could not observe {spec}: {o[1]}")
            ctx.coverage.setdefault('machinery_failures', []).append({'spec': spec, 'error': o[1], 'trace': o[2]})
            continue
        terms.append(o[1])
        kept.append(spec)
        infos.append(o[2])
    verdicts = ctx.run_cases(label, IMPORTS, 'case', terms, 'verdict', shard=40)
    if quiet:
        return kept, verdicts, infos, None
    stats = {'ok': 0, 'known': 0, 'violation': 0, 'broken': 0}
    for spec, codes, info in zip(kept, verdicts, infos):
        stats[classify(ctx, spec, codes, info)] += 1
    return kept, verdicts, infos, stats


def finding_probes(ctx):
    """Replay the stored witness of every open finding on the real code."""
    byid = {}
    for f in ctx.findings:          # known_findings.d (staged updates) comes last and replaces by id
        byid[f['id']] = f
    ctx.findings = list(byid.values())
    opens = [f for f in ctx.findings if f.get('status') == 'open']
    if not opens:
        return
    kept, verdicts, infos, _ = run_specs(ctx, [f['witness'] for f in opens], 'findings', quiet=True)
    byspec = {json.dumps(s, sort_keys=True): (v, i) for s, v, i in zip(kept, verdicts, infos)}
    for f in opens:
        v, info = byspec.get(json.dumps(f['witness'], sort_keys=True), ([], {}))
        step = len(f['witness']['seq'])
        tags = split_codes(v).get(step, set())
        gtag = next((g for g, (fid, _) in GUARDS.items() if fid == f['id']), None)
        if f['expect_tag'] in tags and gtag in tags and not (tags & set(CORR)):
            exc = next((s.get('exc') for s in info.get('steps', [])[step - 1:step] if s.get('exc')), None)
            ctx.known(f['id'], f['what_fails'] + (f' [{exc}]' if exc else ''))
        else:
            ctx.notes.append(f"finding_not_reproduced {f['id']} (step tags {sorted(tags)})")


def run(ctx):
    ctx.build_gate(['C08'])
    ctx.trusted += [
        'harness/props/c08.py: export of the real networkx graph (node order, edges, doses, lag, F), of rate identity '
        '(class of before_odes.full_expression(rate) under ==) and rate symbols (t, CL), classification of exceptions',
        'harness/lib/coqterm.py printers',
        'networkx facts used by the model (copy() rebuilds predecessor lists in node order; in-place relabel_nodes '
        'ignores absent nodes and moves changed nodes to the end) - the first is asserted on every exported graph',
    ]
    ctx.assumptions += [
        'rate expressions are abstracted to (identity class, contains t, contains CL); sympy equality of full expressions is an engine',
        'statement / parameter / NONMEM code-generation layers (Model.replace validation, update_source, initial estimates, '
        'bounds) are not modelled: exceptions raised there are observed and reported (oracle tag 12) but not predicted',
        'equivalence is structural (compartmental system up to node order and rate renaming), not solution of the ODE system',
        'metabolite / effect / TMDD compartments, bioavailability setters and multiple doses (IV+oral) are not in the skeleton',
    ]
    ctx.coverage['source_sha'] = source_sha('src/pharmpy/modeling/odes.py', 'src/pharmpy/model/statements.py')
    finding_probes(ctx)
    reg = sorted((VERIF / 'regress' / 'C08').glob('*.json'))
    specs = [json.loads(p.read_text()) for p in reg]
    specs = [s['spec'] if 'spec' in s else s for s in specs]
    if ctx.tier == 'quick':
        specs += exhaustive_specs(1)
        specs += category_pairs()
        specs += [gen_spec(ctx.rng) for _ in range(220)]
    else:
        specs += exhaustive_specs(2)
        specs += [gen_spec(ctx.rng) for _ in range(3000)]
    kept, verdicts, infos, stats = run_specs(ctx, specs, 'gen')
    nsteps = sum(len(i['steps']) for i in infos)
    ctx.coverage['evaluations'] = sum(i['calls'] for i in infos)
    ctx.coverage['steps_checked'] = nsteps
    ctx.coverage['sequences'] = len(kept)
    ctx.coverage['distinct_nontrivial'] = len({json.dumps(s, sort_keys=True) for s in kept if len(s['seq']) >= 2})
    ctx.coverage['rule'] = ('feature-request sequences (length 1-5; all single requests; thorough: all pairs) over absorption '
                            'INST/FO/ZO/SEQ, elimination FO/ZO/MM/MIX, peripherals 0-2 and add/remove, transits 0-4 with/without '
                            'depot, lag on/off, from pheno (NONMEM, IV) and create_basic_pk_model(oral); non-trivial = at least '
                            'two requests; distinct by request text')
    ctx.coverage['case_status'] = stats
    allsteps = [(spec['start'], s) for spec, i in zip(kept, infos) for s in i['steps']]
    codes_by_step = [t for v in verdicts for t in v]
    hist = {}
    for c in codes_by_step:
        hist[c % 100] = hist.get(c % 100, 0) + 1
    ctx.coverage['input_distribution'] = {
        'length_hist': {str(k): sum(1 for s in kept if len(s['seq']) == k) for k in range(1, 7)},
        'start': {k: sum(1 for s in kept if s['start'] == k) for k in ('pheno', 'oral')},
        'request_kinds': {k: sum(1 for _, s in allsteps if s['req'].startswith(k)) for k in ('ABS', 'EL', 'PER', 'TR', 'LAG', 'BIO')},
        'real_exceptions': {k: sum(1 for _, s in allsteps if s.get('res') == k)
                            for k in sorted({s.get('res') for _, s in allsteps if s.get('res')})},
        'tag_hist': {str(k): v for k, v in sorted(hist.items())},
        'statement_lists_compared_by_evaluation': sum(i.get('stmt_compared', 0) for i in infos),
        'statement_lists_unconvertible': sum(i.get('stmt_unconvertible', 0) for i in infos),
        'statement_comparison_inconclusive(91)': hist.get(91, 0),
        'statement_comparison_renamed_parameter(92)': hist.get(92, 0),
        'oracle_skipped_steps(71)': hist.get(71, 0),
        'outside_model_domain(70)': hist.get(70, 0),
    }
    ctx.coverage['samples'] = [{'spec': s, 'codes': v} for s, v in list(zip(kept, verdicts))[:4]]


def replay(ctx, rep):
    spec = rep['spec']
    kept, verdicts, infos, _ = run_specs(ctx, [spec], 'replay', quiet=True)
    codes = verdicts[0] if verdicts else []
    print('spec', json.dumps(spec))
    for st, tags in sorted(split_codes(codes).items()):
        print(' step', st, spec['seq'][st - 1] if st >= 1 else '(start)', sorted(tags), [TAGS.get(t, t) for t in sorted(tags) if t < 50])
    for s in infos[0]['steps'] if infos else []:
        print('  ', s)
    bad = False
    for st, tags in split_codes(codes).items():
        if tags & set(CORR):
            bad = True
        for t in tags & set(ORACLE):
            if not any(t in GUARDS[g][1] and ctx.open_finding(GUARDS[g][0]) for g in tags if g in GUARDS):
                bad = True
    return 1 if bad else 0
