"""C06 behavioural oracle (search / validation part, Python side): every public function of pharmpy.modeling is
called with admissible arguments — the calls of its own docstring examples, a typed argument factory for the
functions without examples, and replays of the recorded calls on other models reachable by short
transformation histories — with a deep snapshot of every argument before and after the call, whether it
returns or raises.  Every returned model is collected for the well-formedness check (done in Coq)."""
import copy
import doctest
import inspect
import io
import json
import contextlib
import warnings

warnings.filterwarnings('ignore')


def _imports():
    import numpy as np
    import pandas as pd
    import pharmpy.modeling as pm
    from pharmpy.model import Model
    return np, pd, pm, Model


# ------------------------------------------------------------------------------------------ snapshots
def snap_df(df):
    import pandas as pd
    if df is None:
        return None
    return {'columns': [str(c) for c in df.columns], 'dtypes': [str(t) for t in df.dtypes],
            'index': df.index.copy(deep=True), 'copy': df.copy(deep=True), 'name': getattr(df, 'name', None),
            'attrs': dict(getattr(df, 'attrs', {}))}


def diff_df(before, df):
    if before is None:
        return [] if df is None else ['dataset appeared']
    if df is None:
        return ['dataset disappeared']
    out = []
    if before['columns'] != [str(c) for c in df.columns]:
        out.append(f"columns {before['columns']} -> {[str(c) for c in df.columns]}")
    elif before['dtypes'] != [str(t) for t in df.dtypes]:
        out.append('dtypes changed')
    if not before['index'].equals(df.index):
        out.append('index changed')
    if not out and not before['copy'].equals(df):
        out.append('values changed')
    if before['name'] != getattr(df, 'name', None):
        out.append('name attribute changed')
    return out


def model_text(m):
    """everything value-like of a model as text"""
    parts = {}
    for key, fn in [('parameters', lambda: m.parameters.to_dict()), ('random_variables', lambda: m.random_variables.to_dict()),
                    ('statements', lambda: m.statements.to_dict()), ('datainfo', lambda: m.datainfo.to_dict()),
                    ('execution_steps', lambda: m.execution_steps.to_dict()),
                    ('dependent_variables', lambda: {str(k): v for k, v in m.dependent_variables.items()}),
                    ('observation_transformation', lambda: {str(k): str(v) for k, v in m.observation_transformation.items()}),
                    ('value_type', lambda: str(m.value_type)), ('name', lambda: m.name), ('description', lambda: m.description),
                    ('code', lambda: m.code)]:
        try:
            parts[key] = json.dumps(fn(), default=str, sort_keys=True)
        except Exception as e:      # noqa
            parts[key] = f'<{type(e).__name__}>'
    return parts


def snapshot(x):
    np, pd, pm, Model = _imports()
    if isinstance(x, Model):
        return ('model', model_text(x), snap_df(x.dataset), snap_df(x.initial_individual_estimates),
                {k: id(v) for k, v in x.__dict__.items() if k != '_hash'})
    if isinstance(x, (pd.DataFrame, pd.Series)):
        return ('frame', snap_df(x if isinstance(x, pd.DataFrame) else x.to_frame()))
    if isinstance(x, (list, dict, set)):
        try:
            return ('container', copy.deepcopy(x))
        except Exception:
            return ('container', repr(x))
    return None


def diff(before, x):
    np, pd, pm, Model = _imports()
    if before is None:
        return []
    kind = before[0]
    if kind == 'model':
        out = []
        now = model_text(x)
        for k, v in before[1].items():
            if now[k] != v:
                out.append(f'{k} changed')
        out += ['dataset: ' + d for d in diff_df(before[2], x.dataset)]
        out += ['initial_individual_estimates: ' + d for d in diff_df(before[3], x.initial_individual_estimates)]
        ids = {k: id(v) for k, v in x.__dict__.items() if k != '_hash'}
        if ids != before[4]:
            out.append('attribute rebound: ' + ','.join(sorted(k for k in set(ids) | set(before[4]) if ids.get(k) != before[4].get(k))))
        return out
    if kind == 'frame':
        return diff_df(before[1], x if isinstance(x, pd.DataFrame) else x.to_frame())
    if kind == 'container':
        try:
            same = before[1] == x if not isinstance(before[1], str) else before[1] == repr(x)
            same = bool(same)
        except Exception:
            same = True
        return [] if same else ['container argument changed']
    return []


# ------------------------------------------------------------------------------------------ recording wrapper
class Recorder:
    def __init__(self):
        self.events = []        # one per wrapped call
        self.calls = []         # (name, args, kwargs) for replay
        self.returned = []      # (name, model)
        self.depth = 0
        self.cache = {}         # models are immutable values: share them between calls until one is modified
        self.origin = None      # how the current call was obtained (for replay)

    def wrap(self, name, f):
        rec = self
        np, pd, pm, Model = _imports()

        def w(*a, **k):
            if rec.depth > 0:
                return f(*a, **k)
            rec.depth += 1
            try:
                inputs = list(a) + list(k.values())
                snaps = [(x, snapshot(x)) for x in inputs]
                exc = None
                r = None
                try:
                    with contextlib.redirect_stdout(io.StringIO()):
                        r = f(*a, **k)
                except BaseException as e:      # noqa
                    if isinstance(e, (KeyboardInterrupt, SystemExit)):
                        raise
                    exc = e
                mutated = []
                for i, (x, s) in enumerate(snaps):
                    for d in diff(s, x):
                        mutated.append(f'arg{i}: {d}')
                if mutated:
                    rec.cache.clear()
                ev = {'function': name, 'outcome': 'returned' if exc is None else type(exc).__name__,
                      'mutated': mutated, 'nmodels': sum(1 for x in inputs if isinstance(x, Model)),
                      'args': summarize(a, k), 'origin': rec.origin}
                rec.events.append(ev)
                rec.calls.append((name, a, k))
                if exc is None:
                    outs = r if isinstance(r, (tuple, list)) else [r]
                    for o in outs:
                        if isinstance(o, Model):
                            rec.returned.append((name, o))
                if exc is not None:
                    raise exc
                return r
            finally:
                rec.depth -= 1
        w.__name__ = name
        w.__wrapped__ = f
        return w


def summarize(a, k):
    np, pd, pm, Model = _imports()

    def one(x):
        if isinstance(x, Model):
            return f'<Model {x.name}>'
        if isinstance(x, (pd.DataFrame, pd.Series)):
            return f'<{type(x).__name__} {getattr(x, "shape", "")}>'
        r = repr(x)
        return r if len(r) < 60 else r[:57] + '...'
    return [one(x) for x in a] + [f'{kk}={one(v)}' for kk, v in k.items()]


# ------------------------------------------------------------------------------------------ sources of calls
VARIANTS = {
    'base': [],
    'periph': [('add_peripheral_compartment', [], {})],
    'foabs': [('set_first_order_absorption', [], {})],
    'prop': [('set_proportional_error_model', [], {})],
    'iivcl': [('remove_iiv', ['CL'], {})],
    'foabs+periph': [('set_first_order_absorption', [], {}), ('add_peripheral_compartment', [], {})],
    'lag': [('set_first_order_absorption', [], {}), ('add_lag_time', [], {})],
    'transits': [('set_transit_compartments', [2], {})],
    'mm': [('set_michaelis_menten_elimination', [], {})],
    'tad': [('add_time_after_dose', [], {})],
    'cov': [('add_covariate_effect', ['CL', 'WGT', 'exp'], {})],
    'generic': [('convert_model', ['generic'], {})],
    # a dataset with an NM-TRAN time column (12:30) AND an NM-TRAN date column (2021-03-01)
    'nmtran_date': '@nmtran_date',
    'nmtran_time': '@nmtran_time',
}


def build_special(tag):
    np, pd, pm, Model = _imports()
    m = pm.load_example_model('pheno')
    df = m.dataset.copy()
    t = df['TIME'].astype(float)
    if tag == '@nmtran_date':
        df['DAT2'] = ['2021-03-%02d' % (1 + int(x // 24)) for x in t]
    df['TIME'] = ['%d:%02d' % (int(x) % 24, int(round((x % 1) * 60)) % 60) for x in t]
    di = m.datainfo
    di = di.set_column(di['TIME'].replace(datatype='nmtran-time'))
    m = m.replace(dataset=df, datainfo=di)
    if tag == '@nmtran_date':
        di = m.datainfo
        m = m.replace(datainfo=di.set_column(di['DAT2'].replace(datatype='nmtran-date')))
    return m


DEGENERATE = ['constant', 'median_min', 'median_max', 'binary_major0', 'binary_major1', 'negative', 'two_level_half']


def degenerate_covariate_model(kind, cov='XCOV'):
    """pheno with a NEW covariate column (no effect of it exists yet) holding degenerate values, constant per subject"""
    np, pd, pm, Model = _imports()
    m = pm.load_example_model('pheno')
    df = m.dataset.copy()
    ids = list(dict.fromkeys(df['ID'].tolist()))
    n = len(ids)
    if kind == 'constant':
        vals = [1.5] * n
    elif kind == 'median_min':
        vals = [1.0] * (n // 2 + 3) + [1.0 + 0.1 * (i + 1) for i in range(n - n // 2 - 3)]
    elif kind == 'median_max':
        vals = [3.0] * (n // 2 + 3) + [3.0 - 0.1 * (i + 1) for i in range(n - n // 2 - 3)]
    elif kind == 'binary_major0':
        vals = [0.0] * (7 * n // 10) + [1.0] * (n - 7 * n // 10)
    elif kind == 'binary_major1':
        vals = [1.0] * (7 * n // 10) + [0.0] * (n - 7 * n // 10)
    elif kind == 'negative':
        vals = [-2.0 + 4.0 * i / (n - 1) for i in range(n)]
    elif kind == 'two_level_half':
        vals = [2.0] * (n // 2) + [4.0] * (n - n // 2)
    else:
        raise ValueError(kind)
    mp = dict(zip(ids, vals))
    df[cov] = [mp[i] for i in df['ID']]
    return m.replace(dataset=df)


def run_covariates(rec, kinds):
    """add_covariate_effect & friends on degenerate covariates, every effect kind and operation"""
    np, pd, pm, Model = _imports()
    n = 0
    for kind in kinds:
        try:
            model = degenerate_covariate_model(kind)
        except Exception:
            continue
        for effect in ['lin', 'cat', 'cat2', 'piece_lin', 'exp', 'pow', 'theta*cov/median']:
            for op in ['*', '+']:
                for par in (['CL'] if op == '+' else ['CL', 'VC']):
                    rec.origin = {'source': 'degenerate covariate', 'dataset': kind, 'call': ['add_covariate_effect', par, 'XCOV', effect, op]}
                    w = rec.wrap('add_covariate_effect', pm.add_covariate_effect)
                    r = None
                    try:
                        r = w(model, par, 'XCOV', effect, op)
                    except BaseException as e:      # noqa
                        if isinstance(e, (KeyboardInterrupt, SystemExit)):
                            raise
                    n += 1
                    if r is not None and par == 'CL':
                        for fn, extra in [('has_covariate_effect', ['CL', 'XCOV']), ('get_covariate_effects', []),
                                          ('remove_covariate_effect', ['CL', 'XCOV'])]:
                            rec.origin = {'source': 'degenerate covariate', 'dataset': kind, 'call': [fn] + extra, 'after': [effect, op]}
                            try:
                                rec.wrap(fn, getattr(pm, fn))(r, *extra)
                            except BaseException as e:      # noqa
                                if isinstance(e, (KeyboardInterrupt, SystemExit)):
                                    raise
                            n += 1
    return n


# ---- hash history: f on an input whose hash (and every component's hash) was computed before, against f on an
# input that was never hashed
def _walk(obj, seen):
    if id(obj) in seen:
        return
    mod = type(obj).__module__ or ''
    if isinstance(obj, (tuple, list)):
        seen.add(id(obj))
        for x in obj:
            yield from _walk(x, seen)
        return
    if isinstance(obj, dict):
        seen.add(id(obj))
        for k, v in obj.items():
            yield from _walk(k, seen)
            yield from _walk(v, seen)
        return
    if not mod.startswith('pharmpy') or mod.startswith('pharmpy.basic'):
        return
    seen.add(id(obj))
    yield obj
    d = getattr(obj, '__dict__', None)
    if isinstance(d, dict):
        for v in list(d.values()):
            yield from _walk(v, seen)


def unhash(model):
    """puts a private model back into the never-hashed state (drops every cached hash)"""
    from pharmpy.internals.immutable import frozenmapping
    for o in _walk(model, set()):
        if isinstance(o, frozenmapping):
            o._hash = None
        elif '_hash' in getattr(o, '__dict__', {}):
            del o.__dict__['_hash']


def prehash(model):
    n = 0
    for o in _walk(model, set()):
        try:
            hash(o)
            n += 1
        except TypeError:
            pass
    return n


def hash_history(rec, calls, limit=None):
    import copy as _copy
    np, pd, pm, Model = _imports()
    A = pm.load_example_model('pheno')
    B = pm.load_example_model('pheno')
    n = 0
    seen = set()
    for name, a, k in calls:
        if limit is not None and n >= limit:
            break
        if name == 'load_example_model' or not any(isinstance(x, Model) for x in list(a) + list(k.values())):
            continue
        key = (name, repr(summarize(a, k)))
        if key in seen:
            continue
        seen.add(key)
        f = getattr(pm, name, None)
        if f is None:
            continue
        unhash(A)
        prehash(B)
        res = []
        for m in (A, B):
            a2 = [m if isinstance(x, Model) else x for x in a]
            k2 = {kk: (m if isinstance(v, Model) else v) for kk, v in k.items()}
            try:
                with contextlib.redirect_stdout(io.StringIO()):
                    res.append(f(*a2, **k2))
            except BaseException as e:      # noqa
                if isinstance(e, (KeyboardInterrupt, SystemExit)):
                    raise
                res.append(None)
        n += 1
        ra, rb = res
        outs_a = ra if isinstance(ra, (tuple, list)) else [ra]
        outs_b = rb if isinstance(rb, (tuple, list)) else [rb]
        if len(outs_a) != len(outs_b):
            continue
        for xa, xb in zip(outs_a, outs_b):
            if not isinstance(xa, Model) or not isinstance(xb, Model):
                continue
            problems = []
            try:
                if xa == xb and hash(xa) != hash(xb):
                    parts = [nm for nm in ('_parameters', '_random_variables', '_statements', '_dependent_variables',
                                           '_observation_transformation', '_execution_steps', '_datainfo')
                             if getattr(xa, nm) == getattr(xb, nm) and hash(getattr(xa, nm)) != hash(getattr(xb, nm))]
                    problems.append('result on an already-hashed input == result on a fresh input, hashes differ (' + ','.join(parts) + ')')
                for what, c in (('replace', xb.replace(name=xb.name)), ('copy', _copy.copy(xb)), ('deepcopy', _copy.deepcopy(xb))):
                    if not (c == xb):
                        problems.append(f'{what} of the result is not == to it')
                    elif hash(c) != hash(xb):
                        problems.append(f'{what} of the result == it, hashes differ')
            except TypeError:
                pass
            rec.events.append({'function': name, 'outcome': 'returned', 'mutated': [], 'nmodels': 1,
                               'args': summarize(a, k), 'origin': {'source': 'hash history pair', 'of': name},
                               'hash_problems': problems})
    return n



def make_variant(name, example='pheno', cache=None):
    np, pd, pm, Model = _imports()
    if cache is not None and (name, example) in cache:
        return cache[(name, example)]
    if isinstance(VARIANTS[name], str):
        m = build_special(VARIANTS[name])
    else:
        m = pm.load_example_model(example)
        for fn, a, k in VARIANTS[name]:
            m = getattr(pm, fn)(m, *a, **k)
    if cache is not None:
        cache[(name, example)] = m
    return m


def run_doctests(rec, names, variant='base'):
    """executes the docstring examples of the given public functions with every public function wrapped"""
    np, pd, pm, Model = _imports()
    parser = doctest.DocTestParser()
    stats = {'functions_with_examples': 0, 'examples_run': 0, 'example_errors': 0, 'skipped_examples': 0}
    wrapped = {}
    for n in pm.__all__:
        f = getattr(pm, n)
        if inspect.isfunction(f):
            wrapped[n] = rec.wrap(n, f)

    orig_load = pm.load_example_model

    def load_variant(name):
        key = ('doctest', variant, name)
        if key in rec.cache:
            return rec.cache[key]
        m = orig_load(name)
        if name == 'pheno' and variant != 'base':
            if isinstance(VARIANTS[variant], str):
                m = build_special(VARIANTS[variant])
            else:
                for fn, a, k in VARIANTS[variant]:
                    m = getattr(pm, fn)(m, *a, **k)
        rec.cache[key] = m
        return m
    wrapped['load_example_model'] = rec.wrap('load_example_model', load_variant)
    for name in names:
        f = getattr(pm, name)
        doc = inspect.getdoc(f) or ''
        try:
            examples = parser.get_examples(doc)
        except ValueError:
            examples = []
        if not examples:
            continue
        stats['functions_with_examples'] += 1
        rec.origin = {'source': 'docstring example', 'of': name, 'variant': variant}
        ns = {'__name__': '__c06__'}
        exec('from pharmpy.modeling import *', ns)
        ns.update(wrapped)
        for ex in examples:
            if ex.options.get(doctest.SKIP):
                stats['skipped_examples'] += 1
                continue
            src = ex.source
            try:
                with contextlib.redirect_stdout(io.StringIO()):
                    exec(compile(src, f'<doctest {name}>', 'single'), ns)
                stats['examples_run'] += 1
            except BaseException as e:     # noqa
                if isinstance(e, (KeyboardInterrupt, SystemExit)):
                    raise
                stats['example_errors'] += 1
            if 'import' in src:
                # an import in the example rebinds the public names to the unwrapped functions: wrap again
                for n_, w_ in wrapped.items():
                    if ns.get(n_) is getattr(pm, n_):
                        ns[n_] = w_
    return stats


def example_path(fname):
    import pharmpy.internals
    from pathlib import Path
    return Path(pharmpy.internals.__file__).parent / 'example_models' / fname


def factory_args(name, f, model, rng, res):
    """admissible arguments for a public function without docstring example (typed argument factory)"""
    np, pd, pm, Model = _imports()
    sig = inspect.signature(f)
    special = {
        'add_derivative': lambda: ([model], {'with_respect_to': 'ETA_CL'}),
        'remove_derivative': lambda: ([pm.add_derivative(model, 'ETA_CL')], {'with_respect_to': 'ETA_CL'}),
        'convert_model': lambda: ([model, 'generic'], {}),
        'read_model': lambda: ([example_path('pheno.mod')], {}),
        'write_csv': lambda: ([model], {'path': 'c06_out.csv', 'force': True}),
        'write_model': lambda: ([model], {'path': 'c06_out.mod', 'force': True}),
        'calculate_aic': lambda: ([model, 586.27], {}),
        'deidentify_data': lambda: ([model.dataset.copy()], {}),
        'omit_data': lambda: ([model, 'ID'], {}),
        'resample_data': lambda: ([model, 'ID'], {'resamples': 1}),
        'rename_symbols': lambda: ([model, {'CL': 'CLX'}], {}),
        'set_covariates': lambda: ([model, ['WGT', 'APGR']], {}),
        'set_dvid': lambda: ([model, 'FA1'], {}),
        'read_dataset_from_datainfo': lambda: ([model.datainfo], {}),
        'plot_abs_cwres_vs_ipred': lambda: ([model, res.predictions, res.residuals], {}),
        'plot_cwres_vs_idv': lambda: ([model, res.residuals], {}),
        'plot_dv_vs_ipred': lambda: ([model, res.predictions], {}),
        'plot_dv_vs_pred': lambda: ([model, res.predictions], {}),
        'plot_eta_distributions': lambda: ([model, res.individual_estimates], {}),
        'plot_individual_predictions': lambda: ([model, res.predictions[['PRED', 'CIPREDI']]], {'individuals': [1, 2]}),
        'plot_iofv_vs_iofv': lambda: ([res.individual_ofv, res.individual_ofv, 'a', 'b'], {}),
        'plot_transformed_eta_distributions': lambda: ([model, res.parameter_estimates, res.individual_estimates], {}),
    }
    if name in special:
        return special[name]()
    args = []
    for pname, p in sig.parameters.items():
        if p.default is not inspect._empty:
            continue
        ann = str(p.annotation)
        if pname in ('model', 'base_model') or 'Model' in ann:
            args.append(model)
        else:
            return None
    return args, {}


def run_factory(rec, names, variant, rng):
    np, pd, pm, Model = _imports()
    stats = {'factory_calls': 0, 'factory_no_arguments': []}
    res = pm.load_example_modelfit_results('pheno') if hasattr(pm, 'load_example_modelfit_results') else None
    if res is None:
        from pharmpy.tools import load_example_modelfit_results
        res = load_example_modelfit_results('pheno')
    for name in names:
        f = getattr(pm, name)
        if not inspect.isfunction(f):
            continue
        model = make_variant(variant, cache=rec.cache)
        try:
            ak = factory_args(name, f, model, rng, res)
        except Exception:
            ak = None
        if ak is None:
            stats['factory_no_arguments'].append(name)
            continue
        w = rec.wrap(name, f)
        rec.origin = {'source': 'factory', 'of': name, 'variant': variant}
        try:
            w(*ak[0], **ak[1])
        except BaseException as e:      # noqa
            if isinstance(e, (KeyboardInterrupt, SystemExit)):
                raise
        stats['factory_calls'] += 1
    return stats


def replay_calls(rec, calls, variant, limit=None):
    """re-issues recorded calls with every Model argument replaced by the given variant model"""
    np, pd, pm, Model = _imports()
    n = 0
    for name, a, k in calls:
        if limit is not None and n >= limit:
            break
        if name == 'load_example_model' or not any(isinstance(x, Model) for x in list(a) + list(k.values())):
            continue
        f = getattr(pm, name, None)
        if f is None:
            continue
        try:
            m = make_variant(variant, cache=rec.cache)
        except Exception:
            return n
        a2 = [m if isinstance(x, Model) else x for x in a]
        k2 = {kk: (m if isinstance(v, Model) else v) for kk, v in k.items()}
        w = rec.wrap(name, f)
        rec.origin = {'source': 'replay of a recorded call on a transformed model', 'of': name, 'variant': variant}
        try:
            w(*a2, **k2)
        except BaseException as e:      # noqa
            if isinstance(e, (KeyboardInterrupt, SystemExit)):
                raise
        n += 1
    return n


SWAPS = [{'CL', 'VC'}, {'WGT', 'APGR'}, {'ETA_CL', 'ETA_VC'}, {'IIV_CL', 'IIV_VC'}, {'POP_CL', 'POP_VC'},
         {'exp', 'lin', 'pow', 'cat'}, {'add', 'prop', 'exp', 'log'}, {'iiv', 'iov'}]


def vary_calls(rec, calls, rng, limit=None):
    """typed variation of recorded calls: every argument whose parameter is annotated Literal[...] takes the other
    documented choices; parameter / covariate / eta names are swapped for their siblings; small ints are nudged"""
    import typing
    np, pd, pm, Model = _imports()
    n = 0
    seen = set()
    for name, a, k in calls:
        f = getattr(pm, name, None)
        if f is None or name == 'load_example_model' or not any(isinstance(x, Model) for x in list(a) + list(k.values())):
            continue
        try:
            sig = inspect.signature(f)
            hints = typing.get_type_hints(f)
            bound = sig.bind(*a, **k)
        except Exception:
            continue
        alts = []
        for pname, val in bound.arguments.items():
            h = hints.get(pname)
            lits = []
            for t in ([h] + list(typing.get_args(h))):
                if typing.get_origin(t) is typing.Literal:
                    lits += list(typing.get_args(t))
            for lit in lits:
                if lit != val:
                    alts.append((pname, lit))
            if isinstance(val, str):
                for grp in SWAPS:
                    if val in grp:
                        alts += [(pname, o) for o in sorted(grp - {val})]
            elif isinstance(val, bool):
                alts.append((pname, not val))
            elif isinstance(val, int):
                alts += [(pname, val + 1), (pname, max(0, val - 1))]
            elif isinstance(val, list) and val and all(isinstance(x, str) for x in val):
                alts.append((pname, list(reversed(val))))
                alts.append((pname, val[:1]))
        rng.shuffle(alts)
        for pname, new in alts[:4]:
            key = (name, pname, repr(new))
            if key in seen:
                continue
            seen.add(key)
            if limit is not None and n >= limit:
                return n
            args2 = dict(bound.arguments)
            args2[pname] = new
            try:
                b2 = sig.bind(**{kk: vv for kk, vv in args2.items() if sig.parameters[kk].kind not in
                                 (inspect.Parameter.VAR_POSITIONAL, inspect.Parameter.VAR_KEYWORD)})
            except TypeError:
                continue
            w = rec.wrap(name, f)
            rec.origin = {'source': 'typed variation of a recorded call', 'of': name, 'changed': [pname, repr(new)]}
            try:
                w(*b2.args, **b2.kwargs)
            except BaseException as e:      # noqa
                if isinstance(e, (KeyboardInterrupt, SystemExit)):
                    raise
            n += 1
    return n


# ---- tools layer: the tool wrappers run with esttool='dummy' (no external program): the workflow builders, candidate
# generators and post-processing helpers of pharmpy/tools run for real, on a model whose snapshot is compared afterwards;
# every model the tool stored in its context goes to the well-formedness check
TOOL_RUNS = {
    'modelsearch': lambda pt, m, res, p: pt.run_modelsearch('ABSORPTION([FO,ZO]);PERIPHERALS([0,1])', 'exhaustive', model=m,
                                                           results=res, esttool='dummy', path=p),
    'allometry': lambda pt, m, res, p: pt.run_allometry(model=m, results=res, allometric_variable='WGT', esttool='dummy', path=p),
    'covsearch': lambda pt, m, res, p: pt.run_covsearch('COVARIATE([CL],[APGR],exp)', model=m, results=res, esttool='dummy', path=p),
    'iivsearch': lambda pt, m, res, p: pt.run_iivsearch('top_down_exhaustive', model=m, results=res, esttool='dummy', path=p),
    'ruvsearch': lambda pt, m, res, p: pt.run_ruvsearch(model=m, results=res, esttool='dummy', path=p),
}


def run_tool_job(rec, tool, workdir):
    import os
    import tempfile
    np, pd, pm, Model = _imports()
    import pharmpy.tools as pt
    from pharmpy.workflows import LocalDirectoryContext
    os.makedirs(workdir, exist_ok=True)
    tmpd = os.path.join(workdir, 'tmp')
    os.makedirs(tmpd, exist_ok=True)
    os.environ['TMPDIR'] = tmpd
    tempfile.tempdir = tmpd
    # the HTML report step (sphinx + a jupyter kernel) is not part of the property: replaced in THIS process only
    import pharmpy.tools.reporting as _rep
    _rep.create_report = lambda *a_, **k_: None
    m = pm.load_example_model('pheno')
    res = pt.load_example_modelfit_results('pheno')
    before = snapshot(m)
    pe_before = res.parameter_estimates.copy(deep=True)
    path = os.path.join(workdir, 'ctx_' + tool)
    outcome = 'returned'
    try:
        with contextlib.redirect_stdout(io.StringIO()), contextlib.redirect_stderr(io.StringIO()):
            TOOL_RUNS[tool](pt, m, res, path)
    except BaseException as e:      # noqa
        if isinstance(e, (KeyboardInterrupt, SystemExit)):
            raise
        outcome = type(e).__name__
    mutated = ['arg0: ' + d for d in diff(before, m)]
    if not pe_before.equals(res.parameter_estimates):
        mutated.append('results.parameter_estimates changed')
    nstored = 0
    try:
        ctx = LocalDirectoryContext(path)
        for name in ctx.list_all_names():
            try:
                me = ctx.retrieve_model_entry(name)
            except Exception:
                continue
            rec.returned.append((f'tools.run_{tool}', me.model))
            nstored += 1
    except Exception:
        pass
    rec.events.append({'function': f'tools.run_{tool}', 'outcome': outcome, 'mutated': mutated, 'nmodels': 1,
                       'args': ['<Model pheno>', "esttool='dummy'"], 'origin': {'source': 'tool run with the dummy estimation tool', 'of': tool},
                       'stored_models': nstored})
    return nstored


def worker(job):
    """one process: job = {'mode': 'doctest'|'factory'|'replay', 'names': [...], 'variant': v, 'seed': s}
    returns events, and the exported returned models (as JSON-able wf specs)"""
    import random
    rng = random.Random(job.get('seed', 0))
    rec = Recorder()
    stats = {}
    try:
        if job['mode'] == 'doctest':
            stats = run_doctests(rec, job['names'], job['variant'])
        elif job['mode'] == 'factory':
            stats = run_factory(rec, job['names'], job['variant'], rng)
        elif job['mode'] == 'doctest+replay':
            stats = run_doctests(rec, job['names'], 'base')
            calls = list(rec.calls)
            stats['replayed'] = {}
            for v in job['replay_variants']:
                stats['replayed'][v] = replay_calls(rec, calls, v, job.get('limit'))
            if job.get('vary'):
                stats['varied'] = vary_calls(rec, calls, rng, job.get('vary_limit'))
            if job.get('hash_history'):
                stats['hash_pairs'] = hash_history(rec, calls, job.get('hash_limit'))
        elif job['mode'] == 'covariates':
            stats['covariate_calls'] = run_covariates(rec, job['kinds'])
        elif job['mode'] == 'tool':
            stats['tool_models'] = run_tool_job(rec, job['tool'], job['workdir'])
    except BaseException as e:          # noqa
        if isinstance(e, (KeyboardInterrupt, SystemExit)):
            raise
        stats['worker_error'] = f'{type(e).__name__}: {e}'
    wf = []
    seen = set()
    for name, m in rec.returned:
        if id(m) in seen:
            continue
        seen.add(id(m))
        try:
            wf.append(export_model(name, m))
        except Exception as e:      # noqa
            wf.append({'function': name, 'export_error': f'{type(e).__name__}: {e}'})
    return {'events': rec.events, 'wf': wf, 'stats': stats, 'job': {k: v for k, v in job.items() if k != 'names'},
            'nfunctions': len(job['names'])}


def export_model(name, m):
    """JSON-able description of a returned model for the Coq well-formedness predicate"""
    from pharmpy.basic import Expr
    from pharmpy.model import Assignment
    ps = [[p.name, fl(p.init), fl(p.lower), fl(p.upper), bool(p.fix)] for p in m.parameters]
    rvs = [list(d.names) for d in m.random_variables]
    cols = list(m.datainfo.names)
    base = sorted({str(s) for s in m.random_variables.free_symbols} | {str(s) for s in m.parameters.symbols} | set(cols))
    stmts = []
    odes = m.statements.ode_system
    t = str(odes.t) if odes is not None else 't'
    for s in m.statements:
        if isinstance(s, Assignment):
            fun = None
            if s.symbol.is_function():
                fun = [s.symbol.name, [str(a) for a in s.symbol.args if a.is_symbol()]]
            stmts.append([str(s.symbol), fun, sorted(str(x) for x in s.expression.free_symbols)])
        else:
            stmts.append(None)
    code_ok = True
    code_err = None
    before = snapshot(m)
    try:
        c = m.update_source().code          # code generation for the model's own format
        if not isinstance(c, str):
            code_ok = False
    except Exception as e:      # noqa
        code_ok = False
        code_err = f'{type(e).__name__}: {e}'
    mutated = diff(before, m)
    return {'function': name, 'params': ps, 'rvs': rvs, 'base': base, 't': t, 'stmts': stmts, 'code_ok': code_ok,
            'code_err': code_err, 'model_name': m.name, 'update_source_mutated': mutated or None}


def fl(x):
    import math
    x = float(x)
    if math.isnan(x):
        return 'nan'
    if math.isinf(x):
        return 'inf' if x > 0 else '-inf'
    return x.hex()
