"""T-eqhash — fail-closed `ast` translator: the `__eq__` / `__hash__` pairs of the pharmpy model classes
-> term tables (`PV.C06.Wf.eqclass`).

A term is (attribute name without leading underscores, how): how = 0 the raw attribute, how = 1 the attribute
seen through a function (`nx.to_dict_of_dicts(self._g)`, `hash_df_runtime(self._dataset)`, `.equals(..)`).
`__eq__` gives the compared terms, `__hash__` the hashed terms; the law a == b => hash(a) == hash(b) needs every
hashed term to be compared in the same way.  Unknown statement shapes raise Refused (fail closed)."""
import ast
from pathlib import Path


class Refused(Exception):
    pass


FILES = ['pharmpy/model/parameters.py', 'pharmpy/model/statements.py', 'pharmpy/model/random_variables.py',
         'pharmpy/model/datainfo.py', 'pharmpy/model/distributions/symbolic.py', 'pharmpy/model/execution_steps.py',
         'pharmpy/model/model.py']


def strip(a):
    return a.lstrip('_')


def self_attr(e, who='self'):
    return isinstance(e, ast.Attribute) and isinstance(e.value, ast.Name) and e.value.id == who


def attrs_of(e, who):
    return sorted({strip(n.attr) for n in ast.walk(e) if self_attr(n, who)})


def is_super_call(e, meth):
    return (isinstance(e, ast.Call) and isinstance(e.func, ast.Attribute) and e.func.attr == meth
            and isinstance(e.func.value, ast.Call) and isinstance(e.func.value.func, ast.Name)
            and e.func.value.func.id == 'super')


class ClassTranslator:
    def __init__(self, fname, cls):
        self.fname = fname
        self.cls = cls
        self.methods = {m.name: m for m in cls.body if isinstance(m, ast.FunctionDef)}

    def refuse(self, node, why):
        raise Refused(f'{self.fname}:{self.cls.name}:{getattr(node, "lineno", "?")}: {why}: {ast.unparse(node)[:80]}')

    def container(self):
        m = self.methods.get('__len__')
        if m is None:
            return None
        for st in m.body:
            if (isinstance(st, ast.Return) and isinstance(st.value, ast.Call) and isinstance(st.value.func, ast.Name)
                    and st.value.func.id == 'len' and len(st.value.args) == 1 and self_attr(st.value.args[0])):
                return strip(st.value.args[0].attr)
        return None

    # ---- __hash__
    def hashed(self):
        m = self.methods['__hash__']
        env = {}
        body = [s for s in m.body if not (isinstance(s, ast.Expr) and isinstance(s.value, ast.Constant))]
        terms = []
        for st in body:
            if isinstance(st, ast.Assign) and len(st.targets) == 1 and isinstance(st.targets[0], ast.Name):
                env[st.targets[0].id] = st.value
            elif isinstance(st, ast.Return):
                v = st.value
                if isinstance(v, ast.Constant):
                    return []
                if not (isinstance(v, ast.Call) and isinstance(v.func, ast.Name) and v.func.id == 'hash'
                        and len(v.args) == 1):
                    self.refuse(st, 'hash return shape')
                arg = v.args[0]
                elts = arg.elts if isinstance(arg, ast.Tuple) else [arg]
                for el in elts:
                    if self_attr(el):
                        terms.append((strip(el.attr), 0))
                    elif isinstance(el, ast.Name) and el.id in env:
                        names = attrs_of(env[el.id], 'self')
                        if not names:
                            self.refuse(el, 'hashed local without attribute')
                        terms += [(n, 1) for n in names]
                    elif is_super_call(el, '__hash__'):
                        terms.append(('super', 0))
                    elif isinstance(el, ast.Constant):
                        pass
                    elif attrs_of(el, 'self') or any(isinstance(n, ast.Name) and n.id in env for n in ast.walk(el)):
                        # an expression over attributes / locals: the attributes seen through a function
                        names = set(attrs_of(el, 'self'))
                        for n in ast.walk(el):
                            if isinstance(n, ast.Name) and n.id in env:
                                names |= set(attrs_of(env[n.id], 'self'))
                        terms += [(n, 1) for n in sorted(names)]
                    else:
                        self.refuse(el, 'hashed element')
            else:
                self.refuse(st, 'statement in __hash__')
        seen, out = set(), []
        for t in terms:
            if t not in seen:
                seen.add(t)
                out.append(t)
        return out

    # ---- __eq__
    def compare_term(self, c):
        """self.x == other.x / f(self.x) == f(other.x) / self.x != other.x"""
        if not (isinstance(c, ast.Compare) and len(c.ops) == 1 and isinstance(c.ops[0], (ast.Eq, ast.NotEq))):
            return None
        l, r = c.left, c.comparators[0]
        if self_attr(l, 'self') and self_attr(r, 'other') and strip(l.attr) == strip(r.attr):
            return [(strip(l.attr), 0)]
        la, ra = attrs_of(l, 'self'), attrs_of(r, 'other')
        if la and la == ra and not attrs_of(l, 'other') and not attrs_of(r, 'self'):
            return [(n, 1) for n in la]
        return None

    def compared(self, hashed):
        m = self.methods['__eq__']
        terms = []
        cont = self.container()

        def zipped(it):
            if (isinstance(it, ast.Call) and isinstance(it.func, ast.Name) and it.func.id == 'zip' and len(it.args) == 2):
                a, b = it.args
                if isinstance(a, ast.Name) and a.id == 'self' and isinstance(b, ast.Name) and b.id == 'other':
                    if cont is None:
                        self.refuse(it, 'zip(self, other) without a container attribute')
                    return (cont, 0)
                if self_attr(a, 'self') and self_attr(b, 'other') and strip(a.attr) == strip(b.attr):
                    return (strip(a.attr), 0)
            return None

        def cond(test):
            """condition of an `if ...: return False`-style statement; returns terms or [] for neutral tests"""
            if isinstance(test, ast.UnaryOp) and isinstance(test.op, ast.Not):
                t = test.operand
                if isinstance(t, ast.Call) and isinstance(t.func, ast.Name) and t.func.id == 'isinstance':
                    return []
                if (isinstance(t, ast.Call) and isinstance(t.func, ast.Attribute) and t.func.attr == 'equals'
                        and self_attr(t.func.value, 'self') and len(t.args) == 1 and self_attr(t.args[0], 'other')):
                    return [(strip(t.func.value.attr), 1)]
                self.refuse(test, 'negated test')
            if isinstance(test, ast.Compare) and len(test.ops) == 1:
                op = test.ops[0]
                l, r = test.left, test.comparators[0]
                if isinstance(op, (ast.Is, ast.IsNot)):
                    return []      # self is other / x is None
                # hash(self) != hash(other)
                if (isinstance(l, ast.Call) and isinstance(l.func, ast.Name) and l.func.id == 'hash'
                        and isinstance(r, ast.Call) and isinstance(r.func, ast.Name) and r.func.id == 'hash'):
                    return list(hashed)
                # len(..) != len(..)
                if (isinstance(l, ast.Call) and isinstance(l.func, ast.Name) and l.func.id == 'len'):
                    return []
                t = self.compare_term(test)
                if t is not None:
                    return t
            self.refuse(test, 'test in __eq__')

        def expr_terms(e):
            if isinstance(e, ast.BoolOp) and isinstance(e.op, ast.And):
                out = []
                for v in e.values:
                    out += expr_terms(v)
                return out
            if isinstance(e, ast.Constant):
                return []
            if is_super_call(e, '__eq__'):
                return [('super', 0)]
            if isinstance(e, ast.Compare) and len(e.ops) == 1 and isinstance(e.ops[0], ast.Is):
                return [('identity', 0)]
            t = self.compare_term(e)
            if t is None:
                self.refuse(e, 'returned expression in __eq__')
            return t

        def walk(stmts):
            for st in stmts:
                if isinstance(st, ast.Expr) and isinstance(st.value, ast.Constant):
                    continue
                if isinstance(st, ast.If):
                    terms.extend(cond(st.test))
                    walk(st.body)
                    walk(st.orelse)
                elif isinstance(st, ast.For):
                    z = zipped(st.iter)
                    if z is None:
                        self.refuse(st, 'for loop in __eq__')
                    terms.append(z)
                    for inner in st.body:
                        if not (isinstance(inner, ast.If) and len(inner.body) == 1 and isinstance(inner.body[0], ast.Return)):
                            self.refuse(inner, 'loop body in __eq__')
                elif isinstance(st, ast.Return):
                    if isinstance(st.value, ast.Name) and st.value.id == 'NotImplemented':
                        continue
                    terms.extend(expr_terms(st.value))
                else:
                    self.refuse(st, 'statement in __eq__')

        walk(m.body)
        # de-duplicate, keep order
        seen, out = set(), []
        for t in terms:
            if t not in seen:
                seen.add(t)
                out.append(t)
        return out


def tables(repo_src, extra_sources=None):
    """returns list of {'class', 'file', 'eq': [...], 'hash': [...]} and a list of refusals"""
    out, refused = [], []
    for rel in FILES:
        text = (Path(repo_src) / rel).read_text()
        if extra_sources and rel in extra_sources:
            text = extra_sources[rel]
        tree = ast.parse(text)
        for node in tree.body:
            if not isinstance(node, ast.ClassDef):
                continue
            names = {m.name for m in node.body if isinstance(m, ast.FunctionDef)}
            if '__eq__' in names and '__hash__' in names:
                ct = ClassTranslator(rel, node)
                try:
                    h = ct.hashed()
                    e = ct.compared(h)
                    out.append({'class': node.name, 'file': rel, 'eq': e, 'hash': h})
                except Refused as r:
                    refused.append(str(r))
            elif '__eq__' in names and '__hash__' not in names:
                # defining __eq__ without __hash__ makes the class unhashable: not a consistency problem
                pass
    return out, refused


if __name__ == '__main__':
    import sys
    t, r = tables(sys.argv[1] if len(sys.argv) > 1 else '/repo/src')
    for c in t:
        bad = [x for x in c['hash'] if x not in c['eq']]
        print(c['class'], 'eq', c['eq'], 'hash', c['hash'], 'HASHED-NOT-COMPARED' if bad else '', bad)
    print('refused', r)


# ------------------------------------------------------------------------------------------ frozenmapping + caches
def mapping_table(repo_src, extra_sources=None):
    """pharmpy/internals/immutable.py: frozenmapping inherits `==` from collections.abc.Mapping
    (dict(self.items()) == dict(other.items()): the items as an UNORDERED collection, how = 2) and defines
    __hash__ over the items — ordered when they are put in a tuple/list (how = 3), unordered in a frozenset (how = 2)"""
    rel = 'pharmpy/internals/immutable.py'
    text = (Path(repo_src) / rel).read_text()
    if extra_sources and rel in extra_sources:
        text = extra_sources[rel]
    tree = ast.parse(text)
    out = []
    for node in tree.body:
        if not isinstance(node, ast.ClassDef):
            continue
        bases = [ast.unparse(b) for b in node.bases]
        if not any(b.startswith('Mapping') for b in bases):
            continue
        methods = {m.name: m for m in node.body if isinstance(m, ast.FunctionDef)}
        if '__eq__' in methods or '__hash__' not in methods:
            raise Refused(f'{rel}:{node.name}: expected __hash__ without __eq__ on a Mapping subclass')
        hashed = []
        for sub in ast.walk(methods['__hash__']):
            if isinstance(sub, ast.Call) and isinstance(sub.func, ast.Name) and sub.func.id == 'hash' and len(sub.args) == 1:
                arg = sub.args[0]
                names = attrs_of(arg, 'self')
                if not names:
                    continue
                if isinstance(arg, ast.Call) and isinstance(arg.func, ast.Name) and arg.func.id == 'frozenset':
                    how = 2
                elif isinstance(arg, ast.Call) and isinstance(arg.func, ast.Name) and arg.func.id in ('tuple', 'list'):
                    how = 3
                else:
                    raise Refused(f'{rel}:{node.name}: hash argument {ast.unparse(arg)[:60]}')
                hashed += [(n, how) for n in names]
        if not hashed:
            raise Refused(f'{rel}:{node.name}: no hash(...) of the items found')
        out.append({'class': node.name, 'file': rel, 'eq': [('mapping', 2)], 'hash': sorted(set(hashed))})
    return out


CACHE_FILES = ['pharmpy/internals/immutable.py'] + FILES + ['pharmpy/basic/expr.py', 'pharmpy/basic/unit.py',
                                                           'pharmpy/basic/matrix.py']


def cache_sites(repo_src, extra_sources=None):
    """every store into an attribute called `_hash` (the cached hash of cache_method / frozenmapping), classified:
    wrapper   : `self._hash = h` with `h = func(self)` in cache_method's wrapper          (own hash, just computed)
    lazy      : `self._hash = hash(...)` inside `if self._hash is None` in __hash__       (own hash, just computed)
    init_none : `self._hash = None` in __init__
    init_share: `self._hash = X._hash` in __init__ in a block whose other stores copy X's attributes verbatim
                (same content, same cache)
    carry     : anything else (a cache that travels to an object with possibly different content)"""
    sites = []
    for rel in CACHE_FILES:
        f = Path(repo_src) / rel
        if not f.exists():
            continue
        text = f.read_text()
        if extra_sources and rel in extra_sources:
            text = extra_sources[rel]
        tree = ast.parse(text)
        parents = {}
        for n in ast.walk(tree):
            for c in ast.iter_child_nodes(n):
                parents[id(c)] = n

        def enclosing(n, kinds):
            cur = parents.get(id(n))
            while cur is not None and not isinstance(cur, kinds):
                cur = parents.get(id(cur))
            return cur

        for n in ast.walk(tree):
            kind = None
            desc = None
            if isinstance(n, ast.Assign) and any(isinstance(t, ast.Attribute) and t.attr == '_hash' for t in n.targets):
                fn = enclosing(n, (ast.FunctionDef,))
                fname = fn.name if fn else '<module>'
                outer = enclosing(fn, (ast.FunctionDef,)) if fn else None
                tgt = next(t for t in n.targets if isinstance(t, ast.Attribute) and t.attr == '_hash')
                v = n.value
                desc = f'{rel}:{fname}:{n.lineno}: {ast.unparse(n)[:70]}'
                own = isinstance(tgt.value, ast.Name) and tgt.value.id == 'self'
                if own and fname == 'wrapper' and outer is not None and outer.name == 'cache_method' and isinstance(v, ast.Name):
                    ok = any(isinstance(s, ast.Assign) and isinstance(s.targets[0], ast.Name) and s.targets[0].id == v.id
                             and isinstance(s.value, ast.Call) and isinstance(s.value.func, ast.Name) and s.value.func.id == 'func'
                             and len(s.value.args) == 1 and isinstance(s.value.args[0], ast.Name) and s.value.args[0].id == 'self'
                             for s in ast.walk(fn))
                    kind = 'wrapper' if ok else 'carry'
                elif own and fname == '__hash__' and isinstance(v, ast.Call) and isinstance(v.func, ast.Name) and v.func.id == 'hash' \
                        and attrs_of(v, 'self'):
                    iff = enclosing(n, (ast.If,))
                    kind = 'lazy' if (iff is not None and ast.unparse(iff.test) == 'self._hash is None') else 'carry'
                elif own and fname == '__init__' and isinstance(v, ast.Constant) and v.value is None:
                    kind = 'init_none'
                elif own and fname == '__init__' and isinstance(v, ast.Attribute) and v.attr == '_hash' and isinstance(v.value, ast.Name):
                    src = v.value.id
                    block = parents.get(id(n))
                    body = [s for fld in ('body', 'orelse') for s in getattr(block, fld, []) if n in getattr(block, fld, [])]
                    verbatim = all(isinstance(s, ast.Assign) and len(s.targets) == 1 and self_attr(s.targets[0])
                                   and isinstance(s.value, ast.Attribute) and isinstance(s.value.value, ast.Name)
                                   and s.value.value.id == src and s.value.attr == s.targets[0].attr for s in body)
                    kind = 'init_share' if (body and verbatim) else 'carry'
                else:
                    kind = 'carry'
            elif (rel == 'pharmpy/internals/immutable.py' and isinstance(n, (ast.Assign, ast.AugAssign, ast.Delete))
                  and any(isinstance(x, ast.Attribute) and x.attr == '_mapping' and isinstance(x.ctx, (ast.Store, ast.Del))
                          or (isinstance(x, ast.Subscript) and isinstance(x.ctx, (ast.Store, ast.Del))
                              and isinstance(x.value, ast.Attribute) and x.value.attr == '_mapping')
                          for t in (n.targets if isinstance(n, (ast.Assign, ast.Delete)) else [n.target]) for x in ast.walk(t))):
                fn = enclosing(n, (ast.FunctionDef,))
                if fn is None or fn.name != '__init__':
                    # the content of an object that may already carry a cached hash is changed
                    kind, desc = 'carry', f'{rel}:{fn.name if fn else "<module>"}:{n.lineno}: {ast.unparse(n)[:70]}'
            elif isinstance(n, ast.Call):
                if any(k.arg == '_hash' for k in n.keywords):
                    kind, desc = 'carry', f'{rel}:{n.lineno}: {ast.unparse(n)[:70]}'
                elif (isinstance(n.func, (ast.Name, ast.Attribute)) and (getattr(n.func, 'id', None) == 'setattr' or getattr(n.func, 'attr', None) == '__setattr__')
                      and any(isinstance(a, ast.Constant) and a.value == '_hash' for a in n.args)):
                    kind, desc = 'carry', f'{rel}:{n.lineno}: {ast.unparse(n)[:70]}'
            if kind:
                sites.append({'kind': kind, 'site': desc})
    return sites


# ------------------------------------------------------------------------------------------ immutability of metadata
IMMUTABLE_FILES = ['pharmpy/internals/immutable.py'] + FILES


def store_sites(repo_src, extra_sources=None):
    """every store that can change an object of an Immutable model class (DataInfo, ColumnInfo, Parameter(s),
    RandomVariables, distributions, statements, execution steps, Model, frozenmapping) after construction, classified:
    init      : attribute store on self inside __init__ (construction)
    cache     : store into the `_hash` cache (covered by the cache obligation)
    singleton : class attribute store inside __new__ (Output's singleton instance)
    other     : attribute store / augmented store / del / setattr / subscript store into an own field / mutator
                method on an own field, anywhere else  -> the object is not a value"""
    MUT = {'append', 'extend', 'insert', 'remove', 'pop', 'clear', 'sort', 'reverse', 'update', 'setdefault', 'popitem',
           'add', 'discard', '__setitem__', '__delitem__'}
    sites = []
    classes = {}
    trees = {}
    for rel in IMMUTABLE_FILES:
        f = Path(repo_src) / rel
        text = f.read_text()
        if extra_sources and rel in extra_sources:
            text = extra_sources[rel]
        trees[rel] = ast.parse(text)
        for node in trees[rel].body:
            if isinstance(node, ast.ClassDef):
                classes[node.name] = (rel, node, [ast.unparse(b).split('[')[0] for b in node.bases])
    imm = {'Immutable'}
    changed = True
    while changed:
        changed = False
        for name, (rel, node, bases) in classes.items():
            if name not in imm and any(b in imm for b in bases):
                imm.add(name)
                changed = True
    imm.add('frozenmapping')
    for name in sorted(imm):
        if name not in classes or name == 'Immutable':
            continue
        rel, node, bases = classes[name]
        for m in node.body:
            if not isinstance(m, ast.FunctionDef):
                continue
            args = [a.arg for a in m.args.args]
            own = set(args[:1]) | {'other'} if args else set()
            for n in ast.walk(m):
                kind = None
                tgts = []
                if isinstance(n, ast.Assign):
                    tgts = n.targets
                elif isinstance(n, (ast.AugAssign, ast.AnnAssign)):
                    tgts = [n.target]
                elif isinstance(n, ast.Delete):
                    tgts = n.targets
                for t in tgts:
                    for x in ast.walk(t):
                        if isinstance(x, ast.Attribute) and isinstance(x.ctx, (ast.Store, ast.Del)) and isinstance(x.value, ast.Name):
                            if x.attr == '_hash':
                                kind = 'cache'
                            elif m.name in ('__init__', '__setstate__', '__post_init__') and x.value.id == 'self':
                                kind = 'init'
                            elif m.name == '__new__' and x.value.id == 'cls':
                                kind = 'singleton'
                            elif x.value.id in own or x.value.id in ('cls',):
                                kind = 'other'
                            else:
                                # a store into a local object of unknown class inside a method of an immutable class:
                                # builders (cb._g ...) are local mutable helpers, instances of immutable classes are not
                                kind = 'other' if x.attr.startswith('_') and x.value.id not in ('cb', 'builder') else None
                        elif (isinstance(x, ast.Subscript) and isinstance(x.ctx, (ast.Store, ast.Del))
                              and isinstance(x.value, ast.Attribute) and isinstance(x.value.value, ast.Name)
                              and x.value.value.id in own and m.name != '__init__'):
                            kind = 'other'
                        if kind:
                            sites.append({'kind': kind, 'site': f'{rel}:{name}.{m.name}:{n.lineno}: {ast.unparse(n)[:60]}'})
                            kind = None
                if isinstance(n, ast.Call):
                    f_ = n.func
                    if isinstance(f_, ast.Name) and f_.id in ('setattr', 'delattr') and n.args and isinstance(n.args[0], ast.Name) \
                            and n.args[0].id in own:
                        sites.append({'kind': 'other', 'site': f'{rel}:{name}.{m.name}:{n.lineno}: {ast.unparse(n)[:60]}'})
                    elif isinstance(f_, ast.Attribute) and f_.attr == '__setattr__':
                        sites.append({'kind': 'other', 'site': f'{rel}:{name}.{m.name}:{n.lineno}: {ast.unparse(n)[:60]}'})
                    elif (isinstance(f_, ast.Attribute) and f_.attr in MUT and isinstance(f_.value, ast.Attribute)
                          and isinstance(f_.value.value, ast.Name) and f_.value.value.id in own
                          and m.name not in ('__init__', '__setstate__', '__post_init__')):
                        sites.append({'kind': 'other', 'site': f'{rel}:{name}.{m.name}:{n.lineno}: {ast.unparse(n)[:60]}'})
    return sites, sorted(imm - {'Immutable'})
