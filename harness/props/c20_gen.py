"""Generators of C20 specs (JSON-able, replayable).  Numbers are writer forms (see c20_writer)."""
from harness.props import c20_writer as W

METHODS = [
    ('First Order Conditional Estimation with Interaction', 'MINIMUM VALUE OF OBJECTIVE FUNCTION', 'OBJ'),
    ('First Order', 'MINIMUM VALUE OF OBJECTIVE FUNCTION', 'OBJ'),
    ('Laplacian Conditional Estimation (Centered)', 'MINIMUM VALUE OF OBJECTIVE FUNCTION', 'OBJ'),
    ('Stochastic Approximation Expectation-Maximization', 'FINAL VALUE OF LIKELIHOOD FUNCTION', 'SAEMOBJ'),
    ('Importance Sampling', 'EXPECTED VALUE OF OBJECTIVE FUNCTION', 'OBJ'),
    ('Objective Function Evaluation by Importance Sampling', 'FINAL VALUE OF OBJECTIVE FUNCTION', 'OBJ'),
    ('MCMC Bayesian Analysis', 'AVERAGE VALUE OF LIKELIHOOD FUNCTION', 'MCMCOBJ'),
    ('First Order Conditional Estimation with Interaction (Evaluation)', 'MINIMUM VALUE OF OBJECTIVE FUNCTION', 'OBJ'),
]


def I(n):
    return ['i', n < 0, str(abs(n))]


def rsci(rng, zero_p=0.08, neg_p=0.3, emin=-9, emax=4):
    if rng.random() < zero_p:
        return ['e', False, '000000', False, '00']
    d = str(rng.randint(1, 9)) + ''.join(str(rng.randint(0, 9)) for _ in range(5))
    if rng.random() < 0.15:
        d = d[0] + '00000'
    e = rng.randint(emin, emax)
    return ['e', rng.random() < neg_p, d, e < 0, '%02d' % abs(e)]


def rpos(rng, **kw):
    x = rsci(rng, zero_p=0, neg_p=0, **kw)
    return x


ZERO = ['e', False, '000000', False, '00']
ONE = ['e', False, '100000', False, '00']
BIG = ['e', False, '100000', False, '10']


def robj(rng):
    ip = str(rng.randint(0, 99999))
    fp = ''.join(str(rng.randint(0, 9)) for _ in range(max(1, 17 - len(ip))))
    return ['f', rng.random() < 0.3, ip, fp]


OBJ0 = ['f', False, '0', '0000000000000000']


def gen_config(rng):
    nth = rng.choice([1, 2, 2, 3, 3, 4, 5, 6])
    thetas = [{'fix': rng.random() < 0.2, 'name': rng.random() < 0.7} for _ in range(nth)]

    def blocks(maxtotal):
        out, total = [], 0
        while total < maxtotal:
            size = rng.choice([1, 1, 1, 2, 2, 3])
            size = min(size, maxtotal - total)
            out.append({'size': size, 'fix': rng.random() < 0.2})
            total += size
            if rng.random() < 0.35:
                break
        return out
    cfg = {'thetas': thetas, 'omegas': blocks(rng.choice([1, 2, 3, 4])), 'sigmas': blocks(rng.choice([1, 1, 2]))}
    # at least one estimated parameter
    if all(t['fix'] for t in thetas) and all(b['fix'] for b in cfg['omegas'] + cfg['sigmas']):
        thetas[0]['fix'] = False
    return cfg


def matrix_entries(blocks):
    """[(row, col, block index or None)] for the full lower triangle, row-major, 1-based."""
    n = sum(b['size'] for b in blocks)
    owner = []
    for k, b in enumerate(blocks):
        owner += [k] * b['size']
    out = []
    for r in range(n):
        for c in range(r + 1):
            out.append((r + 1, c + 1, owner[r] if owner[r] == owner[c] else None))
    return out


def param_columns(cfg):
    """ext/cov column order of NONMEM: THETA, SIGMA, OMEGA. Each: (label, fixed, structural zero)."""
    cols = [(f'THETA{i + 1}', t['fix'], False) for i, t in enumerate(cfg['thetas'])]
    for pre, blocks in (('SIGMA', cfg['sigmas']), ('OMEGA', cfg['omegas'])):
        for (r, c, k) in matrix_entries(blocks):
            if k is None:
                cols.append((f'{pre}({r},{c})', True, True))
            else:
                cols.append((f'{pre}({r},{c})', blocks[k]['fix'], False))
    return cols


def gen_param_row(rng, cols, prev=None):
    row = []
    for j, (lab, fix, zero) in enumerate(cols):
        if zero:
            row.append(ZERO)
        elif fix and prev is not None:
            row.append(prev[j])
        elif lab[5] == '(' and lab[6:-1].split(',')[0] == lab[6:-1].split(',')[1]:
            row.append(rpos(rng, emin=-4, emax=1))
        else:
            x = rsci(rng, zero_p=0, emin=-4, emax=2)
            row.append(x)
    return row


def gen_ext_table(rng, cfg, number, method=None, opts=None):
    opts = dict(opts or {})
    cols = param_columns(cfg)
    meth, goal, objlab = method or rng.choice(METHODS)
    labels = ['ITERATION'] + [c[0] for c in cols] + [objlab]
    o = {
        'iter0': rng.random() < 0.92, 'niter': rng.choice([0, 1, 2, 3, 4, 6]), 'step': rng.choice([1, 1, 2, 5, 10]),
        'burn': rng.random() < 0.15, 'final': rng.random() < 0.88, 'final_equal': rng.random() < 0.85,
        'se': rng.random() < 0.6, 'se_sdcorr': rng.random() < 0.9, 'fixrow': rng.random() < 0.92,
        'dupfinal': rng.random() < 0.03, 'extra_codes': rng.random() < 0.5,
    }
    o.update(opts)
    if not o['iter0'] and o['niter'] == 0 and not o['burn'] and not o['final']:
        o['final'] = True        # a table always reports something
    rows = []
    its = []
    if o['burn']:
        its += [-rng.choice([20, 50]) + k * 10 for k in range(2)]
    if o['iter0']:
        its.append(0)
    its += [o['step'] * (k + 1) for k in range(o['niter'])]
    prev = None
    lastrow = None
    for it in its:
        pr = gen_param_row(rng, cols, prev)
        prev = pr
        obj = robj(rng)
        lastrow = (pr, obj)
        rows.append([I(it)] + pr + [obj])
    if prev is None:
        prev = gen_param_row(rng, cols, None)
        lastrow = (prev, robj(rng))
    if o['final']:
        if o['final_equal']:
            fr = [I(-1000000000)] + lastrow[0] + [lastrow[1]]
        else:
            fr = [I(-1000000000)] + gen_param_row(rng, cols, prev) + [robj(rng)]
        rows.append(fr)
        if o['dupfinal']:
            rows.append(list(fr))
    if o['se']:
        rows.append([I(-1000000001)] + [BIG if c[1] else rpos(rng, emin=-6, emax=0) for c in cols] + [OBJ0])
        if o['extra_codes']:
            rows.append([I(-1000000002)] + [rpos(rng, emin=-2, emax=1) for c in cols] + [OBJ0])
            rows.append([I(-1000000003)] + [rpos(rng, emin=0, emax=3)] + [rsci(rng) for c in cols[1:]] + [OBJ0])
    if o['se'] or rng.random() < 0.3:
        rows.append([I(-1000000004)] + [ZERO if c[0].startswith('THETA') else (ZERO if c[2] else rsci(rng, zero_p=0, emin=-2, emax=0)) for c in cols] + [OBJ0])
    if o['se'] and o['se_sdcorr']:
        rows.append([I(-1000000005)] + [ZERO if c[0].startswith('THETA') else (BIG if c[1] else rpos(rng, emin=-5, emax=-1)) for c in cols] + [OBJ0])
    if o['fixrow']:
        rows.append([I(-1000000006)] + [ONE if c[1] else ZERO for c in cols] + [OBJ0])
    if o['extra_codes']:
        rows.append([I(-1000000007)] + [rpos(rng, emin=0, emax=2) if j < 4 else ZERO for j, c in enumerate(cols)] + [OBJ0])
        if rng.random() < 0.4:
            rows.append([I(-1000000008)] + [rsci(rng) for c in cols] + [OBJ0])
    if o.get('fortran3', False):
        # a value below 1e-99 in an early iteration: Fortran drops the E (1.00000-100)
        cand = [(i, j) for i, r in enumerate(rows) if not r[0][1] for j, c in enumerate(cols) if not c[1]]
        if cand:
            i, j = rng.choice(cand)
            rows[i][1 + j] = ['x', False, rsci(rng, zero_p=0)[2], True, str(rng.randint(100, 140))]
    design = opts.get('design')
    title = {'number': number, 'method': meth, 'design': design, 'goal': goal if rng.random() < 0.9 else None,
             'ids': [1, opts.get('subproblem', 0), 0, 0, 0, 0]}
    return {'title': title, 'labels': labels, 'rows': rows, 'lastwide': True, 'repeat': 0}


def gen_phi_table(rng, cfg, number, method=None, nids=None, em=None):
    neta = sum(b['size'] for b in cfg['omegas'])
    em = rng.random() < 0.25 if em is None else em
    e, c = ('PHI', 'PHC') if em else ('ETA', 'ETC')
    labels = ['SUBJECT_NO', 'ID'] + [f'{e}({i + 1})' for i in range(neta)]
    labels += [f'{c}({r + 1},{k + 1})' for r in range(neta) for k in range(r + 1)]
    labels += ['OBJ']
    nids = nids or rng.choice([1, 2, 3, 5, 8])
    rows = []
    idv = 0
    for s in range(nids):
        idv += rng.choice([1, 1, 1, 2, 10])
        if rng.random() < 0.12:
            vals = [ZERO] * (neta + neta * (neta + 1) // 2) + [['f', False, '0', '0000000000000000']]
        else:
            vals = [rsci(rng, emin=-3, emax=0) for _ in range(neta)]
            for r in range(neta):
                for k in range(r + 1):
                    vals.append(rpos(rng, emin=-4, emax=-1) if r == k else rsci(rng, emin=-5, emax=-2))
            vals.append(robj(rng))
        rows.append([I(s + 1), I(idv)] + vals)
    meth = (method or rng.choice(METHODS))[0]
    title = {'number': number, 'method': meth, 'design': None, 'goal': None, 'ids': [1, 0, 0, 0, 0, 0]}
    return {'title': title, 'labels': labels, 'rows': rows, 'lastwide': True, 'repeat': 0}


def gen_cov_matrix(rng, cfg):
    """A symmetric positive definite matrix over the estimated parameters as exact small rationals, scaled;
    returned as dict (i,j)->writer number over ALL parameter columns (zeros for fixed)."""
    cols = param_columns(cfg)
    est = [j for j, c in enumerate(cols) if not c[1]]
    n = len(est)
    # A = L L^T with small integer L (diagonal >= 1) -> SPD with integer entries; scale rows by powers of ten
    L = [[0] * n for _ in range(n)]
    for i in range(n):
        for j in range(i):
            L[i][j] = rng.choice([0, 0, 1, -1, 2])
        L[i][i] = rng.choice([1, 2, 3])
    A = [[sum(L[i][k] * L[j][k] for k in range(n)) for j in range(n)] for i in range(n)]
    scale = [rng.choice([-3, -2, -1, 0]) for _ in range(n)]
    return cols, est, A, scale


def int_sci(v, e10):
    """integer v times 10^e10 as a writer 'e' number (v has at most 6 digits)."""
    if v == 0:
        return ZERO
    neg = v < 0
    s = str(abs(v))
    assert len(s) <= 6
    e = len(s) - 1 + e10
    d = s + '0' * (6 - len(s))
    return ['e', neg, d, e < 0, '%02d' % abs(e)]


def gen_cov_tables(rng, cfg, number, method=None):
    """cov, cor (NONMEM puts the SE on the diagonal of .cor), coi as writer tables.  Values of cor/coi are
    random (consistency is exercised at run level with computed matrices)."""
    cols, est, A, scale = gen_cov_matrix(rng, cfg)
    labels = ['NAME'] + [c[0] for c in cols]
    meth = (method or rng.choice(METHODS))[0]
    title = {'number': number, 'method': meth, 'design': None, 'goal': None, 'ids': [1, 0, 0, 0, 0, 0]}
    pos = {j: k for k, j in enumerate(est)}
    rows = []
    for i, ci in enumerate(cols):
        r = [['s', ci[0]]]
        for j, cj in enumerate(cols):
            if i in pos and j in pos:
                r.append(int_sci(A[pos[i]][pos[j]], scale[pos[i]] + scale[pos[j]]))
            else:
                r.append(ZERO)
        rows.append(r)
    return {'title': title, 'labels': labels, 'rows': rows, 'lastwide': False, 'repeat': 0}


TABCOLS = ['ID', 'TIME', 'DV', 'PRED', 'RES', 'WRES', 'CWRES', 'IPRED', 'CIPREDI', 'MDV', 'G11', 'H11', 'WGT', 'TAD']


def gen_tab_table(rng, number, ncols=None, nrows=None, repeat=None, labels=None, showlabels=True, short=True):
    labels = labels or rng.sample(TABCOLS, ncols or rng.randint(2, 7))
    nrows = rng.choice([1, 2, 4, 7, 12]) if nrows is None else nrows
    rows = [[rsci(rng, emin=-3, emax=3) for _ in labels] for _ in range(nrows)]
    return {'title': {'short': True, 'number': number}, 'labels': labels, 'rows': rows, 'lastwide': False,
            'repeat': rng.choice([0, 0, 2, 3, 5]) if repeat is None else repeat, 'showlabels': showlabels}


def mutate_text(rng, text):
    """Malformed stream: one or two text-level edits."""
    ops = rng.randint(1, 2)
    for _ in range(ops):
        if not text:
            break
        k = rng.choice(['delchar', 'touch', 'truncate', 'notitle', 'duptitle', 'blank', 'garbage', 'nan', 'tab',
                        'extrafield', 'dropfield', 'stars', 'lowertitle'])
        lines = text.split('\n')
        if k == 'delchar':
            i = rng.randrange(len(text))
            text = text[:i] + text[i + 1:]
        elif k == 'touch':
            idx = [i for i in range(1, len(text) - 1) if text[i] == ' ' and text[i + 1] == '-' and text[i - 1].isdigit()]
            if idx:
                i = rng.choice(idx)
                text = text[:i] + text[i + 1:]
        elif k == 'truncate':
            text = text[:rng.randrange(len(text))]
        elif k == 'notitle':
            text = '\n'.join(l for l in lines if not l.startswith('TABLE NO.')) if rng.random() < 0.5 else '\n'.join(lines[1:])
        elif k == 'duptitle':
            t = [i for i, l in enumerate(lines) if l.startswith('TABLE NO.')]
            if t:
                i = rng.choice(t)
                lines.insert(i, lines[i])
                text = '\n'.join(lines)
        elif k == 'blank':
            i = rng.randrange(len(lines))
            lines.insert(i, rng.choice(['', '   ', '\t']))
            text = '\n'.join(lines)
        elif k == 'garbage':
            i = rng.randrange(len(lines))
            lines[i] = lines[i] + rng.choice([' x', ' 1.0', ' #', ' 1E', ' --1'])
            text = '\n'.join(lines)
        elif k in ('nan', 'stars'):
            i = rng.randrange(len(lines))
            toks = lines[i].split(' ')
            cand = [j for j, t in enumerate(toks) if 'E' in t and t[-1].isdigit()]
            if cand:
                j = rng.choice(cand)
                toks[j] = rng.choice(['NaN', 'nan', 'NA']) if k == 'nan' else '*' * len(toks[j])
                lines[i] = ' '.join(toks)
                text = '\n'.join(lines)
        elif k == 'tab':
            i = rng.randrange(len(lines))
            lines[i] = lines[i].replace('  ', '\t', 2)
            text = '\n'.join(lines)
        elif k == 'extrafield':
            i = rng.randrange(len(lines))
            lines[i] = lines[i] + '  1.00000E+00'
            text = '\n'.join(lines)
        elif k == 'dropfield':
            i = rng.randrange(len(lines))
            lines[i] = lines[i][:max(0, len(lines[i]) - 13)]
            text = '\n'.join(lines)
        elif k == 'lowertitle':
            text = text.replace('TABLE NO.', rng.choice(['TABLE NO', 'Table NO.', 'TABLE NO.x']), 1)
    return text


def gen_fspec(rng):
    cfg = gen_config(rng)
    kind = rng.choice(['ext', 'ext', 'ext', 'ext', 'phi', 'phi', 'cov', 'cov', 'tab', 'tab', 'tab'])
    if kind == 'ext':
        n = rng.choice([1, 1, 1, 2, 3])
        tables = [gen_ext_table(rng, cfg, k + 1, opts={'fortran3': rng.random() < 0.06}) for k in range(n)]
        if rng.random() < 0.08:
            tables[-1]['title']['design'] = rng.choice(['D-OPTIMALITY', 'A_OPT', 'DS-OPTIMALITY'])
        suffix = '.ext'
    elif kind == 'phi':
        tables = [gen_phi_table(rng, cfg, k + 1) for k in range(rng.choice([1, 1, 2]))]
        suffix = '.phi'
    elif kind == 'cov':
        tables = [gen_cov_tables(rng, cfg, 1)]
        suffix = rng.choice(['.cov', '.cor', '.coi'])
    else:
        n = rng.choice([1, 1, 2, 3])
        labels = rng.sample(TABCOLS, rng.randint(2, 7))
        tables = [gen_tab_table(rng, k + 1, labels=labels) for k in range(n)]
        suffix = ''
    spec = {'level': 'file', 'suffix': suffix, 'notitle': False, 'tables': tables}
    r = rng.random()
    if kind == 'tab' and r < 0.12:
        # $TABLE ... NOTITLE: no title line, one table
        t = tables[0]
        t['title'] = None
        spec['tables'] = [t]
        spec['notitle'] = True
    elif kind == 'tab' and r < 0.2:
        # $TABLE ... NOHEADER: neither title nor labels
        t = tables[0]
        t['title'] = None
        t['showlabels'] = False
        t['repeat'] = 0
        spec['tables'] = [t]
        spec['notitle'] = True
    elif r < 0.3:
        spec['eol'] = 'crlf'
    elif r < 0.52:
        text = W.render_file(tables)
        spec = {'level': 'file', 'suffix': suffix, 'notitle': False, 'raw': mutate_text(rng, text)}
        if rng.random() < 0.02:
            spec['raw'] = ''
    return spec


# ------------------------------------------------------------------ run directories
def theta_name(i):
    return ['POP_CL', 'POP_V', 'POP_KA', 'TVQ', 'POP_F', 'TH6'][i]


def gen_model_text(cfg, steps, table_opts):
    neta = sum(b['size'] for b in cfg['omegas'])
    neps = sum(b['size'] for b in cfg['sigmas'])
    lines = ['$PROBLEM synthetic', '$INPUT ID TIME DV', '$DATA data.csv IGNORE=@', '$PRED']
    rhs = ' + '.join([f'THETA({i + 1})' for i in range(len(cfg['thetas']))] + [f'ETA({i + 1})' for i in range(neta)]
                     + [f'EPS({i + 1})' for i in range(neps)])
    lines.append('Y = ' + rhs)
    names = {}
    for i, t in enumerate(cfg['thetas']):
        nm = theta_name(i) if t['name'] else None
        lines.append(f"$THETA {'0.1 FIX' if t['fix'] else '(0,0.1)'}" + (f' ; {nm}' if nm else ''))
        names[f'THETA({i + 1})'] = nm or f'THETA_{i + 1}'
    for pre, blocks in (('OMEGA', cfg['omegas']), ('SIGMA', cfg['sigmas'])):
        off = 0
        for b in blocks:
            s = b['size']
            if s == 1:
                lines.append(f"${pre} 0.1{' FIX' if b['fix'] else ''}")
            else:
                vals = []
                for r in range(s):
                    for c in range(r + 1):
                        vals.append('0.1' if r == c else '0.01')
                lines.append(f"${pre} BLOCK({s}){' FIX' if b['fix'] else ''} " + ' '.join(vals))
            for r in range(s):
                for c in range(r + 1):
                    names[f'{pre}({off + r + 1},{off + c + 1})'] = f'{pre}_{off + r + 1}_{off + c + 1}'
            off += s
    for st in steps:
        lines.append(st)
    lines += table_opts
    return '\n'.join(lines) + '\n', names


EST_RECORDS = {
    'First Order Conditional Estimation with Interaction': '$ESTIMATION METHOD=1 INTER MAXEVAL=9999',
    'First Order': '$ESTIMATION METHOD=0',
    'Laplacian Conditional Estimation (Centered)': '$ESTIMATION METHOD=1 LAPLACE',
    'Stochastic Approximation Expectation-Maximization': '$ESTIMATION METHOD=SAEM NBURN=100 NITER=50',
    'Importance Sampling': '$ESTIMATION METHOD=IMP NITER=10',
    'Objective Function Evaluation by Importance Sampling': '$ESTIMATION METHOD=IMP EONLY=1 NITER=5',
    'MCMC Bayesian Analysis': '$ESTIMATION METHOD=BAYES NBURN=100 NITER=50',
    'First Order Conditional Estimation with Interaction (Evaluation)': '$ESTIMATION METHOD=1 INTER MAXEVAL=0',
}


def gen_rspec(rng, force=None):
    force = force or {}
    cfg = gen_config(rng)
    nsteps = rng.choice([1, 1, 1, 2, 2, 3])
    methods = [rng.choice(METHODS) for _ in range(nsteps)]
    if 'methods' in force:
        methods = force['methods']
        nsteps = len(methods)
    ext = []
    for k, m in enumerate(methods):
        opts = {'dupfinal': False}
        opts.update(force.get('ext_opts', {}))
        if k < nsteps - 1:
            opts['se'] = False
        elif 'se' not in opts:
            opts['se'] = rng.random() < 0.75
        ext.append(gen_ext_table(rng, cfg, k + 1, method=m, opts=opts))
    if force.get('design', rng.random() < 0.14):
        # a second $PROBLEM with $DESIGN: an optimal-design evaluation table closes the file (pheno_design.ext);
        # pharmpy skips it for estimates and objective value but takes standard errors / matrices from it
        dopts = {'dupfinal': False, 'iter0': False, 'niter': 0, 'burn': False, 'final': True, 'design': 'D-OPTIMALITY',
                 'se': rng.random() < 0.8, 'extra_codes': False}
        t = gen_ext_table(rng, cfg, nsteps + 1, method=('First Order (Evaluation)', 'MINIMUM VALUE OF OBJECTIVE FUNCTION', 'OBJ'), opts=dopts)
        t['title']['ids'][0] = 2
        for e in ext:
            e['rows'] = [r for r in e['rows'] if r[0] != I(-1000000001) and r[0] != I(-1000000005)]
        ext.append(t)
    has_cov = any(r[0] == I(-1000000001) for r in ext[-1]['rows'])
    covfiles = rng.choice(['all', 'cov', 'cov', 'cor', 'coi', 'coi', 'covcoi', 'covcoi', 'none']) if has_cov else 'none'
    neta = sum(b['size'] for b in cfg['omegas'])
    phi = [gen_phi_table(rng, cfg, k + 1, method=m, nids=3) for k, m in enumerate(methods)] if rng.random() < 0.8 else None
    if phi is not None and ext[-1]['title'].get('design') is not None:
        t = gen_phi_table(rng, cfg, nsteps + 1, method=('First Order (Evaluation)', '', ''), nids=3)
        t['title']['design'] = 'D-OPTIMALITY'
        t['title']['ids'][0] = 2
        phi.append(t)
    covstatus = has_cov and rng.random() < 0.9
    est_recs = [EST_RECORDS[m[0]] for m in methods]
    spec_design = ext[-1]['title'].get('design') is not None
    tab = None
    table_opts = []
    if has_cov:
        est_recs.append('$COVARIANCE')
    tr = rng.random()
    if tr < 0.6:
        labels = ['ID', 'TIME', 'DV', 'PRED', 'RES', 'CWRES']
        mode = rng.choice(['ONEHEADER', 'ONEHEADER', '', 'NOTITLE', 'NOHEADER', 'NOLABEL']) if tr < 0.25 else rng.choice(['ONEHEADER', ''])
        mode = force.get('table_mode', mode)
        t = gen_tab_table(rng, 1, labels=labels, nrows=4, repeat=0 if mode == 'ONEHEADER' else rng.choice([0, 2]))
        if mode == 'NOTITLE':
            t['title'] = None
        elif mode == 'NOHEADER':
            t['title'] = None
            t['showlabels'] = False
        elif mode == 'NOLABEL':
            t['showlabels'] = False
        # ID / TIME columns consistent with the data set
        for r, (i, tm) in zip(t['rows'], [(1, 0), (1, 1), (2, 0), (2, 1)]):
            r[0] = ['e', False, f'{i}00000', False, '00']
            r[1] = ['e', False, f'{tm}00000' if tm else '000000', False, '00']
        tab = {'table': t, 'mode': mode}
        table_opts = [f"$TABLE {' '.join(labels)} NOAPPEND NOPRINT {mode} FILE=sdtab1"]
    model, names = gen_model_text(cfg, est_recs, table_opts)
    spec = {'level': 'run', 'cfg': cfg, 'model': model, 'names': names, 'ext': ext, 'phi': phi,
            'covfiles': covfiles, 'covstatus': covstatus, 'tab': tab,
            'covseed': rng.randrange(10 ** 6), 'lst': True}
    return spec
