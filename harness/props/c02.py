"""C02 — generated NONMEM code means what the transformed model means (IR -> NM-TRAN).
Model: coq/theories/C02 (Lcs.v, Model.v, CondPrint.v, Spec.v, Check.v); theorems in Properties.v / Refuted.v.
Tie (see agents_out/C02.md):
  stream lcs   : pharmpy.internals.sequence.lcs.diff on random list pairs, exact op sequences;
  stream print : code_record.nmtran_assignment_string on random assignments; the printed text is read by
                 the reference reader harness/props/c02_nm.py and compared/evaluated inside Coq;
  stream cond  : NMTranPrinter boolean infix printing on random n-ary conditions;
  stream hist  : translation validation: model.code of models produced by random histories of public
                 transformations is read by the reference reader and run by nm_exec against the in-memory
                 statements / compartmental system (ADVAN/TRANS tables of Spec.v), plus re-reading;
  translator   : harness/props/c02_translate.py regenerates pk_param_conversion's rename table and
                 new_advan_trans's TRANS chain from /repo's source into build/gen/C02/PkConv.v; the
                 obligations of coq/theories/C02/PkConvObligations.v are re-checked against it on every run.
"""
import json
import random
import re
from pathlib import Path
from fractions import Fraction as F

import sympy

from harness.lib import coqterm as ct
from harness.lib import sym2coq as sc
from harness.lib.core import VERIF, source_sha
from harness.props import c02_nm as nm

LEVEL = 'proof'
IMPORTS = 'Base.PyData Base.Expr Base.Interp Base.Stmts C02.Model C02.CondPrint C02.Spec C02.Remap C02.IndexDiff C02.Read C02.KRename C02.Check'

TAGS = {
    1: 'lcs.diff differs from the model',
    2: 'nmtran_assignment_string differs from the model print_stmt',
    4: 'printed condition differs from the model printed_cond',
    5: 'new_compartmental_map differs from the model', 6: 'create_compartment_remap differs from the model',
    7: '_index_statements_diff differs from the model',
    8: 'the ADVAN5/7 renaming loop of pk_param_conversion differs from the model',
    20: 'a K{i}{j} entry does not move the rate constant with its compartments',
    16: 'the regrouped diff does not spell the new / old statements',
    19: '_index_statements_diff raised although the index covers the old statements',
    15: 'remap does not send the old number of a surviving compartment to its new number',
    11: 'printed statement does not mean what the assignment means (guard true)',
    12: 'diff script does not spell old/new',
    13: 'diff keeps fewer elements than the longest common subsequence',
    14: 'printer raised or printed unreadable NM-TRAN on a printable expression',
    17: 'printed condition does not mean what the sympy condition means (guard true)',
    18: 'condition printer raised or printed unreadable text',
    21: 'several logical IFs with overlapping conditions: last match wins instead of first',
    22: 'several logical IFs: a later condition reads the symbol an earlier IF assigned',
    23: 'dropped (0, True) piece although the variable is not zero at this point',
    31: '$PK/$PRED code differs from the statements before the ODE system',
    32: 'ADVAN/TRANS (or K parameters) denote a different compartmental system',
    33: '$DES differs from the differential equations of the model',
    34: 'F is not A(obs)/S(obs) of the NM observation compartment',
    35: '$ERROR code differs from the statements after the ODE system',
    36: 'S/F/ALAG/R/D/A index is not the NM compartment number',
    28: 'a PK parameter the ADVAN/TRANS requires is never assigned in $PK',
    43: 're-read model: F differs',
    50: 'the S<k> of the final model is not the index the history of renumberings (with map refresh) predicts',
    48: 'the CMT value of dose records is not the number of the dosing compartment',
    49: 'dose records carry the CMT of the central compartment although the model doses another compartment',
    44: 'the PK parameters defined are those of another TRANS than the one $SUBROUTINE declares',
    47: 'all PK parameter names of the TRANS are assigned but the model rates use other symbols',
    46: 'a volume parameter was given the literal value 1 and every 1 of the model replaced by it',
    30: 'a general nonlinear ADVAN (6, 8, 9, 13, ...) without $DES',
    37: 're-read model: statements before ODE differ', 38: 're-read model: compartmental system differs',
    39: 're-read model: statements after ODE differ', 40: 'generated code cannot be read back',
    41: 'parameters / random variables of the re-read model differ',
    42: 'generated code is not readable abbreviated code',
}
CORR = {1, 2, 4, 5, 6, 7, 8}
ORACLE = {11, 12, 13, 14, 15, 16, 19, 20, 17, 18, 31, 32, 33, 34, 35, 36, 37, 38, 39, 40, 41, 42, 43, 48, 50}
KNOWN_CLASS = {49: 'C02-CMT-DOSE-REMAP', 21: 'C02-PW-OVERLAP', 22: 'C02-PW-SELFREF', 23: 'C02-PW-ZERO-ELSE'}
# fixed in /repo (5cd6b91, 08b5390, 09fcba7, 4524793): C02-COND-NARY, C02-COND-PREC, C02-PRINT-FN2, C02-PRINT-INVFN,
# C02-DES-SCALE-STALE have no class tag any more -- a recurrence shows as oracle tags 17 / 14 / 34,36,43 = VIOLATION


# =================================================================== stream 1: lcs.diff
def gen_lcs(rng):
    style = rng.choice(['random', 'random', 'edit', 'edit', 'edit', 'same', 'disjoint', 'dups'])
    k = rng.choice([2, 3, 3, 4, 6])
    n = rng.choice([0, 1, 2, 3, 4, 5, 6, 8, 10, 14])
    a = [rng.randrange(k) for _ in range(n)]
    if style == 'random':
        b = [rng.randrange(k) for _ in range(rng.choice([0, 1, 2, 3, 5, 8, 12]))]
    elif style == 'same':
        b = list(a)
    elif style == 'disjoint':
        b = [x + k for x in a[: rng.randrange(len(a) + 1)]]
    elif style == 'dups':
        a = [rng.randrange(2) for _ in range(n)]
        b = [rng.randrange(2) for _ in range(rng.randrange(12))]
    else:
        b = list(a)
        for _ in range(rng.choice([1, 1, 2, 3])):
            op = rng.choice(['ins', 'del', 'rep', 'swap'])
            if op == 'ins' or not b:
                b.insert(rng.randrange(len(b) + 1), rng.randrange(k + 1))
            elif op == 'del':
                del b[rng.randrange(len(b))]
            elif op == 'rep':
                b[rng.randrange(len(b))] = rng.randrange(k + 1)
            elif len(b) >= 2:
                i = rng.randrange(len(b) - 1)
                b[i], b[i + 1] = b[i + 1], b[i]
    return {'kind': 'lcs', 'old': a, 'new': b}


OPS = {0: 'Keep', 1: 'Ins', -1: 'Del'}


def observe_lcs(spec, diff=None, perturb=None):
    if diff is None:
        from pharmpy.internals.sequence.lcs import diff
    obs = list(diff(list(spec['old']), list(spec['new'])))
    if perturb:
        obs = perturb(obs)
    natl = lambda l: ct.lst([ct.nat(x) for x in l])
    term = f"(mkL {natl(spec['old'])} {natl(spec['new'])} " + ct.lst([ct.pair(OPS[o], ct.nat(v)) for o, v in obs]) + ")"
    return term, {'n': len(spec['old']), 'm': len(spec['new']), 'ops': len(obs)}


# =================================================================== stream 2: nmtran_assignment_string
PSYMS = ['A', 'B', 'C', 'X']
PVALUES = [F(-2), F(-1), F(0), F(1), F(2), F(3), F(1, 2), F(3, 2), F(4), F(5)]


def rarith(rng, syms, depth, transcendental):
    """arithmetic expression text; transcendental functions only when asked (never inside conditions)"""
    if depth == 0 or rng.random() < 0.3:
        return rng.choice(syms) if rng.random() < 0.7 else str(rng.choice([1, 2, 3, 5]))
    ops = ['add', 'add', 'sub', 'mul', 'mul', 'div', 'pow', 'neg']
    if transcendental:
        ops += ['exp', 'log', 'sqrt', 'abs', 'inv']
    k = rng.choice(ops)
    a, b = rarith(rng, syms, depth - 1, transcendental), rarith(rng, syms, depth - 1, transcendental)
    return {'add': f'({a} + {b})', 'sub': f'({a} - ({b}))', 'mul': f'({a})*({b})', 'div': f'({a})/({b})',
            'pow': f'({a})**{rng.choice([2, 3, -1, -2])}', 'neg': f'-({a})', 'exp': f'exp({a})', 'log': f'log({a})',
            'sqrt': f'sqrt({a})', 'abs': f'Abs({a})', 'inv': f'1/({a})'}[k]


def rrel(rng, syms):
    a = rarith(rng, syms, rng.choice([0, 0, 1]), False)
    if not re.search('[A-Z]', a):
        a = rng.choice(syms)
    b = str(rng.choice([-1, 0, 1, 2, 3])) if rng.random() < 0.7 else rarith(rng, syms, 0, False)
    op = rng.choice(['<', '<=', '>', '>=', 'Eq', 'Ne'])
    return f'{op}({a}, {b})' if op in ('Eq', 'Ne') else f'(({a}) {op} ({b}))'


def gen_print(rng):
    lhs = 'X'
    kind = rng.choice(['plain', 'pw', 'pw', 'pw', 'pw'])
    if kind == 'plain':
        syms = ['A', 'B', 'C', 'X']
        e = rarith(rng, syms, rng.choice([1, 2, 3]), True)
        if rng.random() < 0.08:
            e = rng.choice([f'1/log({e})', f'Mod({e}, 2)', f'1/exp(A) + 1/Abs({e})', '2/log(A)', 'exp(1/log(A))'])
    else:
        n = rng.choice([1, 2, 2, 3, 3, 4])
        atomic = rng.random() < 0.5
        selfref = rng.random() < 0.25
        csyms = ['A', 'B', 'C'] + (['X'] if selfref else [])
        exclusive = rng.random() < 0.35
        pieces = []
        pivot = rng.choice(['A', 'B'])
        consts = rng.sample([0, 1, 2, 3, 4], min(n, 5))
        for i in range(n):
            if atomic:
                v = rng.choice(['1', '2', '0', '-1', '5', 'A', 'B', 'X', '1/2'])
            else:
                v = rarith(rng, ['A', 'B', 'C', 'X'], rng.choice([1, 2]), False)
            if exclusive:
                c = f'Eq({pivot}, {consts[i % len(consts)]})'
            else:
                c = rrel(rng, csyms)
                if rng.random() < 0.2:
                    c = f'{rng.choice(["And", "Or"])}({c}, {rrel(rng, csyms)})'
                    if rng.random() < 0.4:
                        c = f'{rng.choice(["And", "Or"])}({c}, {rrel(rng, csyms)}, {rrel(rng, csyms)})'
            pieces.append(f'({v}, {c})')
        els = rng.choice(['none', 'none', 'self', 'zero', 'zero', 'const', 'expr'])
        if els == 'self':
            pieces.append('(X, True)')
        elif els == 'zero':
            pieces.append('(0, True)')
        elif els == 'const':
            pieces.append(f'({rng.choice([1, 2, 7])}, True)')
        elif els == 'expr':
            pieces.append(f'({rarith(rng, ["A", "B", "X"], 1, False)}, True)')
        e = 'Piecewise(' + ', '.join(pieces) + ')'
    defined = [s for s in ['A', 'X', 'Q'] if rng.random() < 0.5]
    pts = []
    for _ in range(7):
        pts.append({s: str(rng.choice(PVALUES)) for s in PSYMS})
    if rng.random() < 0.5:          # a state in which X really is zero (NM-TRAN initialisation)
        for p in pts[:4]:
            p['X'] = '0'
    return {'kind': 'print', 'lhs': lhs, 'expr': e, 'defined': defined, 'points': pts}


def _arity_ok(c):
    """And/Or with exactly two relational arguments (stream print keeps the condition printer's defects out)"""
    from sympy.logic.boolalg import And, Or, Not
    from sympy.core.relational import Relational
    if isinstance(c, (And, Or)):
        return len(c.args) == 2 and all(isinstance(a, Relational) for a in c.args)
    if isinstance(c, Not):
        return isinstance(c.args[0], Relational)
    return True


def rationalize(e):
    """Floats -> the exact rational of the double (what NONMEM reads from the printed decimal)"""
    return e.xreplace({f: sympy.Rational(F(float(f))) for f in e.atoms(sympy.Float)})


def tokens_of(text):
    """tokens of printed code (None: not tokenizable); the grammar is read inside Coq (C02.Read)"""
    try:
        return nm.tokens(text)
    except (nm.ParseError, nm.Unsupported):
        return None


def observe_print(spec, printer=None, perturb=None):
    from pharmpy.basic import Expr
    from pharmpy.model import Assignment
    if printer is None:
        from pharmpy.model.external.nonmem.records.code_record import nmtran_assignment_string as printer
    se = sympy.sympify(spec['expr'])
    if se.has(sympy.zoo, sympy.nan, sympy.oo, sympy.I):
        raise sc.Unconvertible('non-finite')
    a = Assignment.create(Expr.symbol(spec['lhs']), Expr(se))
    names = ct.Names()
    for s in PSYMS + ['Q']:
        names.get(s)
    eterm = sc.expr(rationalize(sc.to_sympy(a.expression)), names)
    info = {'exc': None}
    try:
        text = printer(a, set(Expr.symbol(d) for d in spec['defined']), None, None)
        parsed = tokens_of(text + '\n')
        if parsed is not None and perturb:
            parsed = perturb(parsed)
    except Exception as ex:  # the printer raised
        text, parsed = None, None
        info['exc'] = type(ex).__name__
    info['text'] = text
    impl = 'None' if parsed is None else f'(Some {nm.toks_term(parsed, names)})'
    envs = ct.lst([ct.lst([ct.pair(names.p(k), ct.q(F(v))) for k, v in p.items()]) for p in spec['points']])
    term = (f"(mkP {ct.lst([names.p(d) for d in spec['defined']])} {names.p(spec['lhs'])} {eterm}\n  {impl}\n  {envs})")
    info['is_pw'] = isinstance(sc.to_sympy(a.expression), sympy.Piecewise)
    return term, info


# =================================================================== stream 3: conditions
def rcond(rng, depth):
    if depth == 0 or rng.random() < 0.25:
        return rrel(rng, ['A', 'B', 'C'])
    k = rng.choice(['And', 'Or', 'And', 'Or', 'Not'])
    if k == 'Not':
        return f'Not({rcond(rng, depth - 1)})'
    n = rng.choice([2, 2, 2, 3])
    return f'{k}(' + ', '.join(rcond(rng, depth - 1) for _ in range(n)) + ')'


def gen_cond(rng):
    pts = [{s: str(rng.choice(PVALUES)) for s in ['A', 'B', 'C']} for _ in range(10)]
    return {'kind': 'cond', 'cond': rcond(rng, rng.choice([1, 2, 2, 3])), 'points': pts}


def scond_term(c, names):
    from sympy.core.relational import Relational
    from sympy.logic.boolalg import And, BooleanFalse, BooleanTrue, Not, Or
    if isinstance(c, BooleanTrue):
        return 'STrue'
    if isinstance(c, BooleanFalse):
        return 'SFalse'
    if isinstance(c, Relational):
        return f'(SRel {sc.REL[c.rel_op]} {sc._expr(c.lhs, names)} {sc._expr(c.rhs, names)})'
    if isinstance(c, (And, Or)):
        args = [scond_term(a, names) for a in c.args]      # the order _do_infix sees: expr.args
        more = 'SNil'
        for a in reversed(args[2:]):
            more = f'(SCons {a} {more})'
        return f"({'SAnd' if isinstance(c, And) else 'SOr'} {args[0]} {args[1]} {more})"
    if isinstance(c, Not):
        return f'(SNot {scond_term(c.args[0], names)})'
    raise sc.Unconvertible(type(c).__name__)


def observe_cond(spec, translate=None, perturb=None):
    if translate is None:
        from pharmpy.model.external.nonmem.records.code_record import _translate_condition as translate
    c = sympy.sympify(spec['cond'])
    from sympy.logic.boolalg import BooleanAtom
    if isinstance(c, BooleanAtom):
        raise sc.Unconvertible('folded to a constant')
    names = ct.Names()
    for s in ['A', 'B', 'C']:
        names.get(s)
    cterm = scond_term(c, names)
    info = {'exc': None}
    try:
        text = translate(c)
        parsed = [t for t in nm.tokens(text) if t != ('kw', 'NL')]
        if perturb:
            parsed = perturb(parsed)
    except (nm.ParseError, nm.Unsupported):
        parsed = None
    except Exception as ex:
        text, parsed = None, None
        info['exc'] = type(ex).__name__
    info['text'] = text
    impl = 'None' if parsed is None else f'(Some {nm.toks_term(parsed, names)})'
    envs = ct.lst([ct.lst([ct.pair(names.p(k), ct.q(F(v))) for k, v in p.items()]) for p in spec['points']])
    return f'(mkC {cterm} {impl} {envs})', info


# =================================================================== stream 5: compartment renumbering
CNAMES = ['DEPOT', 'CENTRAL', 'PERIPHERAL1', 'PERIPHERAL2', 'TRANSIT1', 'TRANSIT2', 'EFFECT', 'METABOLITE', 'OUTPUT']


def gen_remap(rng):
    old = rng.sample(CNAMES[:-1], rng.choice([1, 2, 3, 4, 5]))
    new = list(old)
    for _ in range(rng.choice([0, 1, 1, 2])):
        if rng.random() < 0.5 and len(new) > 1:
            del new[rng.randrange(len(new))]
        else:
            cand = [c for c in CNAMES[:-1] if c not in new]
            if cand:
                new.insert(rng.randrange(len(new) + 1), rng.choice(cand))
    if rng.random() < 0.3:
        rng.shuffle(new)
    oldmap = {n: i for i, n in enumerate(old, start=1)}
    if rng.random() < 0.5:          # pk_param_conversion adds OUTPUT as the last "compartment" of both maps
        oldmap['OUTPUT'] = len(oldmap) + 1
        new = new + ['OUTPUT']
    if rng.random() < 0.08 and len(oldmap) >= 2:      # malformed: two names with the same number
        k = rng.choice(list(oldmap))
        oldmap[k] = rng.choice([v for kk, v in oldmap.items() if kk != k])
    return {'kind': 'remap', 'names': new, 'oldmap': [[k, v] for k, v in oldmap.items()]}


def observe_remap(spec, funcs=None, perturb=None):
    if funcs is None:
        from pharmpy.model.external.nonmem.update import create_compartment_remap, new_compartmental_map
        funcs = (new_compartmental_map, create_compartment_remap)

    class CS:
        compartment_names = list(spec['names'])
    newmap = funcs[0](CS())
    oldmap = {k: v for k, v in spec['oldmap']}
    remap = funcs[1](dict(oldmap), dict(newmap))
    if perturb:
        remap = perturb(remap)
    names = ct.Names()
    for n in CNAMES:
        names.get(n)
    cm = lambda d: ct.lst([ct.pair(names.p(k), ct.nat(v)) for k, v in d.items()])
    term = (f"(mkR {ct.lst([names.p(n) for n in spec['names']])} {cm(oldmap)} {cm(newmap)} "
            + ct.lst([ct.pair(ct.nat(k), ct.nat(v)) for k, v in remap.items()]) + ")")
    return term, {'n_old': len(oldmap), 'n_new': len(newmap)}


# =================================================================== stream 6: _index_statements_diff
def gen_isd(rng):
    spec = gen_lcs(rng)
    old, new = spec['old'], spec['new']
    from pharmpy.internals.sequence.lcs import diff
    script = [[o, v] for o, v in diff(list(old), list(new))]
    if rng.random() < 0.15:                      # an arbitrary script, not one diff would produce
        script = [[rng.choice([0, 1, -1]), rng.randrange(4)] for _ in range(rng.randrange(8))]
        old = [v for o, v in script if o != 1]
    # a partition of the old statements into groups, each mapped to a node span
    index, si, ni = [], 0, rng.randrange(3)
    while si < len(old):
        k = min(len(old) - si, rng.choice([1, 1, 1, 2, 3]))
        nj = ni + rng.choice([1, 1, 2])
        index.append([ni, nj, si, si + k])
        si += k
        ni = nj + rng.choice([0, 0, 1])
    r = rng.random()
    if r < 0.06 and index:
        index.pop()                              # malformed: too few entries (assert fails)
    elif r < 0.12 and index:
        index[-1][3] += 1                        # malformed: the last group expects one statement more
    elif r < 0.16:
        index.append([ni, ni + 1, si, si + 1])   # one entry too many: harmless
    return {'kind': 'isd', 'last': index[0][0] if index else rng.randrange(3), 'index': index, 'script': script}


def observe_isd(spec, func=None, perturb=None):
    if func is None:
        from pharmpy.model.external.nonmem.records.code_record import _index_statements_diff as func
    script = [(o, v) for o, v in spec['script']]
    try:
        obs = [(op, list(st), ni, nj) for op, st, ni, nj in func(spec['last'], [tuple(e) for e in spec['index']], iter(script))]
        if perturb:
            obs = perturb(obs)
    except (AssertionError, RuntimeError, StopIteration, IndexError) as e:
        obs = None
    natl = lambda l: ct.lst([ct.nat(x) for x in l])
    it = ct.lst([ct.tup(*[ct.nat(x) for x in e]) for e in spec['index']])
    sc_ = ct.lst([ct.pair(OPS[o], ct.nat(v)) for o, v in script])
    ob = 'None' if obs is None else '(Some ' + ct.lst([ct.tup(OPS[o], natl(st), ct.nat(ni), ct.nat(nj)) for o, st, ni, nj in obs]) + ')'
    return f"(mkI {ct.nat(spec['last'])} {it} {sc_} {ob})", {'groups': len(spec['index']), 'raised': obs is None}


# =================================================================== stream 7: the ADVAN5/7 renaming loop
_KLOOP = {}


def extract_k_loop(update_py=None):
    """The body of `if from_advan == 'ADVAN5' or from_advan == 'ADVAN7':` of pk_param_conversion, taken from the
    CURRENT source with ast and compiled as a function of its free variables (fail-closed: refused if absent)."""
    import ast
    from harness.lib import core
    src = Path(update_py) if update_py else core.REPO / 'src/pharmpy/model/external/nonmem/update.py'
    key = str(src)
    if key in _KLOOP:
        return _KLOOP[key]
    tree = ast.parse(src.read_text())
    fn = next((n for n in tree.body if isinstance(n, ast.FunctionDef) and n.name == 'pk_param_conversion'), None)
    node = None
    for st in (fn.body if fn else []):
        if isinstance(st, ast.If) and ast.unparse(st.test) == "from_advan == 'ADVAN5' or from_advan == 'ADVAN7'":
            node = st
    if node is None:
        raise SkipCase('TRANSLATOR-REFUSED: ADVAN5/7 branch of pk_param_conversion not found')
    fdef = ast.FunctionDef(name='_k_loop', args=ast.arguments(posonlyargs=[], args=[ast.arg(arg=a) for a in
                           ('oldmap', 'newmap', 'remap', 'cs', 'advan', 'd', 'Expr', 'product')], kwonlyargs=[], kw_defaults=[], defaults=[]),
                           body=node.body + [ast.Return(value=ast.Name(id='d', ctx=ast.Load()))], decorator_list=[])
    mod = ast.Module(body=[fdef], type_ignores=[])
    ast.fix_missing_locations(mod)
    env = {}
    exec(compile(mod, str(src) + ':k_loop', 'exec'), env)
    _KLOOP[key] = env['_k_loop']
    return _KLOOP[key]


def gen_krename(rng):
    old = rng.sample(CNAMES[:-1], rng.choice([1, 2, 3, 4, 5]))
    new = list(old)
    for _ in range(rng.choice([0, 1, 1, 2])):
        if rng.random() < 0.5 and len(new) > 1:
            del new[rng.randrange(len(new))]
        else:
            cand = [c for c in CNAMES[:-1] if c not in new]
            if cand:
                new.insert(rng.randrange(len(new) + 1), rng.choice(cand))
    flows = []
    for a in new:
        for b in new:
            if a != b and rng.random() < 0.35:
                flows.append([a, b])
    return {'kind': 'krename', 'old': old, 'new': new, 'flows': flows, 'advan3': rng.random() < 0.2}


def observe_krename(spec, loop=None, perturb=None):
    from itertools import product
    from pharmpy.model.external.nonmem.update import create_compartment_remap
    loop = loop or extract_k_loop()
    oldmap = {n: i for i, n in enumerate(spec['old'], start=1)}
    oldmap['OUTPUT'] = len(oldmap) + 1
    newmap = {n: i for i, n in enumerate(spec['new'], start=1)}
    newmap['OUTPUT'] = len(newmap) + 1
    remap = create_compartment_remap(oldmap, newmap)
    flows = {(a, b) for a, b in spec['flows']}

    class CS:
        def __len__(self):
            return len(spec['new'])

        def find_compartment(self, name):
            return name

        def get_flow(self, a, b):
            return 1 if (a, b) in flows else 0

    class E:
        @staticmethod
        def symbol(name):
            return name
    try:
        d = loop(dict(oldmap), dict(newmap), dict(remap), CS(), 'ADVAN3' if spec['advan3'] else 'ADVAN5', {}, E, product)
        obs = []
        for k, v in d.items():
            m = re.fullmatch(r'K(\d+)T(\d+)', k)
            if not m:
                continue
            i, j = int(m.group(1)), int(m.group(2))
            plain = d.get(f'K{i}{j}')
            m2 = re.fullmatch(r'K(\d+)T(\d+)', v)
            val = (int(m2.group(1)), int(m2.group(2))) if m2 else None
            if (val is None and (v != 'K' or plain != 'K')) or (val is not None and plain != f'K{val[0]}{val[1]}'):
                val = (999, 999)          # the two spellings disagree: made visible as a mismatch
            obs.append(((i, j), val))
        if perturb:
            obs = perturb(obs)
    except (KeyError, AssertionError):
        obs = None
    num = {n: i for n, i in newmap.items()}
    fl = ct.lst([ct.pair(ct.nat(num[a]), ct.nat(num[b])) for a, b in sorted(flows)])
    ob = 'None' if obs is None else '(Some ' + ct.lst([ct.pair(ct.pair(ct.nat(i), ct.nat(j)),
                                                         'None' if v is None else f'(Some {ct.pair(ct.nat(v[0]), ct.nat(v[1]))})')
                                                 for (i, j), v in obs]) + ')'
    term = (f"(mkK {ct.nat(len(oldmap))} " + ct.lst([ct.pair(ct.nat(a), ct.nat(b)) for a, b in remap.items()])
            + f" {ct.nat(len(spec['new']))} {fl} {ct.boolean(spec['advan3'])} {ob})")
    return term, {'entries': 0 if obs is None else len(obs), 'raised': obs is None}


# =================================================================== classification
def _slim(info):
    return {k: v for k, v in info.items() if k != 'code'} if isinstance(info, dict) else info


def classify(ctx, spec, tags, info):
    tags = set(tags)
    status = 'ok'
    for t in sorted(tags & set(KNOWN_CLASS)):
        fid = KNOWN_CLASS[t]
        if not (tags & CORR) and ctx.open_finding(fid):
            ctx.coverage.setdefault('known_hits', {}).setdefault(fid, 0)
            ctx.coverage['known_hits'][fid] += 1
            if status == 'ok':
                status = 'known'
        else:
            ctx.violation(TAGS[t], {'spec': spec, 'tags': sorted(tags), 'tag_meaning': TAGS[t], 'info': info})
            status = 'violation'
    excused = set()
    for t in sorted(tags & set(HIST_CLASS)):
        fid, explains = HIST_CLASS[t]
        if ctx.open_finding(fid):
            excused |= explains
            ctx.coverage.setdefault('known_hits', {}).setdefault(fid, 0)
            ctx.coverage['known_hits'][fid] += 1
            if status == 'ok':
                status = 'known'
        else:
            ctx.violation(TAGS[t], {'spec': spec, 'tags': sorted(tags), 'tag_meaning': TAGS[t], 'info': _slim(info)})
            status = 'violation'
    for t in sorted((tags & ORACLE) - excused):
        ctx.violation(TAGS[t], {'spec': spec, 'tags': sorted(tags), 'tag_meaning': TAGS[t], 'info': _slim(info)})
        status = 'violation'
    if (tags & CORR) and status != 'violation':
        ctx.broken.append('correspondence C02 model vs implementation: ' + ', '.join(TAGS[t] for t in sorted(tags & CORR))
                          + ' on ' + json.dumps(spec)[:600])
        ctx.coverage.setdefault('corr_disagreements', []).append({'spec': spec, 'tags': sorted(tags)})
        status = 'broken'
    return status


STREAMS = {
    'lcs': (observe_lcs, 'lcase', 'verdict_lcs', 250),
    'print': (observe_print, 'pcase', 'verdict_print', 120),
    'cond': (observe_cond, 'ccase', 'verdict_cond', 200),
    'remap': (observe_remap, 'rcase', 'verdict_remap', 300),
    'isd': (observe_isd, 'icase', 'verdict_isd', 300),
    'krename': (observe_krename, 'kcase', 'verdict_krename', 300),
}


def run_stream(ctx, kind, specs, label, quiet=False, **kw):
    observe, ctype, verdict, shard = STREAMS[kind] if kind in STREAMS else HSTREAM
    terms, kept, infos = [], [], []
    skipped = {}
    for spec in specs:
        try:
            term, info = observe(spec, **kw)
        except (sc.Unconvertible, ZeroDivisionError, sympy.SympifyError, TypeError, RecursionError, RuntimeError, SkipCase) as e:
            key = type(e).__name__ + (':' + str(e)[:40] if isinstance(e, (SkipCase, sc.Unconvertible)) else '')
            skipped[key] = skipped.get(key, 0) + 1
            continue
        except CodeUnreadable as e:
            if not quiet:
                ctx.violation(TAGS[42], {'spec': spec, 'tags': [42], 'tag_meaning': TAGS[42], 'error': str(e)})
            continue
        terms.append(term)
        kept.append(spec)
        infos.append(info)
    verdicts = ctx.run_cases(label, IMPORTS, ctype, terms, verdict, shard=shard) if terms else []
    stats = {'ok': 0, 'known': 0, 'violation': 0, 'broken': 0}
    if not quiet:
        for spec, tags, info in zip(kept, verdicts, infos):
            stats[classify(ctx, spec, tags, info)] += 1
        sk = ctx.coverage.setdefault('skipped', {}).setdefault(kind, {})
        for k, v in skipped.items():
            sk[k] = sk.get(k, 0) + v
    return kept, verdicts, infos, stats


from harness.props import c02_hist as hist   # noqa: E402
from harness.props.c02_hist import CodeUnreadable, SkipCase   # noqa: E402

HSTREAM = (hist.observe_hist, 'hcase_t', 'verdict_hist_t', 6)
# explanation tag -> (finding id, oracle tags it explains)
HIST_CLASS = {28: ('C02-TRANS1-MISSING-K', {32, 38}),
              30: ('C02-SOLVER-NO-DES', {33, 40}),
              44: ('C02-TRANS-NOT-WRITTEN', {32, 38}),
              47: ('C02-RATIO-NAME-TAKEN', {32, 38}),
              46: ('C02-RATIO-DENOM-ONE', {31, 32, 34, 35, 36, 37, 38, 39, 43})}


# =================================================================== driver
def spec_kind(spec):
    return spec.get('kind', 'print')


def finding_probes(ctx):
    """Replay the stored witness of every open finding on the real code."""
    for f in ctx.findings:
        if f.get('status') != 'open':
            continue
        spec = f['witness']
        try:
            kept, verdicts, _, _ = run_stream(ctx, spec_kind(spec), [spec], 'finding-' + f['id'], quiet=True)
        except Exception as e:   # noqa
            ctx.notes.append(f"finding_probe_error {f['id']}: {type(e).__name__}: {e}")
            continue
        tags = set(verdicts[0]) if verdicts else set()
        if f['expect_tag'] in tags and not (tags & CORR):
            ctx.known(f['id'])
        else:
            ctx.notes.append(f"finding_not_reproduced {f['id']} (tags {sorted(tags)})")


def hist_counts(verdicts, lo, hi):
    h = {}
    for v in verdicts:
        for t in v:
            if lo <= t < hi:
                h[str(t)] = h.get(str(t), 0) + 1
    return h


def run(ctx):
    # entries staged in known_findings.d replace the merged ones with the same id (later wins)
    byid = {}
    for f in ctx.findings:
        byid[f['id']] = f
    ctx.findings = list(byid.values())
    ok = ctx.build_gate(['C02'])
    ctx.trusted += [
        'harness/props/c02_nm.py: TOKENIZER of NM-TRAN abbreviated code only (comments, continuation lines, case, numbers, '
        'subscripted variables, $ABBR REPLACE names, keywords, operator spellings, record splitting); the grammar (Fortran '
        'precedence, IF blocks) is the Coq reader coq/theories/C02/Read.v, with read_emit proved against a reference emitter',
        'coq/theories/C02/Spec.v: ADVAN/TRANS flow tables, default observation compartments, parameter-name tables (NONMEM Users Guide)',
        'harness/lib/sym2coq.py + coqterm.py (conversion of real sympy trees to Gallina terms); harness/props/c02.py generators, '
        'name maps (THETA(i)/ETA(i)/EPS(i) by position, A_<name>(t) -> A(n) by compartment order) and classification',
        'harness/props/c02_translate.py: fail-closed ast translator of pk_param_conversion / new_advan_trans',
        'Base/Interp.v exact interpretation of exp/log/sqrt/pow used only for comparing expressions by evaluation',
    ]
    ctx.assumptions += [
        'sympy canonicalisation and sympy.StrPrinter (operator precedence, Mul/Add printing) are engines: every printed text is '
        're-read by the reference reader and compared by exact evaluation over Q, not proved',
        'NM-TRAN semantics assumed: sequential Fortran-like execution; a user variable that is only conditionally assigned is 0 when no '
        'condition held; integer literals denote reals; names are case-insensitive; PK-defined variables keep their value in $ERROR',
        'not covered: integrating the ODE system (systems are compared as systems: flows / DADT right-hand sides); TRANS5/TRANS6; '
        'update_estimation/$TABLE/$SIZES; the sign() special case; nested Piecewise; dataset files written by write_csv',
    ]
    ctx.coverage['source_sha'] = source_sha('src/pharmpy/model/external/nonmem/records/code_record.py',
                                            'src/pharmpy/internals/sequence/lcs.py',
                                            'src/pharmpy/model/external/nonmem/update.py')
    if not ok:
        return
    quick = ctx.tier == 'quick'
    if not quick:
        from harness.lib import core
        rc, out = core.sh(['coqchk', '-silent', '-o', '-Q', str(core.THEORIES), 'PV', 'PV.C02.Properties', 'PV.C02.Refuted'],
                          timeout=1500, cwd=core.COQ)
        ctx.coverage['coqchk'] = 'ok' if rc == 0 else out[-400:]
        if rc != 0:
            ctx.broken.append('coqchk failed on PV.C02.Properties / Refuted: ' + out[-300:])
    finding_probes(ctx)
    reg = sorted((VERIF / 'regress' / 'C02').glob('*.json'))
    regspecs = [json.loads(p.read_text()) for p in reg]
    dist = {}
    evaluations = 0
    distinct = set()
    samples = []
    # one independent generator per stream, all derived from ctx.rng (VERIF_SEED) in a fixed order
    rngs = {k: random.Random(ctx.rng.getrandbits(64)) for k in ('lcs', 'print', 'cond', 'hist', 'remap', 'isd', 'krename')}
    ctx.stream_rngs = rngs
    plan = [('lcs', gen_lcs, 600 if quick else 12000), ('print', gen_print, 500 if quick else 8000),
            ('cond', gen_cond, 300 if quick else 4000), ('remap', gen_remap, 300 if quick else 3000),
            ('isd', gen_isd, 400 if quick else 5000), ('krename', gen_krename, 300 if quick else 3000)]
    for kind, gen, n in plan:
        specs = [s for s in regspecs if spec_kind(s) == kind] + [gen(rngs[kind]) for _ in range(n)]
        kept, verdicts, infos, stats = run_stream(ctx, kind, specs, kind)
        evaluations += len(kept)
        ctx.coverage.setdefault('case_status', {})[kind] = stats
        if kind == 'lcs':
            distinct |= {json.dumps([s['old'], s['new']]) for s in kept if s['old'] != s['new'] and s['old'] and s['new']}
            dist['lcs'] = {'cases': len(kept), 'old_len_hist': _hist([len(s['old']) for s in kept]),
                           'nothing_kept': sum(1 for v in verdicts if 301 in v), 'identical': sum(1 for v in verdicts if 302 in v)}
        elif kind == 'print':
            distinct |= {s['expr'] + '|' + ','.join(s['defined']) for s, i in zip(kept, infos) if i['is_pw']}
            dist['print'] = {'cases': len(kept), 'forms(300 plain,301 one IF,302 several IFs,303 block,304 none)': hist_counts(verdicts, 300, 310),
                             'guard_false(201 disjoint,202 self_free,203 zero_fresh)': hist_counts(verdicts, 200, 210),
                             'printer_exceptions': _hist([i['exc'] for i in infos if i['exc']]),
                             'inconclusive': hist_counts(verdicts, 1000, 2000)}
        elif kind == 'krename':
            distinct |= {json.dumps([s['old'], s['new'], s['flows']]) for s, i in zip(kept, infos) if i['entries']}
            dist['krename'] = {'cases': len(kept), 'entries_hist': _hist([i['entries'] for i in infos]),
                               'advan3_tail': sum(1 for s in kept if s['advan3'])}
        elif kind == 'isd':
            distinct |= {json.dumps([s['index'], s['script']]) for s in kept if len(s['index']) >= 2}
            dist['isd'] = {'cases': len(kept), 'index_not_covering_old(209)': sum(1 for v in verdicts if 209 in v),
                           'generator_raised': sum(1 for i in infos if i['raised']), 'groups_hist': _hist([i['groups'] for i in infos])}
        elif kind == 'remap':
            distinct |= {json.dumps([s['names'], s['oldmap']]) for s in kept if s['names'] != [k for k, _ in s['oldmap']]}
            dist['remap'] = {'cases': len(kept), 'old_numbers_not_distinct': sum(1 for v in verdicts if 208 in v),
                             'n_old_hist': _hist([i['n_old'] for i in infos])}
        else:
            distinct |= {s['cond'] for s in kept}
            dist['cond'] = {'cases': len(kept), 'shape(205 some And/Or with > 2 args,206 some Or under And,210 literal True/False)': hist_counts(verdicts, 200, 210),
                            'inconclusive': hist_counts(verdicts, 1000, 2000)}
        samples += [{'spec': s, 'tags': v} for s, v in list(zip(kept, verdicts))[:2]]
    run_histories(ctx, regspecs, dist, samples)
    run_translator(ctx)
    ctx.coverage['evaluations'] = evaluations + ctx.coverage.get('hist_evaluations', 0)
    ctx.coverage['distinct_nontrivial'] = len(distinct) + ctx.coverage.get('hist_distinct', 0)
    ctx.coverage['rule'] = ('lcs: random/edited list pairs over small alphabets, non-trivial = both non-empty and different; '
                            'print: random assignments (plain arithmetic with exp/log/sqrt, or Piecewise with rational conditions), '
                            'non-trivial = Piecewise, distinct by expression text + defined set; cond: random And/Or/Not trees; '
                            'hist: random histories of public transformations, non-trivial = at least one transformation succeeded, '
                            'distinct by final model code')
    ctx.coverage['input_distribution'] = dist
    ctx.coverage['samples'] = samples


def _hist(xs):
    h = {}
    for x in xs:
        h[str(x)] = h.get(str(x), 0) + 1
    return dict(sorted(h.items(), key=lambda kv: (len(kv[0]), kv[0])))


def run_histories(ctx, regspecs, dist, samples):
    quick = ctx.tier == 'quick'
    n = 70 if quick else 1200
    rng = ctx.stream_rngs['hist']
    ndes = 14 if quick else 250
    specs = ([s for s in regspecs if spec_kind(s) == 'hist'] + hist.directed_specs()
             + [hist.gen_hist_des(rng) for _ in range(ndes)] + [hist.gen_hist(rng, 4) for _ in range(n)])
    kept, verdicts, infos, stats = run_stream(ctx, 'hist', specs, 'hist')
    ctx.coverage.setdefault('case_status', {})['hist'] = stats
    ctx.coverage['hist_evaluations'] = len(kept)
    ctx.coverage['hist_distinct'] = len({i['code'] for i in infos if i['applied']})
    steps_ok, steps_failed = {}, {}
    for i in infos:
        for f in i['applied']:
            steps_ok[f] = steps_ok.get(f, 0) + 1
        for f, e in i['failed']:
            steps_failed[f + ':' + e] = steps_failed.get(f + ':' + e, 0) + 1
    dist['hist'] = {
        'cases': len(kept), 'start_models': _hist([i['start'] for i in infos]),
        'applied_length_hist': _hist([len(i['applied']) for i in infos]),
        'advan_trans': _hist([f"ADVAN{i['advan']} TRANS{i['trans']}" for i in infos]),
        'ncomp_hist': _hist([i['ncomp'] for i in infos]),
        'steps_applied': dict(sorted(steps_ok.items())), 'steps_refused': dict(sorted(steps_failed.items())),
        'with_des': sum(1 for i in infos if i['n_des']),
        'scale_history_checked(212)': sum(1 for v in verdicts if 212 in v),
        'des_with_two_or_more_shifts': sum(1 for i in infos if i['n_des'] and len(i['applied']) >= 3),
        'stale_rate_names_outside_$MODEL (treated as ordinary variables)': sum(1 for i in infos if i.get('stale_k')), 'reread_failed': sum(1 for i in infos if 'reread_exc' in i),
        'explained(28 missing K,30 no $DES)': hist_counts(verdicts, 28, 31), 'explained(44 trans not written,46 ratio denom one)': hist_counts(verdicts, 44, 48),
        'inconclusive': hist_counts(verdicts, 1000, 2000),
    }
    samples += [{'spec': s, 'tags': v, 'applied': i['applied'], 'advan': i['advan']} for s, v, i in list(zip(kept, verdicts, infos))[:3]]


def run_translator(ctx, update_py=None, label='gen'):
    """Regenerate PkConv.v from /repo's update.py, compile it and the obligations against it."""
    import shutil
    from harness.lib import core
    from harness.props import c02_translate as tr
    gen = ctx.rundir / label
    gen.mkdir(parents=True, exist_ok=True)
    src = update_py or (core.REPO / 'src/pharmpy/model/external/nonmem/update.py')
    names = ['trans_choice_valid', 'trans_choice_none_valid', 'pk_rename_lands', 'pk_rename_consistent',
             'trans56_become_trans1', 'pk_rename_consistent_trans6', 'domain6_cells', 'domain_size', 'rename_example_3_4']
    ctx.obligations += len(names)
    try:
        sha = tr.translate(src, gen / 'PkConv.v')
    except tr.TranslatorRefused as e:
        ctx.broken.append(str(e))
        return False
    ctx.coverage['translator_sha'] = sha
    shutil.copy(VERIF / 'harness' / 'props' / 'c02_obligations.v', gen / 'PkConvObligations.v')
    problems = core.grep_gate([gen / 'PkConv.v', gen / 'PkConvObligations.v'])
    if problems:
        ctx.broken.append('grep-gate (generated): ' + '; '.join(problems))
        return False
    extra = [(gen, 'C02gen')]
    for f in ('PkConv.v', 'PkConvObligations.v'):
        rc, out = core.sh(['coqc', '-Q', str(core.THEORIES), 'PV', '-Q', str(gen), 'C02gen', str(gen / f)], timeout=600, cwd=gen)
        if rc != 0:
            m = re.search(r'File "([^"]+)", line (\d+).*?\nError:(.*?)(?:\n\n|\Z)', out, flags=re.S)
            where = f'{m.group(1)}:{m.group(2)}:{m.group(3).strip()[:300]}' if m else out[-400:]
            ctx.broken.append('regenerated obligation no longer holds (pk_param_conversion / new_advan_trans changed): ' + where)
            return False
    f = gen / 'assum.v'
    f.write_text('From C02gen Require Import PkConvObligations.\n' + ''.join(f'Print Assumptions {n}.\n' for n in names))
    rc, out = core.coqc_file(f, extra_q=extra)
    closed = out.count('Closed under the global context')
    if rc != 0 or closed != len(names):
        ctx.broken.append('Print Assumptions of regenerated obligations: ' + out[-300:])
        return False
    ctx.discharged += len(names)
    ctx.coverage.setdefault('theorems', []).extend('C02gen.PkConvObligations.' + n for n in names)
    return True


def replay(ctx, rep):
    spec = rep.get('spec', rep)
    kind = spec_kind(spec)
    kept, verdicts, infos, _ = run_stream(ctx, kind, [spec], 'replay', quiet=True)
    if not verdicts:
        print('case could not be converted')
        return 2
    tags = verdicts[0]
    print('spec', json.dumps(spec))
    print('info', infos[0])
    print('tags', tags, [TAGS.get(t, t) for t in tags])
    bad = [t for t in tags if t in ORACLE or t in CORR or t in KNOWN_CLASS]
    return 1 if bad else 0
