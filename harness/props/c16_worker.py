"""C16 helper (own module of property C16): runs workloads of the REAL LocalDirectoryContext /
LocalModelDirectoryDatabase in forked child processes under a CPython audit hook, with crash injection
(os._exit inside the hook, i.e. BEFORE operation k), exports the event trace, the directory tree and the
outcome of every workload item in canonical, JSON-able form.  Nothing here decides anything: the
comparison with the model happens inside Coq (C16/Check.v)."""
import hashlib
import json
import os
import re
import shutil
import stat
import sys
import traceback

WATCH = {'open', 'os.mkdir', 'os.remove', 'os.rename', 'os.symlink', 'os.rmdir', 'os.utime', 'os.listdir',
         'os.scandir', 'os.truncate', 'os.link', 'os.chmod', 'os.chown'}
FIXED_DATE = (2024, 1, 2, 3, 4, 5, 678901)
FIXED_DATE_STR = '2024-01-02 03:04:05.678901'
CTX_NAME = 'ctx'

_STATE = {}          # per (pool worker) process: variants, results


# --------------------------------------------------------------------------- model variants
def init_worker():
    """Import pharmpy and build the base variants once per pool worker (children are forked from it)."""
    if _STATE:
        return
    import warnings
    warnings.filterwarnings('ignore')
    from pharmpy.modeling import load_example_model, set_initial_estimates
    from pharmpy.tools import load_example_modelfit_results
    import pharmpy.workflows.contexts.baseclass as ctxbase
    import datetime as _dt

    class _FixedDateTime(_dt.datetime):
        @classmethod
        def now(cls, tz=None):
            return _dt.datetime(*FIXED_DATE)

    ctxbase.datetime = _FixedDateTime          # harness-side instrumentation: deterministic log time stamps
    pheno = load_example_model('pheno')
    res = load_example_modelfit_results('pheno')
    init = set_initial_estimates(pheno, {'POP_CL': 0.005})
    df = pheno.dataset.copy()
    df.loc[1, 'DV'] = 99.5
    data = pheno.replace(dataset=df)
    di = pheno.datainfo
    col = di['APGR']
    ditype = pheno.replace(datainfo=di.set_column(col.replace(unit='kg')))
    from dataclasses import dataclass
    from typing import Optional
    from pharmpy.workflows.results import Results

    @dataclass(frozen=True)
    class ToolRes(Results):            # a small tool Results object for Context.store_results
        note: Optional[str] = None

    _STATE['ToolRes'] = ToolRes
    _STATE['variants'] = {'pheno': pheno, 'init': init, 'data': data, 'ditype': ditype}
    _STATE['res'] = res
    _STATE['ctxcls'] = None
    if os.environ.get('C16_MUTANT'):
        _load_mutant(json.load(open(os.environ['C16_MUTANT'])), _FixedDateTime)


def _load_mutant(mut, fixed_dt):
    """SENSITIVITY TESTING ONLY (never used by ./check): load a textually mutated copy of one pharmpy source
    file under another module name and route the harness to its classes.  /repo is not touched."""
    import importlib.util
    import pharmpy.workflows.contexts.baseclass as ctxbase
    import pharmpy.workflows.contexts.local_directory as ctxld
    repo = os.environ.get('VERIF_REPO', '/repo')
    src = open(os.path.join(repo, 'src', mut['file'])).read()
    assert src.count(mut['old']) == 1, (mut['file'], src.count(mut['old']))
    src = src.replace(mut['old'], mut['new'])
    pkg = os.path.dirname(mut['file']).replace('/', '.')
    name = pkg + '.c16_mutant'
    spec = importlib.util.spec_from_loader(name, loader=None)
    mod = importlib.util.module_from_spec(spec)
    mod.__package__ = pkg
    mod.__file__ = os.path.join(repo, 'src', mut['file'])
    sys.modules[name] = mod
    exec(compile(src, mod.__file__, 'exec'), mod.__dict__)
    if mut['file'].endswith('model_database/local_directory.py'):
        ctxld.LocalModelDirectoryDatabase = mod.LocalModelDirectoryDatabase
    elif mut['file'].endswith('contexts/local_directory.py'):
        _STATE['ctxcls'] = mod.LocalDirectoryContext
    elif mut['file'].endswith('contexts/baseclass.py'):
        mod.datetime = fixed_dt
        for meth in ('_store_model', '_retrieve_me', 'log_message', 'store_model_entry', 'retrieve_model_entry'):
            setattr(ctxbase.Context, meth, getattr(mod.Context, meth))
    else:
        raise ValueError(mut['file'])


def variant_info():
    """key / dataset hash strings and datainfo class of each variant (computed by the real ModelHash)."""
    init_worker()
    from pharmpy.workflows.hashing import ModelHash
    out = {}
    dis = []
    for name, m in _STATE['variants'].items():
        h = ModelHash(m)
        di = m.datainfo.replace(path=None)
        for i, d in enumerate(dis):
            if d == di:
                di_id = i + 1
                break
        else:
            dis.append(di)
            di_id = len(dis)
        out[name] = {'key': str(h), 'dh': str(h.dataset_hash), 'di': di_id, 'desc': m.description}
    return out


def build_model(spec):
    """spec: {'variant': .., 'name': .., 'desc': .., 'res': bool} -> Model or ModelEntry"""
    from pharmpy.workflows import ModelEntry
    m = _STATE['variants'][spec['variant']]
    m = m.replace(name=spec['name'], description=spec['desc'])
    if spec.get('res'):
        return ModelEntry.create(m, modelfit_results=_STATE['res'])
    return m


# --------------------------------------------------------------------------- executing items
ERRMAP = {'PendingTransactionError': 'EPending', 'KeyError': 'EKeyError', 'FileNotFoundError': 'EFileNotFound',
          'StopIteration': 'EStopIteration', 'FileExistsError': 'EFileExists', 'JSONDecodeError': 'ECorrupt',
          'IndexError': 'EIndexError'}


def _flags(model, res, is_entry, spec, want_name):
    want = _STATE['variants'][spec['variant']]
    flags = {}
    flags['parameters'] = bool(model.parameters == want.parameters)
    flags['statements'] = bool(model.statements == want.statements)
    flags['random_variables'] = bool(model.random_variables == want.random_variables)
    try:
        flags['dataset'] = bool(model.dataset is not None and model.dataset.equals(want.dataset))
    except Exception:
        flags['dataset'] = False
    flags['datainfo'] = bool(model.datainfo.replace(path=None) == want.datainfo.replace(path=None))
    if want_name is not None:
        flags['name'] = model.name == want_name
    if spec.get('res') and is_entry:
        w = _STATE['res']
        try:
            flags['results'] = bool(res is not None and res.ofv == w.ofv
                                    and (res.parameter_estimates == w.parameter_estimates).all())
        except Exception:
            flags['results'] = False
    return flags


def _equiv(got_me, candidates, want_name=None):
    """Equivalence of a retrieved ModelEntry / Model with each candidate stored model (evaluated on the
    implementation): parameters, statements, random variables, dataset, datainfo, name, results.  The
    description is reported and compared with the expected annotation inside Coq."""
    from pharmpy.workflows import ModelEntry
    is_entry = isinstance(got_me, ModelEntry)
    model = got_me.model if is_entry else got_me
    res = got_me.modelfit_results if is_entry else None
    eq, allflags = [], {}
    for mk, spec in candidates.items():
        fl = _flags(model, res, is_entry, spec, want_name)
        allflags[mk] = fl
        if all(fl.values()):
            eq.append(mk)
    ds = None
    for vname, v in _STATE['variants'].items():
        try:
            if model.dataset is not None and model.dataset.equals(v.dataset):
                ds = vname
                break
        except Exception:
            pass
    p = model.datainfo.path
    mm = re.fullmatch(r'data(\d+)\.csv', p.name) if p is not None else None
    return {'flags': allflags, 'eq': eq, 'ds': ds, 'n': int(mm.group(1)) if mm else 0,
            'has_res': res is not None, 'desc': model.description, 'name': model.name}


def exec_item(st, item, models):
    """One workload item on the real objects.  Returns a JSON-able value."""
    from pharmpy.workflows.contexts import LocalDirectoryContext
    from pharmpy.workflows.hashing import ModelHash
    kind = item[0]
    if kind == 'init':
        st['ctx'] = (_STATE.get('ctxcls') or LocalDirectoryContext)(CTX_NAME, ref=st['root'])
        st['ctx'].broadcast_message = lambda *a, **k: None
        return None
    ctx = st['ctx']
    if kind == 'store':
        ctx.store_model_entry(build_model(models[item[1]]))
        return None
    if kind == 'dbstore':
        ctx.model_database.store_model_entry(_as_entry(build_model(models[item[1]])))
        return None
    if kind == 'meta':
        ctx.model_database.store_metadata(_as_model(build_model(models[item[1]])), {'id': item[2]})
        return None
    if kind == 'annot':
        ctx.store_annotation(item[1], item[2])
        return None
    if kind == 'log':
        sev, msg, mk = item[1], item[2], item[3]
        model = _as_model(build_model(models[mk])) if mk is not None else None
        ctx.log_message(sev, msg, model=model)
        return None
    if kind == 'retrieve':
        me = ctx.retrieve_model_entry(item[1])
        cands = {mk: ms for mk, ms in models.items() if ms['name'] == item[1]}
        return _equiv(me, cands, want_name=item[1])
    if kind == 'dbretrieve':
        key = ModelHash(st['keys'][models[item[1]]['variant']])
        model = ctx.model_database.retrieve_model(key)
        v = models[item[1]]['variant']
        cands = {mk: ms for mk, ms in models.items() if ms['variant'] == v}
        return _equiv(model, cands)
    if kind == 'getannot':
        return {'text': ctx.retrieve_annotation(item[1])}
    if kind == 'subinit':
        st.setdefault('subs', {})[item[1]] = ctx.create_subcontext(item[1])
        st['subs'][item[1]].broadcast_message = lambda *a, **k: None
        return None
    if kind in ('substore', 'subretrieve'):
        sub = st.get('subs', {}).get(item[1]) or ctx.get_subcontext(item[1])
        if kind == 'substore':
            ms = models[item[2]]
            me = _as_entry(build_model(ms))
            if ms['name'] == 'final':          # the dedicated API for the names 'final' / 'input'
                sub.store_final_model_entry(me)
            elif ms['name'] == 'input':
                sub.store_input_model_entry(me)
            else:
                sub.store_model_entry(me)
            return None
        name = item[2]
        me = (sub.retrieve_final_model_entry() if name == 'final' else
              sub.retrieve_input_model_entry() if name == 'input' else sub.retrieve_model_entry(name))
        cands = {mk: ms for mk, ms in models.items() if ms['name'] == name}
        return _equiv(me, cands, want_name=name)
    if kind in ('results', 'getresults'):
        c = ctx if item[1] is None else (st.get('subs', {}).get(item[1]) or ctx.get_subcontext(item[1]))
        if kind == 'results':
            c.store_results(_STATE['ToolRes'](note=str(item[2])))
            return None
        r = c.retrieve_results()
        note = r['note'] if isinstance(r, dict) else r.note
        return {'res': int(note)}
    if kind == 'getlog':
        df = ctx.retrieve_log()
        cells = []
        for x in df['message']:
            if isinstance(x, str):
                cells.append(['s', x])
            elif isinstance(x, float) and x != x:
                cells.append(['nan'])
            else:
                cells.append(['typed', repr(x)])
        return {'cells': cells}
    raise ValueError(kind)


def _as_model(x):
    from pharmpy.workflows import ModelEntry
    return x.model if isinstance(x, ModelEntry) else x


def _as_entry(x):
    from pharmpy.workflows import ModelEntry
    return x if isinstance(x, ModelEntry) else ModelEntry.create(x)


def _in_root(root, x):
    return isinstance(x, str) and (x == root or x.startswith(root + '/'))


def child_run(root, items, models, keys, stop_at, logpath):
    """Runs in a forked child.  Never returns."""
    try:
        fd = os.open(logpath, os.O_WRONLY | os.O_CREAT | os.O_TRUNC, 0o644)
        st = {'root': root, 'ctx': None, 'keys': keys}
        hs = {'on': False, 'n': 0, 'busy': False}

        def emit(obj):
            os.write(fd, (json.dumps(obj) + '\n').encode())

        def hook(ev, args):
            if not hs['on'] or hs['busy']:
                return
            if ev not in WATCH and not ev.startswith('shutil.'):
                return
            if ev == 'os.symlink':
                p = args[1]
                extra = args[0]
            elif ev == 'os.rename':
                p = args[0]
                extra = args[1]
            else:
                p = args[0] if args else None
                extra = None
            if isinstance(p, bytes):
                p = os.fsdecode(p)
            if hasattr(p, '__fspath__'):
                p = os.fspath(p)
            if not _in_root(root, p):
                return
            if hs['n'] == stop_at:
                os._exit(9)                       # the crash: before operation number stop_at
            rec = {'ev': ev, 'path': p}
            if ev == 'open':
                rec['flags'] = args[2] if isinstance(args[2], int) else None
                rec['mode'] = args[1] if isinstance(args[1], str) else None
                if isinstance(args[2], int) and args[2] & os.O_APPEND:
                    try:
                        rec['size_before'] = os.stat(p).st_size
                    except OSError:
                        rec['size_before'] = 0
            if extra is not None:
                rec['target'] = os.fspath(extra)
            hs['n'] += 1
            emit(rec)

        sys.addaudithook(hook)
        hs['on'] = True
        for idx, item in enumerate(items):
            emit({'begin': idx})
            try:
                val = exec_item(st, item, models)
                hs['busy'] = True
                emit({'end': idx, 'ok': True, 'val': val})
                hs['busy'] = False
            except BaseException as e:            # every item runs inside try/except
                hs['busy'] = True
                emit({'end': idx, 'ok': False, 'err': type(e).__name__, 'msg': str(e)[:200]})
                hs['busy'] = False
        os.close(fd)
        os._exit(0)
    except BaseException:
        try:
            traceback.print_exc()
        finally:
            os._exit(3)


def run_phase(root, items, models, stop_at, logpath):
    """Fork, run, wait; returns (exit status, events, item outcomes)."""
    init_worker()
    keys = _STATE['variants']
    sys.stdout.flush()
    sys.stderr.flush()
    pid = os.fork()
    if pid == 0:
        child_run(root, items, models, keys, stop_at, logpath)
    _, status = os.waitpid(pid, 0)
    code = os.WEXITSTATUS(status) if os.WIFEXITED(status) else -1
    events, outcomes = [], {}
    cur = None
    if os.path.exists(logpath):
        for line in open(logpath):
            line = line.strip()
            if not line:
                continue
            try:
                r = json.loads(line)
            except ValueError:
                continue
            if 'begin' in r:
                cur = r['begin']
            elif 'end' in r:
                outcomes[r['end']] = r
            else:
                r['item'] = cur
                events.append(r)
    return code, events, outcomes


# --------------------------------------------------------------------------- tree export
BLOB_NAMES = re.compile(r'(model\.(ctl|mod)|results\.json|results\.csv|metadata\.json|data\d+\.datainfo|data\d+\.csv)$')


def walk_tree(root, torn_paths=()):
    """[(relative path string, kind, payload)] of everything under root/ctx (lstat, no following)."""
    top = os.path.join(root, CTX_NAME)
    out = []
    if not os.path.lexists(top):
        return out

    def rec(p):
        stt = os.lstat(p)
        rel = os.path.relpath(p, top)
        rel = '' if rel == '.' else rel
        if stat.S_ISLNK(stt.st_mode):
            tgt = os.readlink(p)
            res = os.path.normpath(os.path.join(os.path.dirname(p), tgt))
            out.append((rel, 'link', os.path.relpath(res, top)))
        elif stat.S_ISDIR(stt.st_mode):
            out.append((rel, 'dir', None))
            for n in sorted(os.listdir(p)):
                rec(os.path.join(p, n))
        else:
            data = open(p, 'rb').read()
            is_blob = bool(BLOB_NAMES.search(rel)) and '.hash' not in rel.split('/')
            torn = p in torn_paths
            if is_blob:
                norm = data.replace(root.encode(), b'$ROOT')
                out.append((rel, 'blob', [hashlib.sha256(norm).hexdigest()[:16], torn]))
            else:
                try:
                    out.append((rel, 'text', [data.decode('utf-8'), torn]))
                except UnicodeDecodeError:
                    out.append((rel, 'text', [data.decode('latin-1'), torn]))
        return

    rec(top)
    return out


# --------------------------------------------------------------------------- one case
def run_case(args):
    """args: (casedir, spec).  spec: {'models': {...}, 'w1': [...], 'crash': k|None, 'torn': j|None, 'w2': [...]}
    Returns the observation dict."""
    casedir, spec = args
    try:
        init_worker()
        shutil.rmtree(casedir, ignore_errors=True)
        os.makedirs(casedir)
        root = os.path.join(casedir, 'r')
        os.makedirs(root)
        k, torn = spec.get('crash'), spec.get('torn')
        stop_at = None if k is None else (k + 1 if torn is not None else k)
        code1, ev1, out1 = run_phase(root, spec['w1'], spec['models'], -1 if stop_at is None else stop_at,
                                     os.path.join(casedir, 'ev1.jsonl'))
        torn_paths = set()
        torn_applied = None
        if torn is not None and k is not None and k < len(ev1):
            e = ev1[k]
            fl = e.get('flags') or 0
            if e['ev'] == 'open' and (fl & os.O_ACCMODE) == os.O_WRONLY and (fl & (os.O_TRUNC | os.O_APPEND)) \
                    and os.path.isfile(e['path']):
                p = e['path']
                data = open(p, 'rb').read()
                base = e.get('size_before', 0) if fl & os.O_APPEND else 0
                new = data[base:]
                rel = os.path.relpath(p, root)
                if BLOB_NAMES.search(rel) and '.hash' not in rel.split('/'):
                    units = 2 if re.search(r'results\.(json|csv)$', rel) else 4
                    cut = (len(new) * min(torn, units - 1)) // units       # j of the units of a blob
                    if torn >= 4:
                        cut = len(new)
                else:
                    txt = new.decode('utf-8')
                    cut = len(txt[:torn].encode('utf-8'))      # j code points
                with open(p, 'wb') as fh:
                    fh.write(data[:base + cut])
                torn_paths.add(p)
                torn_applied = {'path': p, 'cut': cut, 'of': len(new)}
            ev1 = ev1[:k + 1] if torn_applied else ev1[:k]      # op k happened (partially) / did not happen
        tree1 = walk_tree(root, torn_paths)
        code2, ev2, out2 = (0, [], {})
        if spec.get('w2'):
            code2, ev2, out2 = run_phase(root, spec['w2'], spec['models'], -1, os.path.join(casedir, 'ev2.jsonl'))
        for e in ev2:       # a complete rewrite ('w') replaces a torn file
            fl = e.get('flags') or 0
            if e['ev'] == 'open' and (fl & os.O_ACCMODE) == os.O_WRONLY and fl & os.O_TRUNC:
                torn_paths.discard(e['path'])
        tree2 = walk_tree(root, torn_paths)
        obs = {'root': root, 'code1': code1, 'code2': code2, 'ev1': ev1, 'out1': out1, 'tree1': tree1,
               'ev2': ev2, 'out2': out2, 'tree2': tree2, 'torn_applied': torn_applied}
        if not spec.get('keep'):
            shutil.rmtree(casedir, ignore_errors=True)
        return obs
    except BaseException as e:
        return {'harness_error': f'{type(e).__name__}: {e}', 'tb': traceback.format_exc()[-1500:]}


# --------------------------------------------------------------------------- two concurrent writers
def _writer(root, items, models, keys, start_r, logpath, seed, barrier=None):
    """A writer process: fresh context object, wait for the start signal, run the items.  With [barrier] =
    (event name, path suffix, my fd to signal, fd to wait on): stop inside the audit hook right before that
    event until the other writer is there too (deterministic schedule for a check-then-act race)."""
    try:
        import random
        import time
        rnd = random.Random(seed)
        fd = os.open(logpath, os.O_WRONLY | os.O_CREAT | os.O_TRUNC, 0o644)
        st = {'root': root, 'ctx': None, 'keys': keys}
        hs = {'on': False, 'met': False}

        def hook(ev, args):
            if not hs['on'] or ev not in WATCH:
                return
            p = args[1] if ev == 'os.symlink' else (args[0] if args else None)
            if not _in_root(root, p if isinstance(p, str) else None):
                return
            if barrier and not hs['met'] and ev == barrier[0] and p.endswith(barrier[1]):
                hs['met'] = True
                os.write(barrier[2], b'x')
                os.read(barrier[3], 1)
            elif seed is not None:
                time.sleep(rnd.random() * 0.002)        # vary the interleaving

        sys.addaudithook(hook)
        os.read(start_r, 1)
        hs['on'] = True
        out = []
        for item in items:
            try:
                exec_item(st, item, models)
                out.append({'ok': True})
            except BaseException as e:
                out.append({'ok': False, 'err': type(e).__name__, 'msg': str(e)[:120]})
        hs['on'] = False
        os.write(fd, json.dumps(out).encode())
        os.close(fd)
        os._exit(0)
    except BaseException:
        traceback.print_exc()
        os._exit(3)


def run_concurrent(args):
    """args: (casedir, spec); spec: {'models', 'pre': items run first, 'a': items of writer A, 'b': items of writer B,
    'seed': int, 'barrier': None | [event, path suffix]}"""
    casedir, spec = args
    try:
        init_worker()
        shutil.rmtree(casedir, ignore_errors=True)
        os.makedirs(casedir)
        root = os.path.join(casedir, 'r')
        os.makedirs(root)
        keys = _STATE['variants']
        if spec['pre']:
            run_phase(root, spec['pre'], spec['models'], -1, os.path.join(casedir, 'pre.jsonl'))
        sys.stdout.flush()
        sys.stderr.flush()
        sa_r, sa_w = os.pipe()
        sb_r, sb_w = os.pipe()
        ab_r, ab_w = os.pipe()      # A signals, B waits
        ba_r, ba_w = os.pipe()      # B signals, A waits
        bar = spec.get('barrier')
        pids = []
        for who, items, start_r, sig_w, wait_r in (('a', spec['a'], sa_r, ab_w, ba_r), ('b', spec['b'], sb_r, ba_w, ab_r)):
            pid = os.fork()
            if pid == 0:
                _writer(root, items, spec['models'], keys, start_r, os.path.join(casedir, who + '.json'),
                        None if bar else spec.get('seed', 0) * 2 + (who == 'b'),
                        (bar[0], bar[1], sig_w, wait_r) if bar else None)
            pids.append(pid)
        os.write(sa_w, b'g')
        os.write(sb_w, b'g')
        for pid in pids:
            os.waitpid(pid, 0)
        for x in (sa_r, sa_w, sb_r, sb_w, ab_r, ab_w, ba_r, ba_w):
            os.close(x)
        outs = {}
        for who in ('a', 'b'):
            try:
                outs[who] = json.load(open(os.path.join(casedir, who + '.json')))
            except Exception:
                outs[who] = None
        tree = walk_tree(root)
        shutil.rmtree(casedir, ignore_errors=True)
        return {'root': root, 'outs': outs, 'tree': tree}
    except BaseException as e:
        return {'harness_error': f'{type(e).__name__}: {e}', 'tb': traceback.format_exc()[-1500:]}


def run_reentrant(args):
    """args: (casedir, spec); spec: {'models', 'pre': items, 'a': items, 'b': items, 'at': [event, path suffix]}.
    The items of b run, on a context object of their own, inside the audit hook right before the first event
    `at` of the items of a: the schedule "another process does all of b between two system calls of a",
    deterministically and in one process.  Returns the outcomes and the notes found in results.json / results.csv."""
    casedir, spec = args
    try:
        init_worker()
        shutil.rmtree(casedir, ignore_errors=True)
        os.makedirs(casedir)
        root = os.path.join(casedir, 'r')
        os.makedirs(root)
        if spec['pre']:
            run_phase(root, spec['pre'], spec['models'], -1, os.path.join(casedir, 'pre.jsonl'))
        sys.stdout.flush()
        sys.stderr.flush()
        outpath = os.path.join(casedir, 'out.json')
        pid = os.fork()
        if pid == 0:
            try:
                keys = _STATE['variants']
                hs = {'armed': False}
                out = {'a': [], 'b': []}

                def run_items(who, items):
                    st = {'root': root, 'ctx': None, 'keys': keys}
                    for item in items:
                        if who == 'a' and item is items[-1]:
                            hs['armed'] = True
                        try:
                            exec_item(st, item, spec['models'])
                            out[who].append({'ok': True})
                        except BaseException as e:
                            out[who].append({'ok': False, 'err': type(e).__name__})
                    if who == 'a':
                        hs['armed'] = False

                def hook(ev, a):
                    if hs['armed'] and ev == spec['at'][0] and a and isinstance(a[0], str) and a[0].endswith(spec['at'][1]):
                        hs['armed'] = False
                        run_items('b', spec['b'])

                sys.addaudithook(hook)
                run_items('a', spec['a'])
                with open(outpath, 'w') as fh:
                    json.dump(out, fh)
                os._exit(0)
            except BaseException:
                traceback.print_exc()
                os._exit(3)
        os.waitpid(pid, 0)
        outs = json.load(open(outpath))
        cdir = os.path.join(root, CTX_NAME)
        notes = {}
        try:
            notes['json_note'] = json.load(open(os.path.join(cdir, 'results.json'))).get('note')
        except Exception as e:
            notes['json_note'] = 'unreadable: ' + type(e).__name__
        try:
            lines = open(os.path.join(cdir, 'results.csv')).read().splitlines()      # name, value, blank line, ...
            notes['csv_note'] = lines[lines.index('note') + 1]
        except Exception as e:
            notes['csv_note'] = 'unreadable: ' + type(e).__name__
        shutil.rmtree(casedir, ignore_errors=True)
        return {'outs': outs, 'notes': notes}
    except BaseException as e:
        return {'harness_error': f'{type(e).__name__}: {e}', 'tb': traceback.format_exc()[-1500:]}
