"""C16 — model database and run context are atomic and faithful, even across crashes.
Model: coq/theories/C16 (Model.v, Check.v); theorems in Properties.v / Refuted.v.
Tie: (a) the sequence of file-system audit events of the real LocalDirectoryContext /
LocalModelDirectoryDatabase equals the model's operation list, (b) the directory tree after an injected
crash (os._exit inside the audit hook before event k, optionally a torn final write) equals the model's
file system, (c) a recovery workload with fresh objects behaves as the model predicts (events, exception
classes, returned values, final tree) — all compared inside Coq — and the property statement itself is
evaluated on the implementation's own answers (oracle tags)."""
import json
import os
import re
import shutil
from concurrent.futures import ProcessPoolExecutor
import multiprocessing as mp

from harness.lib import coqterm as ct
from harness.lib.core import VERIF, BUILD, JOBS, source_sha
from harness.props import c16_worker as W

LEVEL = 'proof'
IMPORTS = 'C16.Model C16.Check'

TAGS = {
    1: 'events of the workload differ from the model\'s operation list',
    2: 'directory tree after the crash differs from the model\'s file system',
    3: 'events of the recovery workload differ from the model',
    4: 'outcome (exception class) of a recovery item differs from the model',
    5: 'directory tree after recovery differs from the model',
    6: 'completed/raised/cut status of a workload item differs from the model',
    7: 'value returned by a retrieval differs from the model',
    11: 'a reader obtained an entry whose transaction never committed',
    12: 'a retrieved entry is not equivalent to what was stored',
    13: 'an entry that was stored successfully cannot be retrieved after the restart',
    14: 'storing a model whose key has no pending transaction fails after the restart',
    16: 'an annotation is not read back verbatim',
    17: 'log messages are not read back verbatim and in order',
    18: 'tool results stored successfully are not read back after the restart',
    21: 'two concurrent writers: the model database is that of neither serial order',
    22: 'two concurrent writers: name links / annotations are those of neither serial order',
    23: 'two concurrent writers: a writer raised',
}
CORR = (1, 2, 3, 4, 5, 6, 7)
# oracle tag -> [(guard tag that must be present (= guard false), finding id)]
ORACLE = {
    11: [],
    12: [(207, 'C16-DATAINFO-LOST'), (208, 'C16-NAME-REBIND'), (201, 'C16-ANNOT-NAME-SPACE')],
    13: [(204, 'C16-PENDING-RETRANSACT'), (201, 'C16-ANNOT-NAME-SPACE')],
    14: [],
    16: [(201, 'C16-ANNOT-NAME-SPACE')],
    17: [(202, 'C16-LOG-NUL'), (206, 'C16-LOG-TORN')],
    18: [(209, 'C16-RESULTS-TORN')],
}

TOP = {'.modeldb': 'CDb', 'models': 'CModels', 'annotations': 'CAnnot', 'annotations.lock': 'CAnnotLock',
       'annotations.tmp': 'CAnnotTmp', 'results.json': 'CResJson', 'results.csv': 'CResCsv',
       'log.csv': 'CLog', 'log.lock': 'CLogLock', 'subcontexts': 'CSub', 'common_options': 'CCommon'}
KEYFILES = {'.pharmpy': 'CPharmpy', 'model.ctl': 'CModelFile'}
METAFILES = {'PENDING': 'CPending', 'results.json': 'CResults', 'metadata.json': 'CMetadata'}


# ------------------------------------------------------------------ canonical terms
class Canon:
    def __init__(self, vinfo):
        self.vinfo = vinfo
        self.keyid = {}
        self.dhid = {}
        for i, (name, inf) in enumerate(sorted(vinfo.items()), 1):
            self.keyid.setdefault(inf['key'], len(self.keyid) + 1)
        for name, inf in sorted(vinfo.items()):
            self.dhid.setdefault(inf['dh'], len(self.dhid) + 1)
        self.blobid = {}

    def n(self, i):
        return f'{int(i)}%N'

    def s(self, text):
        return ct.string_codes(text)

    def comp(self, parts, i):
        s = parts[i]
        if parts[0] == 'subcontexts' and len(parts) >= 2:
            # subcontexts/<s>/... : the same layout one level down
            if i == 0:
                return 'CSub'
            if i == 1:
                return f'(CName {self.s(s)})'
            if parts[2] != '.modeldb':
                return self.comp(parts[2:], i - 2)
        if i == 0:
            return TOP.get(s) or f'(COther {self.s(s)})'
        if parts[0] == 'models' and i == 1:
            return f'(CName {self.s(s)})'
        if parts[0] == '.modeldb':
            if i == 1:
                if s == '.lock':
                    return 'CLock'
                if s == '.datasets':
                    return 'CDatasets'
                if len(s) == 43:
                    return f'(CKey {self.n(self.keyid.setdefault(s, 90 + len(self.keyid)))})'
            elif parts[1] == '.datasets':
                m = re.fullmatch(r'data(\d+)\.csv', s)
                if i == 2:
                    if s == '.hash':
                        return 'CHash'
                    if m:
                        return f'(CCsv {self.n(m.group(1))})'
                    m2 = re.fullmatch(r'data(\d+)\.datainfo', s)
                    if m2:
                        return f'(CDi {self.n(m2.group(1))})'
                elif parts[2] == '.hash':
                    if i == 3:
                        return f'(CDh {self.n(self.dhid.setdefault(s, 90 + len(self.dhid)))})'
                    if i == 4 and m:
                        return f'(CCsv {self.n(m.group(1))})'
            else:
                if i == 2 and s in KEYFILES:
                    return KEYFILES[s]
                if i == 3 and parts[2] == '.pharmpy' and s in METAFILES:
                    return METAFILES[s]
        return f'(COther {self.s(s)})'

    def path(self, rel):
        parts = [] if rel in ('', '.') else rel.split('/')
        return ct.lst([self.comp(parts, i) for i in range(len(parts))])

    def abspath(self, root, p):
        top = os.path.join(root, W.CTX_NAME)
        return self.path(os.path.relpath(p, top))

    def mdl(self, ms):
        inf = self.vinfo[ms['variant']]
        res = '(Some 1%N)' if ms.get('res') else 'None'
        return (f"(mkMdl {self.n(self.keyid[inf['key']])} {self.n(self.dhid[inf['dh']])} {self.n(inf['di'])} "
                f"{self.s(ms['name'])} {self.s(ms['desc'])} {res})")

    def item(self, it, models):
        k = it[0]
        if k == 'init':
            return 'WInit'
        if k == 'store':
            return f'(WStore {self.mdl(models[it[1]])})'
        if k == 'dbstore':
            return f'(WDbStore {self.mdl(models[it[1]])})'
        if k == 'meta':
            return f'(WMeta {self.mdl(models[it[1]])} {self.n(it[2])})'
        if k == 'annot':
            return f'(WAnnot {self.s(it[1])} {self.s(it[2])})'
        if k == 'log':
            ctxpath = W.CTX_NAME if it[3] is None else f"{W.CTX_NAME}/@{models[it[3]]['name']}"
            return f'(WLog {self.s(ctxpath)} {self.s(W.FIXED_DATE_STR)} {self.s(it[1])} {self.s(it[2])})'
        if k == 'retrieve':
            return f'(WRetrieve {self.s(it[1])})'
        if k == 'dbretrieve':
            return f"(WDbRetrieve {self.n(self.keyid[self.vinfo[models[it[1]]['variant']]['key']])})"
        if k == 'getannot':
            return f'(WGetAnnot {self.s(it[1])})'
        if k == 'getlog':
            return 'WGetLog'
        if k == 'subinit':
            return f'(WSubInit {self.s(it[1])})'
        if k == 'substore':
            return f'(WSubStore {self.s(it[1])} {self.mdl(models[it[2]])})'
        if k == 'subretrieve':
            return f'(WSubRetrieve {self.s(it[1])} {self.s(it[2])})'
        if k == 'results':
            return f"(WResults {ct.opt(None if it[1] is None else self.s(it[1]))} {self.n(it[2])})"
        if k == 'getresults':
            return f"(WGetResults {ct.opt(None if it[1] is None else self.s(it[1]))})"
        raise ValueError(k)

    def expect(self, it, models):
        if it[0] == 'retrieve':
            return f'(Some {self.mdl(models[it[2]])})'
        if it[0] == 'dbretrieve':
            return f'(Some {self.mdl(models[it[1]])})'
        return 'None'

    def event(self, root, e):
        ev = e['ev']
        p = self.abspath(root, e['path'])
        if ev == 'os.mkdir':
            return f'(Mkdir {p})'
        if ev == 'os.utime':
            return f'(Utime {p})'
        if ev in ('os.listdir', 'os.scandir'):
            return f'(Listdir {p})'
        if ev == 'os.remove':
            return f'(Remove {p})'
        if ev == 'os.symlink':
            tgt = os.path.normpath(os.path.join(os.path.dirname(e['path']), e['target']))
            return f'(Symlink {self.abspath(root, tgt)} {p})'
        if ev == 'os.rename':
            return f"(Rename {p} {self.abspath(root, e['target'])})"
        if ev == 'open':
            fl = e.get('flags')
            if fl is None:
                return None
            acc = fl & os.O_ACCMODE
            if acc == os.O_RDONLY:
                return f'(OpenR {p})'
            if acc == os.O_RDWR and not fl & os.O_CREAT:
                return f'(OpenL {p})'
            if acc == os.O_WRONLY and fl & os.O_CREAT:
                if fl & os.O_EXCL:
                    return f'(OpenX {p})'
                if fl & os.O_TRUNC:
                    return f'(OpenW {p} [])'
                if fl & os.O_APPEND:
                    return f'(OpenA {p} [])'
                return f'(OpenC {p})'
        return None        # an event kind the model has no operation for

    def tree(self, t):
        out = []
        for rel, kind, payload in t:
            p = self.path(rel)
            if kind == 'dir':
                out.append(f'({p}, ODir)')
            elif kind == 'link':
                out.append(f'({p}, OLink {self.path(payload)})')
            elif kind == 'text':
                out.append(f'({p}, OText {self.s(payload[0])} {ct.boolean(payload[1])})')
            else:
                bid = self.blobid.setdefault(payload[0], len(self.blobid) + 1)
                out.append(f'({p}, OBlob {self.n(bid)} {ct.boolean(payload[1])})')
        return ct.lst(out)

    def outcome(self, o):
        if o is None:
            return 'OCut'
        if o['ok']:
            return 'OOk'
        e = W.ERRMAP.get(o['err'])
        if o['err'] in ('ParserError', 'EmptyDataError'):
            e = 'ECorrupt'
        return f'(OErr {e})' if e else 'OErrOther'

    def value(self, o):
        if o is None or not o['ok'] or o.get('val') is None:
            return 'VNone'
        v = o['val']
        if 'text' in v:
            return f"(VStr {self.s(v['text'])})"
        if 'res' in v:
            return f"(VRes {self.n(v['res'])})"
        if 'cells' in v:
            if any(c[0] == 'typed' for c in v['cells']):
                return 'VLogTyped'
            return '(VLog ' + ct.lst(['CNaN' if c[0] == 'nan' else f'(CStr {self.s(c[1])})' for c in v['cells']]) + ')'
        h = 'None'
        if v['ds'] is not None:
            h = f"(Some {self.n(self.dhid[self.vinfo[v['ds']]['dh']])})"
        eqk = sorted({self.keyid[self.vinfo[self.models[mk]['variant']]['key']] for mk in v['eq']})
        return (f"(VEntry {h} {self.n(v['n'])} {ct.boolean(v['has_res'])} {self.s(v['desc'] or '')} "
                + ct.lst([self.n(k) for k in eqk]) + ")")


def case_term(cn, spec, obs):
    """Gallina term of type C16.Check.case, or None when an observed event has no counterpart in the model."""
    models = spec['models']
    cn.models = models
    root = obs['root']
    ev1 = [cn.event(root, e) for e in obs['ev1']]
    ev2 = [cn.event(root, e) for e in obs['ev2']]
    if any(e is None for e in ev1 + ev2):
        return None
    out1 = [obs['out1'].get(i) for i in range(len(spec['w1']))]
    if obs.get('cut_from') is not None:
        out1 = [o if i < obs['cut_from'] else None for i, o in enumerate(out1)]
    out2 = [obs['out2'].get(i) for i in range(len(spec['w2']))]
    k = obs['k_eff']
    return ('(mkCase ' + ct.lst([cn.item(i, models) for i in spec['w1']])
            + '\n  ' + ct.opt(None if k is None else ct.nat(k))
            + ' ' + ct.opt(None if obs['torn_eff'] is None else ct.nat(obs['torn_eff']))
            + '\n  ' + ct.lst([cn.item(i, models) for i in spec['w2']])
            + '\n  ' + ct.lst(ev1) + '\n  ' + ct.lst([cn.outcome(o) for o in out1])
            + '\n  ' + cn.tree(obs['tree1'])
            + '\n  ' + ct.lst(ev2) + '\n  ' + ct.lst([cn.outcome(o) for o in out2])
            + '\n  ' + ct.lst([cn.value(o) for o in out2])
            + '\n  ' + cn.tree(obs['tree2'])
            + '\n  ' + ct.lst([cn.expect(i, models) for i in spec['w2']])
            + '\n  ' + ct.lst([ct.nat(sum(1 for e in obs['ev2'] if e.get('item') == i)) for i in range(len(spec['w2']))]) + ')')


# ------------------------------------------------------------------ running the implementation
_POOL = {}


def pool():
    if 'p' not in _POOL:
        W.init_worker()                       # import pharmpy once; workers are forked from here
        _POOL['p'] = ProcessPoolExecutor(max_workers=JOBS, mp_context=mp.get_context('fork'))
        _POOL['vinfo'] = W.variant_info()
    return _POOL['p']


def vinfo():
    pool()
    return _POOL['vinfo']


def post_process(spec, obs):
    """effective crash point / torn parameter of what really happened, and which items were cut"""
    k, torn = spec.get('crash'), spec.get('torn')
    obs['k_eff'], obs['torn_eff'], obs['cut_from'] = k, None, None
    if k is not None and torn is not None:
        if obs.get('torn_applied'):
            obs['torn_eff'] = torn
            if k < len(obs['ev1']):
                obs['cut_from'] = obs['ev1'][k].get('item')
        else:
            obs['k_eff'] = min(k + 1, len(obs['ev1']))
    return obs


def run_real(ctx, specs, label):
    base = ctx.rundir / 'fs' / label
    jobs = [(str(base / f'c{i}'), s) for i, s in enumerate(specs)]
    obs = list(pool().map(W.run_case, jobs, chunksize=1))
    for s, o in zip(specs, obs):
        if 'harness_error' in o:
            raise RuntimeError('C16 worker failed: ' + o['harness_error'] + '\n' + o.get('tb', ''))
        post_process(s, o)
    return obs


# ------------------------------------------------------------------ generator
def mspec(variant, name, desc=None, res=False):
    return {'variant': variant, 'name': name, 'desc': desc if desc is not None else f'about {name}', 'res': res}


TEXTS = ['plain text', 'PHENOBARB SIMPLE MODEL', 'a,b', 'q"uo"te', '', ' lead', 'trail ', 'x=1; y=2', 'tab\there',
         'é€ unicode', 'semi;colon', 'hash # mark', "it's", 'multi  space', 'back\\slash']
# descriptions of MODELS must be accepted by pharmpy's NONMEM writer ($PROBLEM title: latin-1, no leading blank):
# anything else raises inside the transaction (write_model), a path the model does not cover
MODEL_DESCS = [t for t in TEXTS if t not in (' lead', 'é€ unicode')]
BAD_ANNOT = ['line1\nline2', 'cr\rx', 'end\r']
LOG_TEXTS = TEXTS + ['multi\nline', 'cr\rx', 'crlf\r\ny', '""', '"', 'run 1 done', 'Model failed: NaN in OFV']
# formerly read back as NaN / numbers (C16-LOG-NA, fixed); NUL still cuts the message (C16-LOG-NUL)
BAD_LOG = ['NA', '', 'null', 'nan', 'None', 'N/A', '1', '1.5', 'True', 'inf', 'x\x00y', '#N/A']


def recovery_items(spec_w1, models, extra_stores=True):
    """fresh objects: read everything back, then store every model again under a new name"""
    w2 = [['init']]
    last = {}
    for it in spec_w1:
        if it[0] == 'store':
            last[models[it[1]]['name']] = it[1]
    names = list(last.items())
    for nm, mk in names:
        w2.append(['retrieve', nm, mk])
    seen = set()
    for it in spec_w1:
        if it[0] in ('store', 'dbstore', 'meta'):
            v = models[it[1]]['variant']
            if v not in seen:
                seen.add(v)
                w2.append(['dbretrieve', it[1]])
    anames = []
    for it in spec_w1:
        nm = models[it[1]]['name'] if it[0] == 'store' else it[1] if it[0] == 'annot' else None
        if nm is not None and nm not in anames:
            anames.append(nm)
    for nm in anames:
        w2.append(['getannot', nm])
    w2.append(['getlog'])
    subs, sublast, ress = [], {}, []
    for it in spec_w1:
        if it[0] in ('subinit', 'substore', 'subretrieve') and it[1] not in subs:
            subs.append(it[1])
        if it[0] == 'substore':
            sublast[(it[1], models[it[2]]['name'])] = it[2]
        if it[0] in ('results', 'getresults') and it[1] not in ress:
            ress.append(it[1])
            if it[1] is not None and it[1] not in subs:
                subs.append(it[1])
    for sname in subs:
        w2.append(['subinit', sname])
    for (sname, nm), mk in sublast.items():
        w2.append(['subretrieve', sname, nm, mk])
    for cx in ress:
        w2.append(['getresults', cx])
    if extra_stores:
        for mk in sorted(models):
            if mk.startswith('post_'):
                w2.append(['store', mk])
        for mk in sorted(models):
            if mk.startswith('post_'):
                w2.append(['retrieve', models[mk]['name'], mk])
    return w2


def with_post(models):
    """every model of the case once more under a fresh name (further stores after the restart)"""
    out = dict(models)
    seen = set()
    for mk, ms in sorted(models.items()):
        if ms['variant'] in seen:
            continue
        seen.add(ms['variant'])
        out['post_' + mk] = mspec(ms['variant'], 'post_' + ms['name'].replace(' ', '_'), 'again ' + mk, ms.get('res', False))
    return out


def fixed_workloads():
    A = {'models': {'P': mspec('pheno', 'pheno', 'PHENOBARB SIMPLE MODEL', res=True), 'I': mspec('init', 'run2', 'other inits')},
         'w1': [['init'], ['store', 'P'], ['store', 'I'], ['log', 'info', 'stored two models', None]]}
    # names in prefix relation, the longer one stored first (run10, run1, run100)
    B = {'models': {'P': mspec('pheno', 'run10', 'base model'), 'C': mspec('pheno', 'run1', 'same key, other name'),
                    'D': mspec('data', 'run100', 'other dataset')},
         'w1': [['init'], ['store', 'P'], ['store', 'C'], ['annot', 'run10', 'edited description'], ['store', 'P'],
                ['store', 'D']]}
    C = {'models': {'T': mspec('ditype', 'dityp', 'other datainfo'), 'P': mspec('pheno', 'pheno', 'plain'),
                    'D': mspec('data', 'dat', 'third')},
         'w1': [['init'], ['store', 'T'], ['meta', 'T', 7], ['log', 'warning', 'q"uo"te, comma', 'T'], ['store', 'P'],
                ['log', 'error', 'second\nline', None], ['dbstore', 'D']]}
    # subcontexts, the 'final' / 'input' entries, tool results of the top level context and of a subcontext
    S = {'models': {'P': mspec('pheno', 'input', 'the input model'), 'F': mspec('init', 'final', 'the final model'),
                    'Q': mspec('pheno', 'cand1', 'candidate in sub')},
         'w1': [['init'], ['store', 'P'], ['subinit', 'search'], ['substore', 'search', 'Q'], ['substore', 'search', 'F'],
                ['results', 'search', 1], ['log', 'info', 'sub done', 'F'], ['store', 'F'], ['results', None, 2],
                ['results', None, 3]]}
    return [A, B, C, S]


# names in prefix relation, differing in case only, with regex-special characters
REL_NAMES = ['run10', 'run1', 'run100', 'a', 'ab', 'abc', 'Run1', 'RUN1', 'm.1', 'm+1', 'm1', 'x*', '(y)', '[z]', 'z',
             'final', 'fin', 'input', 'in', 'mod$', 'mod^2', 'n|m', 'q?']


def fixed_codec_workloads():
    """deterministic annotation workloads: prefix-related names in both store orders, re-annotation"""
    m = {'M0': mspec('pheno', 'm0', 'd')}
    seqs = [
        [('run10', 'ten'), ('run1', 'one'), ('run100', 'hundred'), ('run1', 'one again'), ('run10', 'ten again')],
        [('run1', 'one'), ('run10', 'ten'), ('run', 'stem'), ('run1', 'uno'), ('run10 ', 'trailing')][:4],
        [('ab', 'x y'), ('a', 'z'), ('A', 'upper'), ('a', 'z2'), ('abc', 'w'), ('ab', 'x3')],
        [('m.1', 'dot'), ('m+1', 'plus'), ('m1', 'plain'), ('x*', 'star'), ('x', 'bare'), ('(y)', 'paren'), ('m.1', 'dot2')],
    ]
    out = []
    for seq in seqs:
        out.append({'models': m, 'w1': [['init']] + [['annot', n, a] for n, a in seq]})
    return out


def gen_workload(rng, nitems):
    variants = ['pheno', 'init', 'data', 'ditype']
    nm = rng.choice([1, 2, 3, 3])
    models = {}
    for i in range(nm):
        v = rng.choice(variants)
        name = rng.choice(['m%d' % i, 'run%d' % i, 'final', 'input', 'mod_%d' % i] + REL_NAMES)
        if any(ms['name'] == name for ms in models.values()) and rng.random() < 0.7:
            name += str(i)
        models[f'M{i}'] = mspec(v, name, rng.choice(MODEL_DESCS), res=rng.random() < 0.3)
    w1 = [['init']]
    mks = sorted(models)
    for _ in range(nitems):
        r = rng.random()
        if r < 0.45:
            w1.append(['store', rng.choice(mks)])
        elif r < 0.55:
            w1.append(['dbstore', rng.choice(mks)])
        elif r < 0.63:
            w1.append(['meta', rng.choice(mks), rng.randrange(1, 9)])
        elif r < 0.75:
            w1.append(['annot', models[rng.choice(mks)]['name'], rng.choice(TEXTS)])
        elif r < 0.92:
            w1.append(['log', rng.choice(['info', 'warning', 'error']), rng.choice(LOG_TEXTS),
                       rng.choice([None] + mks)])
        elif r < 0.96:
            w1.append(['retrieve', models[rng.choice(mks)]['name'], rng.choice(mks)])
        else:
            w1.append(['init'])
    return {'models': models, 'w1': w1}


def gen_codec_workload(rng):
    """annotation / log codecs, including the malformed stream (new lines, NA strings, numbers)"""
    models = {'M0': mspec('pheno', 'm0', 'd')}
    w1 = [['init']]
    for _ in range(rng.choice([2, 3, 4, 6])):
        if rng.random() < 0.5:
            name = rng.choice(['m0', 'a', 'b', 'name', 'x1'] + REL_NAMES + (['two words'] if rng.random() < 0.1 else []))
            w1.append(['annot', name, rng.choice(TEXTS + (BAD_ANNOT if rng.random() < 0.3 else []))])
        else:
            w1.append(['log', rng.choice(['info', 'warning']), rng.choice(LOG_TEXTS + (BAD_LOG if rng.random() < 0.35 else [])), None])
    return {'models': models, 'w1': w1}


MUTATING = ('os.mkdir', 'os.remove', 'os.symlink', 'os.rename')


def crash_points(events, dense=True):
    """crash points that lead to distinct states: after every event that can change the tree;
    torn variants for every write"""
    pts = [(0, None)]
    for k, e in enumerate(events):
        fl = e.get('flags') or 0
        mutating = e['ev'] in MUTATING or (e['ev'] == 'open' and (fl & os.O_ACCMODE) != os.O_RDONLY
                                           and (fl & os.O_CREAT))
        if mutating:
            pts.append((k + 1, None))
        if e['ev'] == 'open' and (fl & os.O_ACCMODE) == os.O_WRONLY and fl & (os.O_TRUNC | os.O_APPEND):
            rel = e['path']
            blob = bool(W.BLOB_NAMES.search(rel)) and '.hash' not in rel.split('/')
            two = bool(re.search(r'results\.(json|csv)$', rel))
            for j in ((1,) if two else (2,) if blob else (0, 9)) if dense else ((1,) if two else (2,) if blob else (9,)):
                pts.append((k, j))
    return sorted(set(pts), key=lambda p: (p[0], -1 if p[1] is None else p[1]))


def light(spec):
    """the same case without the retrievals of the re-stored models (they cost most of the recovery time)"""
    c = dict(spec)
    named = {spec['models'][it[2]]['variant'] for it in spec['w2'] if it[0] == 'retrieve'}
    c['w2'] = [it for it in spec['w2']
               if not (it[0] == 'retrieve' and it[2].startswith('post_'))
               and not (it[0] == 'dbretrieve' and spec['models'][it[1]]['variant'] in named)]
    return c


def two_item_workloads(three=False):
    """every workload of one or two (three=True: exactly three) items over a 7-item alphabet (thorough tier)"""
    models = {'A': mspec('pheno', 'a', 'first'), 'B': mspec('init', 'b', 'shares the dataset'),
              'C': mspec('pheno', 'c', 'same key as a'), 'D': mspec('data', 'd', 'other dataset', res=True)}
    alphabet = [['store', 'A'], ['store', 'B'], ['store', 'C'], ['dbstore', 'D'], ['meta', 'A', 3],
                ['annot', 'a', 'new text'], ['log', 'info', 'note, "quoted"', 'A']]
    out = []
    for x in alphabet:
        out.append([x])
        for y in alphabet:
            out.append([x, y])
    if three:
        out = [[x, y, z] for x in alphabet for y in alphabet for z in alphabet]
    res = []
    for items in out:
        used = {it[1] for it in items if it[0] in ('store', 'dbstore', 'meta')} | {'A', 'B'}
        res.append({'models': {k: v for k, v in models.items() if k in used}, 'w1': [['init']] + items})
    return res


def expand_crashes(ctx, workloads, label, dense=True, limit=None, lighten=False):
    """reference run (no crash) of every workload to learn its events, then one spec per crash point"""
    refs = []
    for wl in workloads:
        s = dict(wl)
        s['models'] = with_post(wl['models'])
        s['crash'], s['torn'] = None, None
        s['w2'] = recovery_items(s['w1'], s['models'])
        refs.append(s)
    obs = run_real(ctx, refs, label + '-ref')
    specs = list(refs)
    allobs = list(obs)
    crash_specs = []
    for s, o in zip(refs, obs):
        pts = crash_points(o['ev1'], dense)
        if limit is not None and len(pts) > limit:
            pts = ctx.rng.sample(pts, limit)
        for k, j in pts:
            c = light(s) if (lighten and k % 2 == 1) else dict(s)
            c['crash'], c['torn'] = k, j
            crash_specs.append(c)
    cobs = run_real(ctx, crash_specs, label + '-crash')
    return specs + crash_specs, allobs + cobs


# ------------------------------------------------------------------ verdicts
def verdicts_of(ctx, specs, obs, label):
    cn_terms, kept, kept_obs = [], [], []
    unmodelled = 0
    for s, o in zip(specs, obs):
        cn = Canon(vinfo())
        t = case_term(cn, s, o)
        if t is None:
            unmodelled += 1
            ctx.broken.append('an audit event of the implementation has no operation in the model: '
                              + json.dumps([e for e in o['ev1'] + o['ev2'] if cn.event(o['root'], e) is None][:2]))
            continue
        cn_terms.append(t)
        kept.append(s)
        kept_obs.append(o)
    verdicts = ctx.run_cases(label, IMPORTS, 'case', cn_terms, 'verdict', shard=12, timeout=1500)
    return kept, kept_obs, verdicts


def classify(ctx, spec, tags, quiet=False):
    tags = set(tags)
    corr = sorted(t for t in tags if t in CORR)
    oracle = sorted(t for t in tags if t in ORACLE)
    status = 'ok'
    for t in oracle:
        explained = not corr
        fids = [fid for g, fid in ORACLE[t] if g in tags and ctx.open_finding(fid)]
        if explained and fids:
            for fid in fids[:1]:
                kh = ctx.coverage.setdefault('known_hits', {})
                kh[fid] = kh.get(fid, 0) + 1
            if status == 'ok':
                status = 'known'
        else:
            if not quiet:
                ctx.violation(TAGS[t], {'spec': strip(spec), 'tags': sorted(tags), 'tag_meaning': TAGS[t]})
            status = 'violation'
    if corr and status != 'violation':
        if not quiet:
            ctx.broken.append('correspondence C16 model vs implementation: ' + ', '.join(TAGS[t] for t in corr)
                              + ' on ' + json.dumps(strip(spec))[:600])
            ctx.coverage.setdefault('corr_disagreements', []).append({'spec': strip(spec), 'tags': sorted(tags)})
        status = 'broken'
    return status


def strip(spec):
    return {k: spec[k] for k in ('models', 'w1', 'crash', 'torn', 'w2') if k in spec}


def concurrent_specs(ctx, n):
    models = {'P': mspec('pheno', 'p', 'first'), 'I': mspec('init', 'i', 'shares the dataset'),
              'D': mspec('data', 'd', 'other dataset', res=True), 'T': mspec('ditype', 't', 'other datainfo')}
    out = []
    # context-level writers (annotation_writers_serializable / log_writers_serializable): every fourth run lets the
    # two processes write the annotations file (different names / the same name) or the log at the same time
    # (context_annotation_writers_serializable: both processes store a model into the SAME subcontext: its links and
    # its own annotations file)
    ctxw = [([['annot', 'na', 'text a']], [['annot', 'nb', 'text b']]),
            ([['substore', 'search', 'P']], [['substore', 'search', 'D']]),
            ([['log', 'info', 'message a', None]], [['log', 'warning', 'message, "b"', None]]),
            ([['substore', 'search', 'I']], [['substore', 'search', 'T']]),
            ([['annot', 'n', 'text a']], [['annot', 'n', 'text b']])]      # one file per run: the order of the log lines
    #                                                                          and that of the annotations are independent
    for k in range(n):
        if k % 4 == 3:
            wa, wb = ctxw[(k // 4) % len(ctxw)]
            pre_db = [['dbstore', x[0][2]] for x in (wa, wb) if x[0][0] == 'substore'] if (k // 4) % 2 else []
            out.append({'models': models, 'pre': [['init'], ['annot', 'old', 'kept'], ['subinit', 'search']] + pre_db,
                        'a': [['init']] + wa, 'b': [['init']] + wb,
                        'seed': ctx.rng.randrange(10 ** 6)})
            continue
        a, b = [('P', 'I'), ('P', 'D'), ('I', 'D'), ('D', 'T')][k % 4 if k % 8 < 4 else 3]
        pre = [['init']] + ([['store', 'T']] if k % 3 == 2 and 'T' not in (a, b) else [])
        out.append({'models': models, 'pre': pre, 'a': [['init'], ['store', a]], 'b': [['init'], ['store', b]],
                    'seed': ctx.rng.randrange(10 ** 6)})
    return out


def run_concurrent(ctx, specs, label):
    """two real processes store at the same time; the final tree is compared inside Coq with both serial orders"""
    base = ctx.rundir / 'fs' / label
    pool()
    obs = list(_POOL['p'].map(W.run_concurrent, [(str(base / f'c{i}'), s) for i, s in enumerate(specs)], chunksize=1))
    terms = []
    for s, o in zip(specs, obs):
        if 'harness_error' in o:
            raise RuntimeError('C16 concurrent worker failed: ' + o['harness_error'])
        cn = Canon(vinfo())
        cn.models = s['models']
        ok = all(o['outs'][w] is not None and all(x['ok'] for x in o['outs'][w]) for w in ('a', 'b'))
        terms.append('(mkCC ' + ct.lst([cn.item(i, s['models']) for i in s['pre']]) + ' '
                     + ct.lst([cn.item(i, s['models']) for i in s['a']]) + ' '
                     + ct.lst([cn.item(i, s['models']) for i in s['b']]) + '\n  ' + cn.tree(o['tree']) + ' '
                     + ct.boolean(ok) + ')')
    verdicts = ctx.run_cases(label, IMPORTS, 'ccase', terms, 'cverdict', shard=12, timeout=900)
    for s, o, v in zip(specs, obs, verdicts):
        for t in v:
            ctx.violation(TAGS[t], {'concurrent': s, 'tags': v, 'outs': o['outs']})
    return obs, verdicts


def finding_probes(ctx):
    conc = [f for f in ctx.findings if f.get('status') == 'open' and f['witness'].get('kind') == 'concurrent']
    for f in conc:
        pool()
        o = W.run_concurrent((str(ctx.rundir / 'fs' / ('finding-' + f['id'])), f['witness']))
        errs = sorted(x.get('err') for w in ('a', 'b') for x in (o.get('outs', {}).get(w) or []) if not x['ok'])
        if errs == f['witness']['expect_errors']:
            ctx.known(f['id'])
        else:
            ctx.notes.append(f"finding_not_reproduced {f['id']} (errors {errs})")
    for f in [f for f in ctx.findings if f.get('status') == 'open' and f['witness'].get('kind') == 'reentrant']:
        pool()
        o = W.run_reentrant((str(ctx.rundir / 'fs' / ('finding-' + f['id'])), f['witness']))
        if o.get('notes') == f['witness']['expect_notes'] and all(x['ok'] for w in ('a', 'b') for x in o['outs'][w]):
            ctx.known(f['id'])
        else:
            ctx.notes.append(f"finding_not_reproduced {f['id']} ({json.dumps(o)[:300]})")
    fs = [f for f in ctx.findings if f.get('status') == 'open' and f['witness'].get('kind') not in ('concurrent', 'reentrant')]
    if not fs:
        return
    specs = [dict(f['witness']) for f in fs]
    obs = run_real(ctx, specs, 'findings')
    kept, _, verdicts = verdicts_of(ctx, specs, obs, 'findings')
    for f, v in zip(fs, verdicts):
        tags = set(v)
        if f['expect_tag'] in tags and not (tags & set(CORR)):
            ctx.known(f['id'])
        else:
            ctx.notes.append(f"finding_not_reproduced {f['id']} (tags {sorted(tags)})")


def run(ctx):
    # entries of known_findings.d/C16.json (newer) replace entries with the same id of known_findings.json
    ctx.findings = list({f['id']: f for f in ctx.findings}.values())
    ctx.build_gate(['C16'])
    ctx.trusted += [
        'harness/props/c16.py + c16_worker.py: CPython audit hook (events open, os.mkdir, os.utime, os.listdir, os.remove, '
        'os.symlink, ... under the run directory), crash injection by os._exit inside the hook, truncation of the last '
        'written file for torn writes, canonicalisation of paths / contents to Gallina terms, generator, classification',
        'identity of file contents written by pharmpy writers (model code, csv, datainfo, results) is compared up to a '
        'bijection with the model\'s blobs; their meaning is checked by the retrieval oracle (parameters, statements, '
        'random variables, datainfo, dataset, name, description, results of the retrieved entry equal the stored one)',
        'pharmpy.workflows.contexts.baseclass.datetime is replaced by a fixed clock in the child processes (harness side)',
        'two-writer runs: two forked processes started by a pipe signal, random sleeps inside the audit hook; the final tree '
        'is compared inside Coq with both serial orders (C16/Check.v cverdict); the interleaving theorems (all schedules) assume the '
        'locked section atomic (property C15); a finding witness of kind reentrant runs the second call inside the audit '
        'hook of the first (c16_worker.run_reentrant)',
    ]
    ctx.assumptions += [
        'durability is not covered: a completed write/close is assumed to be on disk (the code never calls fsync)',
        'a crash is a prefix of the audited operation sequence, the last write possibly cut to a prefix; every other '
        'operation (mkdir, create, unlink, symlink, rename) is atomic',
        'crash theorems: single writer; two concurrent writers (different keys / annotations / log) are covered without '
        'crashes, at system-call granularity, with the locked sections atomic (property C15)',
        'ModelHash / DatasetHash are collision free (keys and dataset hashes are abstract identifiers in the model)',
        'one level of subcontexts, NONMEM models (model.ctl), UTF-8 encodable text; model descriptions '
        'are valid NONMEM titles (write_model raising inside the transaction is not modelled)',
    ]
    ctx.coverage['source_sha'] = source_sha(
        'src/pharmpy/workflows/model_database/local_directory.py', 'src/pharmpy/workflows/model_database/baseclass.py',
        'src/pharmpy/workflows/contexts/local_directory.py', 'src/pharmpy/workflows/contexts/baseclass.py',
        'src/pharmpy/workflows/hashing.py', 'src/pharmpy/internals/fs/symlink.py')
    try:
        finding_probes(ctx)
        specs, obs = [], []
        # regression corpus first
        reg = [json.loads(p.read_text()) for p in sorted((VERIF / 'regress' / 'C16').glob('*.json'))]
        if reg:
            specs += reg
            obs += run_real(ctx, reg, 'regress')
        quick = ctx.tier == 'quick'
        fw = fixed_workloads()
        if quick:
            s1, o1 = expand_crashes(ctx, fw[:1], 'fixed', dense=True, lighten=True)
            s1b, o1b = expand_crashes(ctx, fw[1:], 'fixedc', dense=False, limit=24, lighten=True)
            s1, o1 = s1 + s1b, o1 + o1b
        else:
            s1, o1 = expand_crashes(ctx, fw, 'fixed', dense=True)
        specs += s1
        obs += o1
        ctx.log(f'fixed workloads: {len(s1)} cases run on the implementation')
        ncodec = 24 if quick else 400
        codec = []
        for wl in fixed_codec_workloads():
            wl = dict(wl)
            wl['crash'], wl['torn'] = None, None
            wl['w2'] = recovery_items(wl['w1'], wl['models'], extra_stores=False)
            codec.append(wl)
        for _ in range(ncodec):
            wl = gen_codec_workload(ctx.rng)
            wl['crash'], wl['torn'] = None, None
            wl['w2'] = recovery_items(wl['w1'], wl['models'], extra_stores=False)
            codec.append(wl)
        specs += codec
        obs += run_real(ctx, codec, 'codec')
        nrand = 3 if quick else 24
        rand = [gen_workload(ctx.rng, ctx.rng.choice([1, 2, 3, 4])) for _ in range(nrand)]
        s2, o2 = expand_crashes(ctx, rand, 'rand', dense=not quick, limit=8 if quick else 20, lighten=quick)
        specs += s2
        obs += o2
        if not quick:
            s3, o3 = expand_crashes(ctx, two_item_workloads(), 'two', dense=False, limit=10, lighten=True)
            specs += s3
            obs += o3
            s4, o4 = expand_crashes(ctx, two_item_workloads(three=True), 'three', dense=False, limit=3, lighten=True)
            specs += s4
            obs += o4
            ctx.coverage['three_item_workloads'] = 343
            ctx.coverage['exhaustive_note'] = ('every workload of 1 or 2 items over a 7-item alphabet (56 workloads) with 10 '
                                               'sampled crash points each; every workload of exactly 3 items over the same alphabet (343 workloads) with 3 '
                                               'sampled crash points each; workloads of 4 items are sampled')
        cobs, cverd = run_concurrent(ctx, concurrent_specs(ctx, 8 if quick else 80), 'conc')
        ctx.coverage['concurrent_writer_runs'] = len(cverd)
        ctx.coverage['concurrent_annotation_orders'] = _hist(
            next((x[2][0] for x in o['tree'] if x[0] == 'annotations'), '?').split(' ')[0] for o in cobs)
        ctx.log(f'{len(specs)} cases run on the implementation; comparing inside Coq')
        kept, kept_obs, verdicts = verdicts_of(ctx, specs, obs, 'gen')
        ctx.log('verdicts computed')
        stats = {'ok': 0, 'known': 0, 'violation': 0, 'broken': 0}
        for s, v in zip(kept, verdicts):
            stats[classify(ctx, s, v)] += 1
        ctx.coverage['case_status'] = stats
        ctx.coverage['evaluations'] = len(kept)
        nontriv = {json.dumps(strip(s), sort_keys=True) for s, o in zip(kept, kept_obs) if len(o['ev1']) >= 5}
        ctx.coverage['distinct_nontrivial'] = len(nontriv)
        ctx.coverage['rule'] = (
            'a case = workload (<= 7 items over <= 3 models, some sharing key / dataset / datainfo) x crash point '
            '(every event after which the tree can differ, plus torn variants of every write) x recovery workload '
            '(retrieve every name and key, annotations, log, store every model again and retrieve it); non-trivial = at '
            'least 5 file-system events before the crash; distinct by the JSON text of (models, items, crash point, torn)')
        ctx.coverage['input_distribution'] = {
            'cases': len(kept), 'crash_cases': sum(1 for s in kept if s.get('crash') is not None),
            'torn_cases': sum(1 for o in kept_obs if o.get('torn_eff') is not None),
            'events_w1_total': sum(len(o['ev1']) for o in kept_obs),
            'events_w2_total': sum(len(o['ev2']) for o in kept_obs),
            'recovery_item_errors': _hist(o2_['err'] for o in kept_obs for o2_ in o['out2'].values() if not o2_['ok']),
            'w1_item_errors': _hist(o1_['err'] for o in kept_obs for o1_ in o['out1'].values() if not o1_['ok']),
            'guard_false': {str(g): sum(1 for v in verdicts if g in v) for g in (201, 202, 204, 206, 207, 208, 209)},
            'oracle_tags': {str(t): sum(1 for v in verdicts if t in v) for t in ORACLE},
            'inconclusive_subchecks': sum(1 for v in verdicts for t in v if t >= 1000),
            'workload_lengths': _hist(len(s['w1']) for s in kept),
        }
        ctx.coverage['samples'] = [{'spec': strip(s), 'tags': v, 'events_before_crash': len(o['ev1'])}
                                   for s, o, v in list(zip(kept, kept_obs, verdicts))[:3]]
        ctx.coverage['traces_validated_against_impl'] = len(kept)
    finally:
        if 'p' in _POOL:
            _POOL['p'].shutdown()
        shutil.rmtree(ctx.rundir / 'fs', ignore_errors=True)


def _hist(xs):
    h = {}
    for x in xs:
        h[str(x)] = h.get(str(x), 0) + 1
    return h


def replay(ctx, rep):
    spec = rep['spec']
    spec = dict(spec)
    obs = run_real(ctx, [spec], 'replay')
    kept, _, verdicts = verdicts_of(ctx, [spec], obs, 'replay')
    tags = verdicts[0] if verdicts else []
    print('spec', json.dumps(strip(spec)))
    print('tags', tags, [TAGS.get(t, t) for t in tags])
    if 'p' in _POOL:
        _POOL['p'].shutdown()
    return 1 if any(t in ORACLE or t in CORR for t in tags) else 0
