"""C18 — search spaces are parsed, combined and enumerated exactly.
Model: coq/theories/C18 (Model.v, Check.v); theorems in Properties.v / Refuted.v.
Tie: the real generators (partitions, subsets, all_combinations) and workflow builders (exhaustive,
exhaustive_stepwise, reduced_stepwise, iivsearch brute force builders) and the ModelFeatures algebra are
run on generated inputs; their exact outputs are exported as Gallina terms and compared inside Coq with
the model's outputs; the property statements are evaluated on the implementation's own outputs."""
import json

from harness.lib import coqterm as ct
from harness.lib.core import VERIF, source_sha

from . import c18_mfl as M

LEVEL = 'proof'

TAGS = {
    1: 'partitions() output differs from the model', 2: 'subsets() output differs from the model',
    3: 'all_combinations() output differs from the model', 4: 'exhaustive() candidates differ from the model',
    5: 'stepwise workflow (candidate names / paths) differs from the model',
    6: 'iivsearch brute-force candidates differ from the model',
    7: 'MFL parse/stringify/algebra result differs from the model',
    8: 'not_supported_combo table regenerated from source differs from the verified table',
    10: 'the reference MFL parser (MflParser.parse_mfl) disagrees with lark + MFLInterpreter on a text',
    11: 'partitions(): an output is not a partition of the input',
    12: 'partitions(): two outputs denote the same set partition',
    13: 'partitions(): number of outputs is not the Bell number',
    14: 'partitions(): outputs not in the documented canonical order',
    21: 'subsets(): an output is not a sub-sequence of the input or has a size outside [min,max]',
    22: 'subsets(): duplicate output', 23: 'subsets(): wrong number of outputs',
    31: 'all_combinations(): invalid combination (empty / unknown key / category used twice)',
    32: 'all_combinations(): duplicate combination',
    33: 'all_combinations(): number of combinations is not prod(1+|category|)-1',
    41: 'candidate names not unique',
    42: 'exhaustive: a candidate with several features gets its functions as an unordered set although they are zipped with the keys',
    78: 'MFL: Transits.__eq__ does not return the truth value of equality',
    79: 'MFL: a text of the grammar is answered with an internal error instead of being read or refused',
    51: 'stepwise: a path is not allowed by the documented rules (feature repeated / category used twice / excluded combination)',
    52: 'stepwise: peripheral compartments not added one at a time in increasing order',
    53: 'stepwise: an allowed path is missing or a path occurs twice',
    54: 'stepwise: candidate names not unique / not numbered in creation order',
    55: 'reduced_stepwise: two candidates with the same features are both extended (no choose_best_model between them)',
    62: 'covsearch: a step does not offer exactly the remaining (parameter, covariate, effect) candidates',
    61: 'iivsearch: candidates are not exactly the non-empty eta subsets / block partitions (minus the base structure)',
    71: 'MFL: parse(stringify(parse(s))) differs from parse(s)',
    72: 'MFL: a + b does not denote the union of the expanded feature combinations',
    73: 'MFL: a - b does not denote the difference of the expanded feature combinations',
    74: 'MFL: a == b disagrees with equality of the expanded feature combinations',
    75: 'MFL: contain_subset disagrees with inclusion of the expanded feature combinations',
    761: 'MFL: a + b raises an internal error or returns an unusable object',
    762: 'MFL: a - b raises an internal error or returns an unusable object',
    763: 'MFL: a == b raises an internal error', 764: 'MFL: b == a raises an internal error',
    765: 'MFL: contain_subset raises an internal error',
    766: 'MFL: least_number_of_transformations raises an internal error',
    77: 'MFL: least_number_of_transformations is not a smallest set of transformations into the other space',
}
CORR = (1, 2, 3, 4, 5, 6, 7, 8, 10)

# fixed code table shared with coq/theories/C18/Model.v (s_* definitions)
STR_CODES = {
    'ABSORPTION': 1, 'ELIMINATION': 2, 'TRANSITS': 3, 'PERIPHERALS': 4, 'LAGTIME': 5, 'COVARIATE': 6,
    'DIRECT': 7, 'EFFECTCOMP': 8, 'INDIRECT': 9, 'METABOLITE': 10, 'ALLOMETRY': 11,
    'FO': 20, 'ZO': 21, 'SEQ-ZO-FO': 22, 'INST': 23, 'MM': 24, 'MIX-FO-MM': 25, 'DEPOT': 26, 'NODEPOT': 27,
    'ON': 28, 'OFF': 29, 'DRUG': 30, 'MET': 31,
}


class Codes:
    """strings -> N codes: the fixed table for names the algorithms inspect, fresh codes >= 1000 otherwise"""

    def __init__(self):
        self.extra = {}

    def code(self, s):
        if s in STR_CODES:
            return STR_CODES[s]
        if s not in self.extra:
            self.extra[s] = 1000 + len(self.extra)
        return self.extra[s]


def atom(a, codes):
    if isinstance(a, bool):
        raise TypeError('bool atom')
    if isinstance(a, int):
        return f'(AI ({a}))'
    if isinstance(a, str):
        return f'(AS {codes.code(a)})'
    raise TypeError(f'atom {a!r}')


def key_term(k, codes):
    return ct.lst([atom(a, codes) for a in k])


def zlist(l):
    return '[' + ';'.join(str(int(x)) for x in l) + ']%Z'


def zlist2(ll):
    return '[' + ';'.join('[' + ';'.join(str(int(x)) for x in l) + ']' for l in ll) + ']%Z'


def zlist3(lll):
    return '[' + ';'.join('[' + ';'.join('[' + ';'.join(str(int(x)) for x in l) + ']' for l in ll) + ']' for ll in lll) + ']%Z'


def sterm(s):
    return '[' + ';'.join(str(ord(c)) for c in s) + ']'


def slist3(lll):
    return '[' + ';'.join('[' + ';'.join('[' + ';'.join(sterm(x) for x in l) + ']' for l in ll) + ']' for ll in lll) + ']%N'


# ------------------------------------------------------------------ generators
def gen_core_specs(rng, tier):
    specs = []
    nmax = 7 if tier == 'quick' else 9
    for n in range(0, nmax + 1):
        specs.append({'kind': 'partZ', 'l': list(range(n))})
    for n in range(0, (6 if tier == 'quick' else 8) + 1):
        specs.append({'kind': 'partS', 'l': [f'ETA_{i}' for i in range(1, n + 1)]})
    # eta names whose string order differs from the numeric order, mixed case, prefixes of each other
    specs.append({'kind': 'partS', 'l': ['ETA_10', 'ETA_9', 'ETA_1', 'ETA_2', 'eta_2']})
    specs.append({'kind': 'partS', 'l': ['ETA_CL', 'ETA_V', 'ETA_MAT', 'ETA_CLV', 'ETA_']})
    for _ in range(30 if tier == 'quick' else 200):
        n = rng.choice([1, 2, 3, 3, 4, 4, 5, 5, 6])
        l = rng.sample(range(-20, 40), n)
        specs.append({'kind': 'partZ', 'l': l})
    for _ in range(10 if tier == 'quick' else 60):
        n = rng.choice([2, 3, 4, 5, 6])
        alphabet = 'ABab_19'
        names = set()
        while len(names) < n:
            names.add(''.join(rng.choice(alphabet) for _ in range(rng.choice([1, 2, 3]))))
        l = sorted(names)
        rng.shuffle(l)
        specs.append({'kind': 'partS', 'l': l})
    # malformed stream: repeated elements (the property speaks about sets; only the model tie is judged)
    for _ in range(6 if tier == 'quick' else 30):
        n = rng.choice([2, 3, 4, 5])
        specs.append({'kind': 'partZ', 'l': [rng.choice([1, 2, 3]) for _ in range(n)], 'dup': True})
    # subsets: every (n, min, max) in a box, then random
    top = 6 if tier == 'quick' else 9
    for n in range(0, top + 1):
        l = list(range(10, 10 + n))
        for mn in range(0, min(n, 4) + 2):
            for mx in sorted({-n - 2, -3, -2, -1, 0, 1, 2, n - 1, n, n + 1}):
                specs.append({'kind': 'sub', 'l': l, 'min': mn, 'max': mx})
    for _ in range(40 if tier == 'quick' else 400):
        n = rng.choice([1, 2, 3, 4, 5, 6, 7, 8, 9, 10])
        specs.append({'kind': 'sub', 'l': rng.sample(range(-50, 50), n), 'min': rng.choice([0, 0, 1, 1, 2, 3]),
                      'max': rng.choice([-1, -1, -2, -3, 0, 1, 2, 3, n, n + 2])})
    # all_combinations over synthetic key dicts
    for _ in range(60 if tier == 'quick' else 600):
        specs.append({'kind': 'comb', 'keys': gen_keys(rng)})
    return specs


CATS = ['ABSORPTION', 'ELIMINATION', 'TRANSITS', 'PERIPHERALS', 'LAGTIME', 'COVARIATE', 'X', 'Y']


def gen_keys(rng):
    ncat = rng.choice([1, 2, 2, 3, 3, 4, 5])
    cats = rng.sample(CATS, ncat)
    keys = []
    for c in cats:
        for i in range(rng.choice([1, 1, 2, 2, 3, 4])):
            if rng.random() < 0.5:
                k = [c, i] + (['DEPOT'] if rng.random() < 0.3 else [])
            else:
                k = [c, rng.choice(['FO', 'ZO', 'ON', 'P', 'Q', 'R']) + str(i)]
            keys.append(k)
    if rng.random() < 0.7:
        rng.shuffle(keys)      # categories interleaved: grouping must follow first occurrence
    out = []
    for k in keys:
        if k not in out:
            out.append(k)
    if len(out) > 12:
        out = out[:12]
    return out


# ------------------------------------------------------------------ implementation side
def observe(spec):
    """Run the implementation on a spec; returns (coq term of type case, info)."""
    kind = spec['kind']
    if kind == 'partZ':
        partitions = M.impl('pharmpy.internals.set.partitions').partitions
        out = [[list(b) for b in p] for p in partitions(spec['l'])]
        return f"(CPartZ {zlist(spec['l'])} {zlist3(out)})", {'n_out': len(out), 'n': len(spec['l'])}
    if kind == 'partS':
        partitions = M.impl('pharmpy.internals.set.partitions').partitions
        out = [[list(b) for b in p] for p in partitions(spec['l'])]
        lterm = '[' + ';'.join(sterm(s) for s in spec['l']) + ']%N'
        return f"(CPartS {lterm} {slist3(out)})", {'n_out': len(out), 'n': len(spec['l'])}
    if kind == 'sub':
        sm = M.impl('pharmpy.internals.set.subsets')
        non_empty_proper_subsets, non_empty_subsets, subsets = sm.non_empty_proper_subsets, sm.non_empty_subsets, sm.subsets
        out = [list(s) for s in subsets(spec['l'], min_size=spec['min'], max_size=spec['max'])]
        # the two named wrappers are the same function at fixed arguments: make sure they really are
        if spec['min'] == 1 and spec['max'] == -1:
            assert out == [list(s) for s in non_empty_subsets(spec['l'])]
        if spec['min'] == 1 and spec['max'] == -2:
            assert out == [list(s) for s in non_empty_proper_subsets(spec['l'])]
        return (f"(CSubZ {zlist(spec['l'])} {ct.nat(spec['min'])} ({spec['max']})%Z {zlist2(out)})",
                {'n_out': len(out), 'n': len(spec['l'])})
    if kind == 'comb':
        all_combinations = M.impl('pharmpy.tools.mfl.helpers').all_combinations
        codes = Codes()
        keys = [tuple(k) for k in spec['keys']]
        fns = {k: (lambda m: m) for k in keys}
        out = [list(c) for c in all_combinations(fns)]
        kt = ct.lst([key_term(k, codes) for k in keys])
        ot = ct.lst([ct.lst([key_term(k, codes) for k in c]) for c in out])
        return f"(CComb {kt} {ot})", {'n_out': len(out), 'n': len(keys)}
    return M.observe(spec)


def case_nontrivial(spec, info):
    return info.get('n_out', 0) >= 2


# ------------------------------------------------------------------ classification
def classify(ctx, spec, tags):
    tags = set(tags)
    if spec.get('dup'):
        tags -= {12, 14}
    corr = sorted(t for t in tags if t in CORR)
    oracle = sorted(t for t in tags if 11 <= t < 200 or 700 <= t < 800)
    status = 'ok'
    for t in oracle:
        fid = M.explain(ctx, spec, t, tags)
        if fid is not None:
            ctx.coverage.setdefault('known_hits', {}).setdefault(fid, 0)
            ctx.coverage['known_hits'][fid] += 1
            if status == 'ok':
                status = 'known'
        else:
            ctx.violation(TAGS.get(t, str(t)), {'spec': spec, 'tags': sorted(tags), 'tag_meaning': TAGS.get(t, str(t))})
            status = 'violation'
    if corr and status != 'violation':
        ctx.broken.append('correspondence C18 model vs implementation: ' + ', '.join(TAGS[t] for t in corr)
                          + ' on ' + json.dumps(spec)[:400])
        ctx.coverage.setdefault('corr_disagreements', []).append({'spec': spec, 'tags': sorted(tags)})
        status = 'broken'
    return status


IMPORTS = 'Base.PyData C18.Model C18.MflModel C18.MflCheck C18.MflParser C18.Check'


def run_specs(ctx, specs, label, shard=40):
    terms, kept, infos = [], [], []
    timeouts = {}
    for spec in specs:
        if timeouts.get(spec['kind'], 0) >= 2:
            ctx.coverage['not_run_after_timeouts'] = ctx.coverage.get('not_run_after_timeouts', 0) + 1
            continue
        try:
            term, info = M.with_time_limit(20 if timeouts.get(spec['kind']) else 60, observe, spec)
        except M.Unexportable:
            ctx.coverage['skipped_unexportable'] = ctx.coverage.get('skipped_unexportable', 0) + 1
            continue
        except M.Rejected:
            ctx.coverage['rejected_by_parser'] = ctx.coverage.get('rejected_by_parser', 0) + 1
            continue
        except (M.ImplTimeout, MemoryError, RecursionError):
            timeouts[spec['kind']] = timeouts.get(spec['kind'], 0) + 1
            ctx.violation('implementation did not finish within 60 s on an input for which the model ends after |keys|+1 passes',
                          {'spec': spec, 'tags': [], 'tag_meaning': 'timeout'})
            continue
        terms.append(term)
        kept.append(spec)
        infos.append(info)
    # big cases first so that shards are balanced
    verdicts = ctx.run_cases(label, IMPORTS, 'case', terms, 'verdict', shard=shard, timeout=1500)
    return kept, verdicts, infos


def finding_probes(ctx):
    """Replay the stored witness of every open finding on the real code."""
    for f in ctx.findings:
        if f.get('status') != 'open':
            continue
        spec = f['witness']
        try:
            kept, verdicts, _ = run_specs(ctx, [spec], 'finding-' + f['id'])
            tags = set(verdicts[0])
        except Exception as e:  # the witness cannot even be exported any more
            ctx.notes.append(f"finding_not_reproduced {f['id']} ({type(e).__name__}: {e})")
            continue
        if f['expect_tag'] in tags and not (tags & set(CORR)):
            ctx.known(f['id'])
        else:
            ctx.notes.append(f"finding_not_reproduced {f['id']} (tags {sorted(tags)})")


def run(ctx):
    gen_ok = M.regenerate_tables(ctx)
    ctx.build_gate(['C18'], extra_vfiles=M.generated_vfiles())
    ctx.trusted += [
        'harness/props/c18.py, c18_mfl.py: generators, export of real tuples / workflow task lists / ModelFeatures attributes to Gallina terms (strings as code points or table codes), classification',
        'hand-written models coq/theories/C18/Model.v (enumerators, stepwise builders) and MflModel.v (ModelFeatures algebra) validated by the in-Coq correspondence only on generated inputs',
        'Python sorted() is a stable sort: modelled by a stable merge sort (any stable sort gives the same list); Python set iteration order is unspecified: results are compared as sets, and the zip over a set in exhaustive() is quantified over every order',
        'fail-closed ast translators (c18_mfl.translate_not_supported_combo, translate_wildcard_tuple) of the literal table not_supported_combo and of the *_WILDCARD tuples',
        'networkx DiGraph node order / predecessors as used by Workflow.output_tasks, get_predecessors (the harness walks the real workflow graphs)',
    ]
    ctx.assumptions += [
        'the LALR grammar of the MFL (lark) is an engine; it is tied to the proved reference parser MflParser.parse_mfl by comparing accept/reject and the statements on generated upper-case texts incl. a one-edit malformed stream (ALLOMETRY and lower-case spellings are outside the reference grammar)',
        'model fitting / the transformation functions attached to feature keys are not executed: only the workflow graphs the algorithm builders create are compared',
        'COVARIATE wildcards and model-dependent references (@PK, @IIV, ...; ModelFeatures.expand(model)), ALLOMETRY and get_model_features are not covered; LET references are',
        'a - b: where a category difference is empty the result may carry the category default (ModelFeatures.create completes a PK space); this convention is part of the specification used',
        'contain_subset is judged as modelsearch uses it (tool=None: PK categories, DRUG peripherals) and only on PK spaces; least_number_of_transformations only with tool=modelsearch',
        'the stepwise algorithms are judged on feature dictionaries from convert_to_funcs() in any listing order (DRUG and MET peripherals)',
    ]
    ctx.coverage['source_sha'] = source_sha(
        'src/pharmpy/internals/set/partitions.py', 'src/pharmpy/internals/set/subsets.py',
        'src/pharmpy/tools/mfl/helpers.py', 'src/pharmpy/tools/modelsearch/algorithms.py',
        'src/pharmpy/tools/iivsearch/algorithms.py', 'src/pharmpy/tools/mfl/parse.py',
        'src/pharmpy/tools/mfl/stringify.py')
    finding_probes(ctx)
    reg = sorted((VERIF / 'regress' / 'C18').glob('*.json'))
    specs = [json.loads(p.read_text()) for p in reg]
    specs += gen_core_specs(ctx.rng, ctx.tier)
    specs += M.gen_specs(ctx.rng, ctx.tier)
    # heavy cases first (balanced shards)
    kept, verdicts, infos = run_specs(ctx, specs, 'gen')
    stats = {'ok': 0, 'known': 0, 'violation': 0, 'broken': 0}
    for spec, tags in zip(kept, verdicts):
        stats[classify(ctx, spec, tags)] += 1
    ctx.coverage['evaluations'] = sum(i.get('n_out', 1) for i in infos)
    distinct = {json.dumps(s, sort_keys=True) for s, i in zip(kept, infos) if case_nontrivial(s, i)}
    ctx.coverage['distinct_nontrivial'] = len(distinct)
    ctx.coverage['cases'] = len(kept)
    ctx.coverage['rule'] = ('one evaluation = one enumerated object (partition / subset / combination / candidate / algebra '
                            'result) of the implementation compared with the model inside Coq; non-trivial = the case has at '
                            'least two outputs; distinct by input spec')
    ctx.coverage['case_status'] = stats
    kinds = {}
    for s, i in zip(kept, infos):
        d = kinds.setdefault(s['kind'], {'cases': 0, 'outputs': 0, 'max_n': 0})
        d['cases'] += 1
        d['outputs'] += i.get('n_out', 1)
        d['max_n'] = max(d['max_n'], i.get('n', 0))
    ctx.coverage['input_distribution'] = {'by_kind': kinds, **M.distribution(kept, verdicts, infos)}
    ctx.coverage['samples'] = [{'spec': s, 'tags': v} for s, v in list(zip(kept, verdicts)) if s['kind'] not in ('sub',)][:6]
    ctx.coverage['generated_tables_ok'] = gen_ok


def replay(ctx, rep):
    if 'spec' not in rep:
        # a "no failing input found" record: it names the obligation / correspondence that no longer checks;
        # replaying means running the whole check again
        print('no input in this replay file; recorded as broken:', json.dumps(rep.get('broken'))[:600])
        run(ctx)
        print('broken now:', ctx.broken)
        return 1 if (ctx.broken or ctx.violations) else 0
    spec = rep['spec']
    M.regenerate_tables(ctx)
    kept, verdicts, _ = run_specs(ctx, [spec], 'replay')
    tags = verdicts[0]
    print('spec', json.dumps(spec))
    print('tags', tags, [TAGS.get(t, t) for t in tags])
    bad = [t for t in tags if t < 200 or 700 <= t < 800]
    if spec.get('dup'):
        bad = [t for t in bad if t not in (12, 14)]
    return 1 if bad else 0
