"""C04 helpers: export of real pharmpy syntax trees / parameters to Gallina terms, float tables,
layout and edit generators, and the observation of one edit step on the real code."""
import math
import re
from fractions import Fraction

from harness.lib import coqterm as ct
from harness.lib.core import THEORIES

# ------------------------------------------------------------------ rule table (single source: Cst.v)
_rules = None


def rules():
    global _rules
    if _rules is None:
        text = (THEORIES / 'C04' / 'Cst.v').read_text()
        body = text[text.index('(* BEGIN-RULES *)'):text.index('(* END-RULES *)')]
        _rules = {m.group(1): int(m.group(2))
                  for m in re.finditer(r'Definition r_(\w+) : rule := (\d+)%positive\.', body)}
    return _rules


class UnknownRule(Exception):
    pass


def rule_no(name):
    r = rules()
    if name not in r:
        raise UnknownRule(name)
    return r[name]


def text_term(s):
    return '[' + '; '.join(f'{ord(c)}' for c in s) + ']%N'


def node_term(node):
    from pharmpy.internals.parse import AttrTree
    if isinstance(node, AttrTree):
        return f"(Tree {rule_no(node.rule)}%positive [" + '; '.join(node_term(c) for c in node.children) + "])"
    return f"(Tok {rule_no(node.rule)}%positive {text_term(str(node.value))})"


def tree_tokens(node, out):
    from pharmpy.internals.parse import AttrTree
    if isinstance(node, AttrTree):
        for c in node.children:
            tree_tokens(c, out)
    else:
        out.append(node)


# ------------------------------------------------------------------ float tables
def format_number(x):
    if not math.isinf(x) and int(x) == x:
        return str(int(x))
    return str(x)


class FT:
    """The CPython float functions the modelled code uses, tabulated for the values of one case."""

    def __init__(self):
        self.tok = {}     # text -> Fraction(float(text))
        self.str = {}     # Fraction -> str(x)
        self.fmt = {}     # Fraction -> format_number(x)
        self.sqrt = {}
        self.sq = {}

    def text(self, s):
        try:
            v = float(s)
        except ValueError:
            return
        if math.isfinite(v):
            self.tok[s] = Fraction(v)

    def value(self, x, depth=2):
        x = float(x)
        if not math.isfinite(x):
            return
        k = Fraction(x)
        if k in self.str:
            return
        self.str[k] = str(x)
        self.fmt[k] = format_number(x)
        self.text(self.str[k])
        self.text(self.fmt[k])
        if depth > 0 and x >= 0:
            r = x ** 0.5
            self.sqrt[k] = Fraction(r)
            self.value(r, depth - 1)
        if depth > 0 and abs(x) < 1e150:
            s = x ** 2
            self.sq[k] = Fraction(s)
            self.value(s, depth - 1)

    def trees(self, nodes):
        toks = []
        for n in nodes:
            tree_tokens(n, toks)
        for t in toks:
            self.text(str(t.value))

    def term(self):
        tok = ct.lst([ct.pair(text_term(s), ct.q(v)) for s, v in sorted(self.tok.items())])
        st = ct.lst([ct.pair(ct.q(k), text_term(s)) for k, s in sorted(self.str.items())])
        fm = ct.lst([ct.pair(ct.q(k), text_term(s)) for k, s in sorted(self.fmt.items())])
        sr = ct.lst([ct.pair(ct.q(k), ct.q(v)) for k, v in sorted(self.sqrt.items())])
        sq = ct.lst([ct.pair(ct.q(k), ct.q(v)) for k, v in sorted(self.sq.items())])
        return f"(mkT {tok}\n   {st}\n   {fm}\n   {sr}\n   {sq})"


def xq_term(x):
    x = float(x)
    if x == math.inf:
        return 'XP'
    if x == -math.inf:
        return 'XM'
    return f'(XF {ct.q(Fraction(x))})'


def rp_term(p):
    return ct.tup(ct.q(Fraction(float(p.init))), xq_term(p.lower), xq_term(p.upper), ct.boolean(p.fix))


def nparams_term(ps, ft):
    for p in ps:
        ft.value(p.init)
        ft.value(p.lower)
        ft.value(p.upper)
    return ct.lst([ct.pair(text_term(p.name), rp_term(p)) for p in ps])


def err_kind(e):
    from lark.exceptions import LarkError
    from pharmpy.model import ModelSyntaxError
    if isinstance(e, ModelSyntaxError):
        return 1
    if isinstance(e, LarkError):
        return 2
    return 3


def rres_term(ok, payload):
    return f"(ROk {payload})" if ok else f"(RErr {payload})"


# ------------------------------------------------------------------ the minimal real model
HEAD = "$PROBLEM\n$INPUT ID TIME DV\n$DATA file.csv IGNORE=@\n$PRED\n"
TAIL = "$ESTIMATION METHOD=1\n"


def theta_model_code(theta_text):
    return HEAD + "Y = ETA(1) + EPS(1)\n" + theta_text + "$OMEGA 0.1\n$SIGMA 1\n" + TAIL


def parse_pieces(code):
    """What parse_model has in hand when it calls parse_parameters: the control stream, the names
    that are already taken.  Raises what the real parser raises."""
    from pharmpy.model.external.nonmem.nmtran_parser import NMTranParser
    from pharmpy.model.external.nonmem.parsing import convert_dvs, parse_datainfo, parse_statements
    cs = NMTranParser().parse(code)
    di = parse_datainfo(cs, None)
    statements, _ = parse_statements(di, None, cs)
    try:
        dvid_name = di.typeix['dvid'][0].name
    except IndexError:
        dvid_name = 'DVID'
    statements, _, _ = convert_dvs(statements, cs, dvid_name)
    all_names = {s.name for s in statements.free_symbols if not s.is_derivative()} | set(di.names)
    return cs, sorted(all_names)


def thetas_of(params, rvs):
    free = rvs.free_symbols
    return [p for p in params if p.symbol not in free]


def theta_roots(cs):
    return [r.root for r in cs.get_records('THETA')]


def parse_obs_term(code, ft):
    """Fresh parse of a control stream text: the lark trees of the $THETA records and what
    read_model_from_string makes of them.  Returns (term or None, info)."""
    from pharmpy.modeling import read_model_from_string
    try:
        cs, names = parse_pieces(code)
        roots = theta_roots(cs)
    except Exception as e:          # lark refused a record (or anything else before parameters)
        return None, {'pre_error': type(e).__name__, 'kind': err_kind(e)}
    ft.trees(roots)
    try:
        m = read_model_from_string(code)
        ths = thetas_of(m.parameters, m.random_variables)
        res = rres_term(True, nparams_term(ths, ft))
        info = {'ok': True, 'n': len(ths), 'model': m}
    except Exception as e:
        res = rres_term(False, str(err_kind(e)))
        info = {'ok': False, 'error': type(e).__name__, 'kind': err_kind(e)}
    term = (f"(mkPO {ct.lst([text_term(n) for n in names])}\n   {ct.lst([node_term(r) for r in roots])}\n   {res})")
    info['names'] = names
    return term, info


# ------------------------------------------------------------------ edits through the public API
def fl(s):
    return float(s)


def apply_edit(model, edit):
    """Apply one concrete edit (names and values spelled out) with pharmpy.modeling / Model API."""
    from pharmpy.model import Parameter, Parameters
    from pharmpy import modeling as md
    op = edit['op']
    if op == 'init':
        return md.set_initial_estimates(model, {edit['name']: fl(edit['v'])})
    if op == 'lower':
        return md.set_lower_bounds(model, {edit['name']: fl(edit['v'])})
    if op == 'upper':
        return md.set_upper_bounds(model, {edit['name']: fl(edit['v'])})
    if op == 'fix':
        return md.fix_parameters(model, [edit['name']])
    if op == 'unfix':
        return md.unfix_parameters(model, [edit['name']])
    if op == 'fixto':
        return md.fix_parameters_to(model, {edit['name']: fl(edit['v'])})
    if op == 'unconstrain':
        return md.unconstrain_parameters(model, [edit['name']])
    if op == 'add':
        lo = None if edit['lower'] == '-inf' else fl(edit['lower'])
        up = None if edit['upper'] == 'inf' else fl(edit['upper'])
        return md.add_population_parameter(model, edit['name'], fl(edit['init']), lower=lo, upper=up,
                                           fix=edit['fix'])
    if op == 'remove':
        names = set(edit['names'])
        new = Parameters.create([p for p in model.parameters if p.name not in names])
        return model.replace(parameters=new).update_source()
    if op == 'multi':
        ch = {c['name']: c for c in edit['changes']}
        new = []
        for p in model.parameters:
            if p.name in ch:
                c = ch[p.name]
                new.append(Parameter.create(p.name, fl(c['init']), lower=fl(c['lower']), upper=fl(c['upper']),
                                            fix=c['fix']))
            else:
                new.append(p)
        return model.replace(parameters=Parameters.create(new)).update_source()
    raise ValueError(op)


def observe_theta_step(cur, edit, first_parse_term=None):
    """One edit on the real model.  Returns (coq term of type tstep, info, edited model or None)."""
    from pharmpy.modeling import read_model_from_string
    ft = FT()
    before = theta_roots(cur.internals.control_stream)
    ft.trees(before)
    old = thetas_of(cur.internals.old_parameters, cur.internals.old_random_variables)
    info = {'edit': edit['op']}
    # the names taken by statements / data columns (the same for every re-read of this model)
    try:
        edited = apply_edit(cur, edit)
        err = None
    except Exception as e:
        edited, err = None, e
    parses = []
    if first_parse_term is not None:
        parses.append(first_parse_term[0])
        for s, v in first_parse_term[1].tok.items():
            ft.tok[s] = v
        for d_to, d_from in ((ft.str, first_parse_term[1].str), (ft.fmt, first_parse_term[1].fmt),
                             (ft.sqrt, first_parse_term[1].sqrt), (ft.sq, first_parse_term[1].sq)):
            d_to.update(d_from)
    if edited is None:
        # we still need new_thetas as update_thetas saw them: rebuild what the API call intended
        info['edit_error'] = f'{type(err).__name__}: {str(err)[:120]}'
        new = intended_new_thetas(cur, edit)
        after = rres_term(False, str(err_kind(err)))
        reread = 'None'
        names = parse_pieces(cur.code)[1]
    else:
        new = thetas_of(edited.parameters, edited.random_variables)
        roots_after = theta_roots(edited.internals.control_stream)
        ft.trees(roots_after)
        after = rres_term(True, ct.lst([node_term(r) for r in roots_after]))
        code = edited.code
        info['code'] = code
        po, pinfo = parse_obs_term(code, ft)
        names = pinfo.get('names')
        if po is not None:
            parses.append(po)
        if names is None:
            names = parse_pieces(cur.code)[1]
        try:
            rr = read_model_from_string(code)
            rths = thetas_of(rr.parameters, rr.random_variables)
            reread = '(Some ' + rres_term(True, nparams_term(rths, ft)) + ')'
            info['reread_ok'] = True
            info['consistent'] = ([(p.name, p.init, p.lower, p.upper, p.fix) for p in rths]
                                  == [(p.name, p.init, p.lower, p.upper, p.fix) for p in new])
        except Exception as e:
            reread = '(Some ' + rres_term(False, str(err_kind(e))) + ')'
            info['reread_ok'] = False
            info['reread_error'] = f'{type(e).__name__}: {str(e)[:120]}'
    old_t = nparams_term(old, ft)
    new_t = nparams_term(new, ft)
    term = ("(mkTS " + ft.term() + "\n  " + ct.lst([text_term(n) for n in names]) + "\n  "
            + ct.lst([node_term(r) for r in before]) + "\n  " + old_t + "\n  " + new_t + "\n  " + after
            + "\n  " + ct.lst(parses) + "\n  " + reread + ")")
    return term, info, edited


def intended_new_thetas(cur, edit):
    """The parameter list the API call hands to update_source (used only when update_source raised)."""
    from pharmpy.model import Parameter, Parameters
    ps = list(cur.parameters)
    op = edit['op']

    def rep(name, **kw):
        return [Parameter(p.name, kw.get('init', p.init), kw.get('lower', p.lower), kw.get('upper', p.upper),
                          kw.get('fix', p.fix)) if p.name == name else p for p in ps]
    if op == 'init':
        ps = rep(edit['name'], init=fl(edit['v']))
    elif op == 'lower':
        ps = rep(edit['name'], lower=fl(edit['v']))
    elif op == 'upper':
        ps = rep(edit['name'], upper=fl(edit['v']))
    elif op == 'fix':
        ps = rep(edit['name'], fix=True)
    elif op == 'unfix':
        ps = rep(edit['name'], fix=False)
    elif op == 'fixto':
        ps = rep(edit['name'], fix=True, init=fl(edit['v']))
    elif op == 'unconstrain':
        ps = rep(edit['name'], lower=-math.inf, upper=math.inf, fix=False)
    elif op == 'add':
        ps = ps + [Parameter.create(edit['name'], fl(edit['init']), lower=fl(edit['lower']), upper=fl(edit['upper']),
                                    fix=edit['fix'])]
    elif op == 'remove':
        ps = [p for p in ps if p.name not in set(edit['names'])]
    elif op == 'multi':
        for c in edit['changes']:
            ps = [Parameter(p.name, fl(c['init']), fl(c['lower']), fl(c['upper']), c['fix'])
                  if p.name == c['name'] else p for p in ps]
    return thetas_of(Parameters(tuple(ps)), cur.random_variables)


# ------------------------------------------------------------------ generators
VALS = ['0', '1', '2', '3', '4', '5', '10', '0.5', '0.25', '1.5', '2.5', '-1', '-2', '-0.5', '12.5', '100',
        '0.1', '0.01', '7', '-3', '0.75', '20', '1000', '0.001']


def spell(rng, s):
    """A NUMERIC spelling of the decimal s (same float)."""
    v = Fraction(s)
    forms = [s]
    if v.denominator == 1:
        i = int(v)
        forms += [f'{i}.0', f'{i}.', f'{i}.00', f'{i}E0']
        if i > 0:
            forms.append(f'+{i}')
        if i != 0 and i % 10 == 0:
            forms.append(f'{i // 10}E1')
            forms.append(f'{i // 10}e+1')
    else:
        forms += [s + '0']
        if s.startswith('0.'):
            forms.append(s[1:])
        if s.startswith('-0.'):
            forms.append('-' + s[2:])
        t = str(float(v * 10))
        forms.append(t + 'E-1')
    return rng.choice(forms)


FIXW = ['FIX', 'FIX', 'FIXED', 'FIXE']


def gen_theta(rng, exotic):
    lo, ini, up = sorted(rng.sample([Fraction(v) for v in VALS], 3))
    S = lambda v: spell(rng, str(float(v)) if v.denominator != 1 else str(int(v)))
    w = lambda: rng.choice(['', '', '', ' ', '  ', '\t'])
    form = rng.choice(['bare', 'bare', 'p1', 'p2', 'p2', 'p3', 'p3', 'p3'])
    fix = rng.random() < 0.3
    if ini == 0 and not fix:
        fix = rng.random() < 0.85
    if form == 'bare':
        return S(ini) + ((rng.choice([' ', ' ', '  ', '']) + rng.choice(FIXW)) if fix else '')
    inside = fix and exotic and rng.random() < 0.5
    if inside:
        lo = up = ini
    los = rng.choice(['-INF', '-inf', '-1000000', '-Inf']) if rng.random() < 0.12 and not inside else S(lo)
    ups = rng.choice(['INF', 'inf', '1000000']) if rng.random() < 0.12 and not inside else S(up)
    slots = [''] * 4
    if inside:
        for k in rng.sample(range(4), rng.choice([1, 1, 2])):
            slots[k] = rng.choice(FIXW) + ' '
    trail = ',' if exotic and rng.random() < 0.25 else ''
    sep = (lambda: ',') if not (exotic and rng.random() < 0.1) else (lambda: ' ')
    if form == 'p1':
        t = f'({w()}{slots[0]}{S(ini)}{w()}{(" " + slots[1]) if slots[1] else ""})'
    elif form == 'p2':
        t = (f'({w()}{slots[0]}{los}{w()}{sep()}{w()}{slots[1]}{S(ini)}{(" " + slots[2]) if slots[2] else ""}'
             f'{w()}{trail})')
    else:
        t = (f'({w()}{slots[0]}{los}{w()}{sep()}{w()}{slots[1]}{S(ini)}{(" " + slots[2]) if slots[2] else ""}'
             f'{w()}{sep()}{w()}{ups}{(" " + slots[3]) if slots[3] else ""})')
    if fix and not inside:
        t += rng.choice([' ', ' ', '', '  ', '\t']) + rng.choice(FIXW)
    elif rng.random() < 0.2:
        t += rng.choice(['', '', ' ']) + f'x{rng.choice([2, 2, 3])}'
    return t


NAMES = ['TVCL', 'TVV', 'KA', 'POP_Q', 'THX', 'CLWT', 'c', 'TVCL', 'MAT', 'D1']


def gen_theta_record(rng, exotic):
    k = rng.choice([1, 1, 1, 2, 2, 3, 4])
    s = '$THETA'
    for i in range(k):
        s += rng.choice([' ', '  ', '\n ', '\n', ' \t']) + gen_theta(rng, exotic)
        r = rng.random()
        if r < 0.3:
            s += rng.choice([' ; ', ';', '  ;  ', ' ;']) + rng.choice(NAMES)
        elif r < 0.36:
            s += rng.choice([' ; 1 bad', ' ;', ' ; (0,1)', ' ; 2nd ; NM'])
        elif exotic and r < 0.4:
            s += rng.choice([' NOABORT', ' ABORT'])
    return s + rng.choice(['\n', '\n', ' \n', '\n\n'])


def gen_theta_layout(rng):
    exotic = rng.random() < 0.3
    n = rng.choice([1, 1, 2, 2, 3])
    return ''.join(gen_theta_record(rng, exotic) for _ in range(n))


def ftxt(x):
    if x == math.inf:
        return 'inf'
    if x == -math.inf:
        return '-inf'
    return repr(float(x))


def gen_theta_edit(rng, model, step):
    """A concrete, valid edit on the current real model (thetas only)."""
    ths = thetas_of(model.parameters, model.random_variables)
    vals = [float(Fraction(v)) for v in VALS]
    ops = ['init', 'init', 'lower', 'upper', 'fix', 'unfix', 'fixto', 'unconstrain', 'multi', 'multi', 'add', 'remove']
    for _ in range(20):
        op = rng.choice(ops)
        if not ths and op != 'add':
            continue
        if op == 'add':
            lo, ini, up = sorted(rng.sample(vals, 3))
            fix = rng.random() < 0.3
            if ini == 0 and not fix:
                continue
            lo = lo if rng.random() < 0.6 else -math.inf
            up = up if rng.random() < 0.5 else math.inf
            name = rng.choice(['POP_NEW', 'TVQ', 'THETA_9', 'NEWP', 'TVCL']) + str(step)
            if name in model.parameters.names:
                continue
            return {'op': 'add', 'name': name, 'init': ftxt(ini), 'lower': ftxt(lo), 'upper': ftxt(up), 'fix': fix}
        if op == 'remove':
            if len(ths) < 2:
                continue
            k = rng.choice([1, 1, 2]) if len(ths) > 2 else 1
            return {'op': 'remove', 'names': sorted(p.name for p in rng.sample(ths, k))}
        p = rng.choice(ths)
        if op == 'init':
            c = [v for v in vals if p.lower <= v <= p.upper and v != p.init and (v != 0 or p.fix)]
            if c:
                return {'op': 'init', 'name': p.name, 'v': ftxt(rng.choice(c))}
        elif op == 'lower':
            c = [v for v in vals if v < p.init and v != p.lower] + [-math.inf]
            return {'op': 'lower', 'name': p.name, 'v': ftxt(rng.choice(c))}
        elif op == 'upper':
            c = [v for v in vals if v > p.init and v != p.upper] + [math.inf]
            return {'op': 'upper', 'name': p.name, 'v': ftxt(rng.choice(c))}
        elif op == 'fix':
            if not p.fix:
                return {'op': 'fix', 'name': p.name}
        elif op == 'unfix':
            if p.fix and p.init != 0:
                return {'op': 'unfix', 'name': p.name}
        elif op == 'fixto':
            c = [v for v in vals if p.lower <= v <= p.upper]
            if c:
                return {'op': 'fixto', 'name': p.name, 'v': ftxt(rng.choice(c))}
        elif op == 'unconstrain':
            if p.init != 0:
                return {'op': 'unconstrain', 'name': p.name}
        elif op == 'multi':
            # the same new value for a run of consecutive thetas (so that (..)xn groups can be edited as a whole)
            i = ths.index(p)
            k = rng.choice([1, 2, 2, 3])
            grp = ths[i:i + k]
            lo, ini, up = sorted(rng.sample(vals, 3))
            fix = rng.random() < 0.3
            if ini == 0 and not fix:
                continue
            lo = lo if rng.random() < 0.6 else -math.inf
            up = up if rng.random() < 0.5 else math.inf
            return {'op': 'multi', 'changes': [{'name': q.name, 'init': ftxt(ini), 'lower': ftxt(lo),
                                                'upper': ftxt(up), 'fix': fix} for q in grp]}
    return None
