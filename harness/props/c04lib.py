"""C04 helpers: export of real pharmpy syntax trees / parameters to Gallina terms, float tables,
layout and edit generators, and the observation of one edit step on the real code."""
import math
import re
from fractions import Fraction

from harness.lib import coqterm as ct
from harness.lib.core import THEORIES

# ------------------------------------------------------------------ rule table (single source: Cst.v)
_rules = None


def rules():
    global _rules
    if _rules is None:
        text = (THEORIES / 'C04' / 'Cst.v').read_text()
        body = text[text.index('(* BEGIN-RULES *)'):text.index('(* END-RULES *)')]
        _rules = {m.group(1): int(m.group(2))
                  for m in re.finditer(r'Definition r_(\w+) : rule := (\d+)%positive\.', body)}
    return _rules


class UnknownRule(Exception):
    pass


def rule_no(name):
    r = rules()
    if name not in r:
        raise UnknownRule(name)
    return r[name]


def text_term(s):
    return '[' + '; '.join(f'{ord(c)}' for c in s) + ']%N'


def node_term(node):
    from pharmpy.internals.parse import AttrTree
    if isinstance(node, AttrTree):
        return f"(Tree {rule_no(node.rule)}%positive [" + '; '.join(node_term(c) for c in node.children) + "])"
    return f"(Tok {rule_no(node.rule)}%positive {text_term(str(node.value))})"


def tree_tokens(node, out):
    from pharmpy.internals.parse import AttrTree
    if isinstance(node, AttrTree):
        for c in node.children:
            tree_tokens(c, out)
    else:
        out.append(node)


# ------------------------------------------------------------------ float tables
def format_number(x):
    if not math.isinf(x) and int(x) == x:
        return str(int(x))
    return str(x)


class FT:
    """The CPython float functions the modelled code uses, tabulated for the values of one case."""

    def __init__(self, derive=False):
        self.derive = derive   # tabulate ** 0.5 and ** 2 as well ($OMEGA / $SIGMA cases)
        self.tok = {}     # text -> Fraction(float(text))
        self.str = {}     # Fraction -> str(x)
        self.fmt = {}     # Fraction -> format_number(x)
        self.sqrt = {}
        self.sq = {}

    def text(self, s):
        try:
            v = float(s)
        except ValueError:
            return
        if math.isfinite(v):
            self.tok[s] = Fraction(v)

    def _plain(self, x):
        k = Fraction(x)
        if k not in self.str:
            self.str[k] = str(x)
            self.fmt[k] = format_number(x)
            self.text(self.str[k])
            self.text(self.fmt[k])
        return k

    def _square(self, x):
        k = self._plain(x)
        if k not in self.sq and abs(x) < 1e150:
            q = x ** 2
            self.sq[k] = Fraction(q)
            self._plain(q)

    def value(self, x, depth=2):
        x = float(x)
        if not math.isfinite(x):
            return
        k = self._plain(x)
        if not self.derive or depth <= 0:
            return
        self._square(x)                       # SD token value -> variance
        if x >= 0 and k not in self.sqrt:     # variance -> SD token value -> variance read back
            r = x ** 0.5
            self.sqrt[k] = Fraction(r)
            self._square(r)

    def trees(self, nodes):
        toks = []
        for n in nodes:
            tree_tokens(n, toks)
        for t in toks:
            self.text(str(t.value))
            if t.rule in ('NUMERIC',):
                try:
                    self.value(float(str(t.value)), 1)
                except ValueError:
                    pass

    def term(self):
        tok = ct.lst([ct.pair(text_term(s), ct.q(v)) for s, v in sorted(self.tok.items())])
        st = ct.lst([ct.pair(ct.q(k), text_term(s)) for k, s in sorted(self.str.items())])
        fm = ct.lst([ct.pair(ct.q(k), text_term(s)) for k, s in sorted(self.fmt.items())])
        sr = ct.lst([ct.pair(ct.q(k), ct.q(v)) for k, v in sorted(self.sqrt.items())])
        sq = ct.lst([ct.pair(ct.q(k), ct.q(v)) for k, v in sorted(self.sq.items())])
        return f"(mkT {tok}\n   {st}\n   {fm}\n   {sr}\n   {sq})"


def xq_term(x):
    x = float(x)
    if x == math.inf:
        return 'XP'
    if x == -math.inf:
        return 'XM'
    return f'(XF {ct.q(Fraction(x))})'


def rp_term(p):
    return ct.tup(ct.q(Fraction(float(p.init))), xq_term(p.lower), xq_term(p.upper), ct.boolean(p.fix))


def nparams_term(ps, ft):
    for p in ps:
        ft.value(p.init)
        ft.value(p.lower)
        ft.value(p.upper)
    return ct.lst([ct.pair(text_term(p.name), rp_term(p)) for p in ps])


def err_kind(e):
    from lark.exceptions import LarkError
    from pharmpy.model import ModelSyntaxError
    if isinstance(e, ModelSyntaxError):
        return 1
    if isinstance(e, LarkError):
        return 2
    return 3


def rres_term(ok, payload):
    return f"(ROk {payload})" if ok else f"(RErr {payload})"


# ------------------------------------------------------------------ the minimal real model
HEAD = "$PROBLEM\n$INPUT ID TIME DV\n$DATA file.csv IGNORE=@\n$PRED\n"
TAIL = "$ESTIMATION METHOD=1\n"


def theta_model_code(theta_text):
    return HEAD + "Y = ETA(1) + EPS(1)\n" + theta_text + "$OMEGA 0.1\n$SIGMA 1\n" + TAIL


def parse_pieces(code):
    """What parse_model has in hand when it calls parse_parameters: the control stream, the names
    that are already taken.  Raises what the real parser raises."""
    from pharmpy.model.external.nonmem.nmtran_parser import NMTranParser
    from pharmpy.model.external.nonmem.parsing import convert_dvs, parse_datainfo, parse_statements
    cs = NMTranParser().parse(code)
    di = parse_datainfo(cs, None)
    statements, _ = parse_statements(di, None, cs)
    try:
        dvid_name = di.typeix['dvid'][0].name
    except IndexError:
        dvid_name = 'DVID'
    statements, _, _ = convert_dvs(statements, cs, dvid_name)
    all_names = {s.name for s in statements.free_symbols if not s.is_derivative()} | set(di.names)
    return cs, sorted(all_names)


def thetas_of(params, rvs):
    free = rvs.free_symbols
    return [p for p in params if p.symbol not in free]


def theta_roots(cs):
    return [r.root for r in cs.get_records('THETA')]


def parse_obs_term(code, ft):
    """Fresh parse of a control stream text: the lark trees of the $THETA records and what
    read_model_from_string makes of them.  Returns (term or None, info)."""
    from pharmpy.modeling import read_model_from_string
    try:
        cs, names = parse_pieces(code)
        roots = theta_roots(cs)
    except Exception as e:          # lark refused a record (or anything else before parameters)
        return None, {'pre_error': type(e).__name__, 'kind': err_kind(e)}
    ft.trees(roots)
    try:
        m = read_model_from_string(code)
        ths = thetas_of(m.parameters, m.random_variables)
        res = rres_term(True, nparams_term(ths, ft))
        info = {'ok': True, 'n': len(ths), 'model': m}
    except Exception as e:
        res = rres_term(False, str(err_kind(e)))
        info = {'ok': False, 'error': type(e).__name__, 'kind': err_kind(e)}
    term = (f"(mkPO {ct.lst([text_term(n) for n in names])}\n   {ct.lst([node_term(r) for r in roots])}\n   {res})")
    info['names'] = names
    return term, info


# ------------------------------------------------------------------ edits through the public API
def fl(s):
    return float(s)


def apply_edit(model, edit):
    """Apply one concrete edit (names and values spelled out) with pharmpy.modeling / Model API."""
    from pharmpy.model import Parameter, Parameters
    from pharmpy import modeling as md
    op = edit['op']
    if op == 'init':
        return md.set_initial_estimates(model, {edit['name']: fl(edit['v'])})
    if op == 'lower':
        return md.set_lower_bounds(model, {edit['name']: fl(edit['v'])})
    if op == 'upper':
        return md.set_upper_bounds(model, {edit['name']: fl(edit['v'])})
    if op == 'fix':
        return md.fix_parameters(model, [edit['name']])
    if op == 'unfix':
        return md.unfix_parameters(model, [edit['name']])
    if op == 'fixto':
        return md.fix_parameters_to(model, {edit['name']: fl(edit['v'])})
    if op == 'unconstrain':
        return md.unconstrain_parameters(model, [edit['name']])
    if op == 'add':
        lo = None if edit['lower'] == '-inf' else fl(edit['lower'])
        up = None if edit['upper'] == 'inf' else fl(edit['upper'])
        return md.add_population_parameter(model, edit['name'], fl(edit['init']), lower=lo, upper=up,
                                           fix=edit['fix'])
    if op == 'remove':
        names = set(edit['names'])
        new = Parameters.create([p for p in model.parameters if p.name not in names])
        return model.replace(parameters=new).update_source()
    if op == 'compound':       # value changes + removals + additions in ONE update_source
        ch = {c['name']: c for c in edit['changes']}
        gone = set(edit['remove'])
        new = []
        for p in model.parameters:
            if p.name in gone:
                continue
            if p.name in ch:
                c = ch[p.name]
                new.append(Parameter.create(p.name, fl(c['init']), lower=fl(c['lower']), upper=fl(c['upper']),
                                            fix=c['fix']))
            else:
                new.append(p)
        for a in edit['add']:
            q = Parameter.create(a['name'], fl(a['init']), lower=fl(a['lower']), upper=fl(a['upper']),
                                 fix=a['fix'])
            pos = [k for k, x in enumerate(new) if x.name == a.get('before')]
            if pos:                  # inserted in front of a named parameter (only Parameters.create can do that)
                new.insert(pos[0], q)
            else:
                new.append(q)
        return model.replace(parameters=Parameters.create(new)).update_source()
    if op == 'replace':        # remove some thetas and add a new one in ONE update_source
        names = set(edit['names'])
        lo = fl(edit['lower'])
        up = fl(edit['upper'])
        newp = Parameter.create(edit['name'], fl(edit['init']), lower=lo, upper=up, fix=edit['fix'])
        new = Parameters.create([p for p in model.parameters if p.name not in names] + [newp])
        return model.replace(parameters=new).update_source()
    if op == 'multi':
        ch = {c['name']: c for c in edit['changes']}
        new = []
        for p in model.parameters:
            if p.name in ch:
                c = ch[p.name]
                new.append(Parameter.create(p.name, fl(c['init']), lower=fl(c['lower']), upper=fl(c['upper']),
                                            fix=c['fix']))
            else:
                new.append(p)
        return model.replace(parameters=Parameters.create(new)).update_source()
    raise ValueError(op)


def observe_theta_step(cur, edit, first_parse_term=None):
    """One edit on the real model.  Returns (coq term of type tstep, info, edited model or None)."""
    from pharmpy.modeling import read_model_from_string
    ft = FT()
    before = theta_roots(cur.internals.control_stream)
    ft.trees(before)
    old = thetas_of(cur.internals.old_parameters, cur.internals.old_random_variables)
    info = {'edit': edit['op']}
    # the names taken by statements / data columns (the same for every re-read of this model)
    try:
        edited = apply_edit(cur, edit)
        err = None
    except Exception as e:
        edited, err = None, e
    parses = []
    if first_parse_term is not None:
        parses.append(first_parse_term[0])
        for s, v in first_parse_term[1].tok.items():
            ft.tok[s] = v
        for d_to, d_from in ((ft.str, first_parse_term[1].str), (ft.fmt, first_parse_term[1].fmt),
                             (ft.sqrt, first_parse_term[1].sqrt), (ft.sq, first_parse_term[1].sq)):
            d_to.update(d_from)
    if edited is None:
        # we still need new_thetas as update_thetas saw them: rebuild what the API call intended
        info['edit_error'] = f'{type(err).__name__}: {str(err)[:120]}'
        new = intended_new_thetas(cur, edit)
        after = rres_term(False, str(err_kind(err)))
        reread = 'None'
        names = parse_pieces(cur.code)[1]
    else:
        new = thetas_of(edited.parameters, edited.random_variables)
        roots_after = theta_roots(edited.internals.control_stream)
        ft.trees(roots_after)
        after = rres_term(True, ct.lst([node_term(r) for r in roots_after]))
        code = edited.code
        info['code'] = code
        po, pinfo = parse_obs_term(code, ft)
        names = pinfo.get('names')
        if po is not None:
            parses.append(po)
        if names is None:
            names = parse_pieces(cur.code)[1]
        try:
            rr = read_model_from_string(code)
            rths = thetas_of(rr.parameters, rr.random_variables)
            reread = '(Some ' + rres_term(True, nparams_term(rths, ft)) + ')'
            info['reread_ok'] = True
            info['consistent'] = ([(p.name, p.init, p.lower, p.upper, p.fix) for p in rths]
                                  == [(p.name, p.init, p.lower, p.upper, p.fix) for p in new])
        except Exception as e:
            reread = '(Some ' + rres_term(False, str(err_kind(e))) + ')'
            info['reread_ok'] = False
            info['reread_error'] = f'{type(e).__name__}: {str(e)[:120]}'
    old_t = nparams_term(old, ft)
    new_t = nparams_term(new, ft)
    term = ("(mkTS " + ft.term() + "\n  " + ct.lst([text_term(n) for n in names]) + "\n  "
            + ct.lst([node_term(r) for r in before]) + "\n  " + old_t + "\n  " + new_t + "\n  " + after
            + "\n  " + ct.lst(parses) + "\n  " + reread + ")")
    return term, info, edited


def intended_new_thetas(cur, edit):
    """The parameter list the API call hands to update_source (used only when update_source raised)."""
    from pharmpy.model import Parameter, Parameters
    ps = list(cur.parameters)
    op = edit['op']

    def rep(name, **kw):
        return [Parameter(p.name, kw.get('init', p.init), kw.get('lower', p.lower), kw.get('upper', p.upper),
                          kw.get('fix', p.fix)) if p.name == name else p for p in ps]
    if op == 'init':
        ps = rep(edit['name'], init=fl(edit['v']))
    elif op == 'lower':
        ps = rep(edit['name'], lower=fl(edit['v']))
    elif op == 'upper':
        ps = rep(edit['name'], upper=fl(edit['v']))
    elif op == 'fix':
        ps = rep(edit['name'], fix=True)
    elif op == 'unfix':
        ps = rep(edit['name'], fix=False)
    elif op == 'fixto':
        ps = rep(edit['name'], fix=True, init=fl(edit['v']))
    elif op == 'unconstrain':
        ps = rep(edit['name'], lower=-math.inf, upper=math.inf, fix=False)
    elif op == 'add':
        ps = ps + [Parameter.create(edit['name'], fl(edit['init']), lower=fl(edit['lower']), upper=fl(edit['upper']),
                                    fix=edit['fix'])]
    elif op == 'remove':
        ps = [p for p in ps if p.name not in set(edit['names'])]
    elif op == 'compound':
        ch = {c['name']: c for c in edit['changes']}
        ps = [Parameter(p.name, fl(ch[p.name]['init']), fl(ch[p.name]['lower']), fl(ch[p.name]['upper']),
                        ch[p.name]['fix']) if p.name in ch else p for p in ps if p.name not in set(edit['remove'])]
        for a in edit['add']:
            q = Parameter.create(a['name'], fl(a['init']), lower=fl(a['lower']), upper=fl(a['upper']), fix=a['fix'])
            pos = [k for k, x in enumerate(ps) if x.name == a.get('before')]
            if pos:
                ps.insert(pos[0], q)
            else:
                ps.append(q)
    elif op == 'replace':
        ps = [p for p in ps if p.name not in set(edit['names'])] + [
            Parameter.create(edit['name'], fl(edit['init']), lower=fl(edit['lower']), upper=fl(edit['upper']),
                             fix=edit['fix'])]
    elif op == 'multi':
        for c in edit['changes']:
            ps = [Parameter(p.name, fl(c['init']), fl(c['lower']), fl(c['upper']), c['fix'])
                  if p.name == c['name'] else p for p in ps]
    return thetas_of(Parameters(tuple(ps)), cur.random_variables)


# ------------------------------------------------------------------ generators
VALS = ['0', '1', '2', '3', '4', '5', '10', '0.5', '0.25', '1.5', '2.5', '-1', '-2', '-0.5', '12.5', '100',
        '0.1', '0.01', '7', '-3', '0.75', '20', '1000', '0.001']


def spell(rng, s):
    """A NUMERIC spelling of the decimal s (same float)."""
    v = Fraction(s)
    forms = [s]
    if v.denominator == 1:
        i = int(v)
        forms += [f'{i}.0', f'{i}.', f'{i}.00', f'{i}E0']
        if i > 0:
            forms.append(f'+{i}')
        if i != 0 and i % 10 == 0:
            forms.append(f'{i // 10}E1')
            forms.append(f'{i // 10}e+1')
    else:
        forms += [s + '0']
        if s.startswith('0.'):
            forms.append(s[1:])
        if s.startswith('-0.'):
            forms.append('-' + s[2:])
        t = str(float(v * 10))
        forms.append(t + 'E-1')
    return rng.choice(forms)


FIXW = ['FIX', 'FIX', 'FIXED', 'FIXE']


def gen_theta(rng, exotic):
    lo, ini, up = sorted(rng.sample([Fraction(v) for v in VALS], 3))
    S = lambda v: spell(rng, str(float(v)) if v.denominator != 1 else str(int(v)))
    w = lambda: rng.choice(['', '', '', ' ', '  ', '\t'])
    form = rng.choice(['bare', 'bare', 'p1', 'p2', 'p2', 'p3', 'p3', 'p3'])
    fix = rng.random() < 0.3
    if ini == 0 and not fix:
        fix = rng.random() < 0.85
    if form == 'bare':
        return S(ini) + ((rng.choice([' ', ' ', '  ', '']) + rng.choice(FIXW)) if fix else '')
    inside = fix and exotic and rng.random() < 0.5
    if inside:
        lo = up = ini
    los = rng.choice(['-INF', '-inf', '-1000000', '-Inf']) if rng.random() < 0.12 and not inside else S(lo)
    ups = rng.choice(['INF', 'inf', '1000000']) if rng.random() < 0.12 and not inside else S(up)
    slots = [''] * 4
    if inside:
        for k in rng.sample(range(4), rng.choice([1, 1, 2])):
            slots[k] = rng.choice(FIXW) + ' '
    trail = ',' if exotic and rng.random() < 0.25 else ''
    sep = (lambda: ',') if not (exotic and rng.random() < 0.1) else (lambda: ' ')
    if form == 'p1':
        t = f'({w()}{slots[0]}{S(ini)}{w()}{(" " + slots[1]) if slots[1] else ""})'
    elif form == 'p2':
        t = (f'({w()}{slots[0]}{los}{w()}{sep()}{w()}{slots[1]}{S(ini)}{(" " + slots[2]) if slots[2] else ""}'
             f'{w()}{trail})')
    else:
        t = (f'({w()}{slots[0]}{los}{w()}{sep()}{w()}{slots[1]}{S(ini)}{(" " + slots[2]) if slots[2] else ""}'
             f'{w()}{sep()}{w()}{ups}{(" " + slots[3]) if slots[3] else ""})')
    if fix and not inside:
        t += rng.choice([' ', ' ', '', '  ', '\t']) + rng.choice(FIXW)
    elif rng.random() < 0.2:
        t += rng.choice(['', '', ' ']) + f'x{rng.choice([2, 2, 3])}'
    return t


NAMES = ['TVCL', 'TVV', 'KA', 'POP_Q', 'THX', 'CLWT', 'c', 'TVCL', 'MAT', 'D1']


def gen_theta_record(rng, exotic):
    k = rng.choice([1, 1, 1, 2, 2, 3, 4])
    s = '$THETA'
    commented = False
    for i in range(k):
        sep = rng.choice(['\n ', '\n', '\n  ']) if commented else rng.choice([' ', '  ', '\n ', '\n', ' \t'])
        s += sep + gen_theta(rng, exotic)
        commented = False
        r = rng.random()
        if r < 0.3:
            s += rng.choice([' ; ', ';', '  ;  ', ' ;']) + rng.choice(NAMES)
            commented = True
        elif r < 0.36:
            s += rng.choice([' ; 1 bad', ' ;', ' ; (0,1)', ' ; 2nd ; NM'])
            commented = True
        elif exotic and r < 0.4:
            s += rng.choice([' NOABORT', ' ABORT'])
    return s + rng.choice(['\n', '\n', ' \n', '\n\n'])


def gen_theta_layout(rng):
    exotic = rng.random() < 0.3
    n = rng.choice([1, 1, 2, 2, 3])
    return ''.join(gen_theta_record(rng, exotic) for _ in range(n))


def ftxt(x):
    if x == math.inf:
        return 'inf'
    if x == -math.inf:
        return '-inf'
    return repr(float(x))


def gen_theta_edit(rng, model, step):
    """A concrete, valid edit on the current real model (thetas only)."""
    ths = thetas_of(model.parameters, model.random_variables)
    vals = [float(Fraction(v)) for v in VALS]
    ops = ['init', 'init', 'lower', 'upper', 'fix', 'unfix', 'fixto', 'unconstrain', 'multi', 'multi', 'add', 'remove',
           'replace', 'compound', 'compound', 'compound']
    for _ in range(20):
        op = rng.choice(ops)
        if not ths and op != 'add':
            continue
        if op == 'add':
            lo, ini, up = sorted(rng.sample(vals, 3))
            fix = rng.random() < 0.3
            if ini == 0 and not fix:
                continue
            lo = lo if rng.random() < 0.6 else -math.inf
            up = up if rng.random() < 0.5 else math.inf
            name = rng.choice(['POP_NEW', 'TVQ', 'THETA_9', 'NEWP', 'TVCL']) + str(step)
            if name in model.parameters.names:
                continue
            return {'op': 'add', 'name': name, 'init': ftxt(ini), 'lower': ftxt(lo), 'upper': ftxt(up), 'fix': fix}
        if op == 'compound':
            if len(ths) < 3:
                continue

            def newvals():
                lo, ini, up = sorted(rng.sample(vals, 3))
                fix = rng.random() < 0.3
                if ini == 0:
                    fix = True
                lo = lo if rng.random() < 0.5 else -math.inf
                up = up if rng.random() < 0.4 else math.inf
                return {'init': ftxt(ini), 'lower': ftxt(lo), 'upper': ftxt(up), 'fix': fix}
            nrem = rng.choice([1, 1, 2]) if len(ths) > 3 else 1
            victims = rng.sample(ths, nrem)
            rest = [p for p in ths if p not in victims]
            # a run of consecutive survivors gets new values (often in front of a removed theta of the same record)
            i = rng.randrange(len(rest))
            run = rest[i:i + rng.choice([1, 2, 2, 3])]
            if rng.random() < 0.5:
                j = max(0, ths.index(victims[0]) - rng.choice([1, 2, 3]))
                run = [p for p in ths[j:ths.index(victims[0])] if p not in victims] or run
            changes = [dict(name=q.name, **newvals()) for q in run]
            adds = []
            for k in range(rng.choice([0, 0, 1, 2])):
                nm = rng.choice(['POP_C', 'TVC', 'THETA_7']) + str(step) + str(k)
                if nm not in model.parameters.names:
                    adds.append(dict(name=nm, **newvals()))
            return {'op': 'compound', 'changes': changes, 'remove': sorted(p.name for p in victims), 'add': adds}
        if op == 'replace':
            if len(ths) < 2:
                continue
            lo, ini, up = sorted(rng.sample(vals, 3))
            if ini == 0:
                continue
            lo = lo if rng.random() < 0.5 else -math.inf
            up = up if rng.random() < 0.5 else math.inf
            name = rng.choice(['POP_R', 'TVR']) + str(step)
            if name in model.parameters.names:
                continue
            victims = [rng.choice(ths[-2:]).name] if rng.random() < 0.7 else [rng.choice(ths).name]
            return {'op': 'replace', 'names': victims, 'name': name, 'init': ftxt(ini), 'lower': ftxt(lo),
                    'upper': ftxt(up), 'fix': rng.random() < 0.3}
        if op == 'remove':
            if len(ths) < 2:
                continue
            k = rng.choice([1, 1, 2]) if len(ths) > 2 else 1
            return {'op': 'remove', 'names': sorted(p.name for p in rng.sample(ths, k))}
        p = rng.choice(ths)
        if op == 'init':
            c = [v for v in vals if p.lower <= v <= p.upper and v != p.init and (v != 0 or p.fix)]
            if c:
                return {'op': 'init', 'name': p.name, 'v': ftxt(rng.choice(c))}
        elif op == 'lower':
            c = [v for v in vals if v < p.init and v != p.lower] + [-math.inf]
            return {'op': 'lower', 'name': p.name, 'v': ftxt(rng.choice(c))}
        elif op == 'upper':
            c = [v for v in vals if v > p.init and v != p.upper] + [math.inf]
            return {'op': 'upper', 'name': p.name, 'v': ftxt(rng.choice(c))}
        elif op == 'fix':
            if not p.fix:
                return {'op': 'fix', 'name': p.name}
        elif op == 'unfix':
            if p.fix and p.init != 0:
                return {'op': 'unfix', 'name': p.name}
        elif op == 'fixto':
            c = [v for v in vals if p.lower <= v <= p.upper]
            if c:
                return {'op': 'fixto', 'name': p.name, 'v': ftxt(rng.choice(c))}
        elif op == 'unconstrain':
            if p.init != 0:
                return {'op': 'unconstrain', 'name': p.name}
        elif op == 'multi':
            # the same new value for a run of consecutive thetas (so that (..)xn groups can be edited as a whole)
            i = ths.index(p)
            k = rng.choice([1, 2, 2, 3])
            grp = ths[i:i + k]
            lo, ini, up = sorted(rng.sample(vals, 3))
            fix = rng.random() < 0.3
            if ini == 0 and not fix:
                continue
            lo = lo if rng.random() < 0.6 else -math.inf
            up = up if rng.random() < 0.5 else math.inf
            return {'op': 'multi', 'changes': [{'name': q.name, 'init': ftxt(ini), 'lower': ftxt(lo),
                                                'upper': ftxt(up), 'fix': fix} for q in grp]}
    return None


# ================================================================== $OMEGA / $SIGMA
def rv_model_code(omegas, sigmas, ne, ns):
    lines = [f"P{i} = THETA(1)*EXP(ETA({i}))" for i in range(1, ne + 1)]
    y = ' + '.join([f'P{i}' for i in range(1, ne + 1)] + [f'EPS({i})' for i in range(1, ns + 1)])
    return HEAD + '\n'.join(lines) + f"\nY = {y}\n$THETA 1\n" + omegas + sigmas + TAIL


OV = ['0.1', '0.2', '0.3', '0.04', '0.09', '1', '2', '0.5', '0.25', '1.5', '0.01', '4', '9', '0.16']
OFIX = ['FIX', 'FIX', 'FIXED']
OSD = ['SD', 'STANDARD']
OVAR = ['VAR', 'VARIANCE']


def gen_diag_record(rng, rec):
    k = rng.choice([1, 1, 2, 3])
    s = f'${rec}'
    diagopt = rng.random() < 0.15
    items, n = [], 0
    for i in range(k):
        v = spell(rng, rng.choice(OV))
        fx = rng.choice(OFIX) if rng.random() < 0.25 else None
        sc = rng.choice(OSD + OVAR) if rng.random() < 0.25 else None
        opts = [o for o in (fx, sc) if o]
        rng.shuffle(opts)
        if rng.random() < 0.4:
            pre = [o for o in opts if rng.random() < 0.3]
            post = [o for o in opts if o not in pre]
            item = '(' + ' '.join(pre + [v] + post) + ')'
            m = 1
            if rng.random() < 0.4 and not diagopt:
                m = rng.choice([2, 2, 3])
                item += f'x{m}'
            n += m
        else:
            item = ' '.join([v] + opts)
            n += 1
        it = (rng.choice(['\n ', '\n  ']) if items and ';' in items[-1] else rng.choice([' ', '  ', '\n '])) + item
        if rng.random() < 0.2:
            it += rng.choice([' ; ', ';']) + rng.choice(['IIV_CL', 'IIV_V', 'RUV', 'IOV1', 'x 1'])
        items.append(it)
    if diagopt:
        s += f' DIAGONAL({n})'
    return s + ''.join(items) + '\n', n


def gen_block_record(rng, rec):
    k = rng.choice([1, 2, 2, 3])
    opts = []
    if rng.random() < 0.25:
        opts.append(rng.choice(OFIX))
    scale = rng.choice(['', '', '', '', 'sd', 'corr', 'sdcorr', 'chol'])
    if scale in ('sd', 'sdcorr'):
        opts.append(rng.choice(OSD))
    if scale in ('corr', 'sdcorr'):
        opts.append(rng.choice(['CORR', 'CORRELATION']))
    if scale == 'chol':
        opts.append('CHOLESKY')
    if scale == '' and rng.random() < 0.2:
        opts.append(rng.choice(OVAR + ['COV']))
    rng.shuffle(opts)
    pre = [o for o in opts if rng.random() < 0.7]
    post = [o for o in opts if o not in pre]
    s = f'${rec} BLOCK({k})' + ''.join(' ' + o for o in pre)
    rows = []
    for i in range(k):
        row = []
        for j in range(i + 1):
            if i == j:
                row.append(spell(rng, rng.choice(['0.1', '0.2', '0.3', '0.5', '1', '0.25', '0.04'])))
            elif scale in ('corr', 'sdcorr'):
                row.append(rng.choice(['0.1', '0.2', '0.25', '-0.125']))
            else:
                row.append(spell(rng, rng.choice(['0.01', '0.02', '0.001', '0.005'])))
        rows.append(row)
    flat = [x for r in rows for x in r]        # a11, a21, a22, a31, a32, a33
    if k == 3 and rng.random() < 0.4 and scale == '':
        # the two covariances of the last row written as (c)x2
        s += '\n ' + flat[0] + ' ' + flat[1] + ' ' + flat[2] + f'\n ({flat[3]})x2 ' + flat[5]
    else:
        s += '\n' + '\n'.join(' ' + ' '.join(r) for r in rows)
    if post:
        s += ' ' + ' '.join(post)
    if rng.random() < 0.2:
        s += ' ; BLK'
    return s + '\n', k


def gen_rv_layout(rng, rec):
    out, n = '', 0
    prev_block = None
    for _ in range(rng.choice([1, 1, 2, 3])):
        r = rng.random()
        if r < 0.6:
            s, k = gen_diag_record(rng, rec)
            prev_block = None
        elif r < 0.92 or prev_block is None:
            s, k = gen_block_record(rng, rec)
            prev_block = k
        else:
            s, k = f'${rec} BLOCK({prev_block}) SAME\n', prev_block
        out += s
        n += k
    return out, n


def layout_read_exactly(model):
    """False when read_model_from_string already changed the values (non positive definite block repaired by
    nearest_valid_parameters - numerical linear algebra, outside this property)."""
    cs = model.internals.control_stream
    om, si = rv_params(model)
    for typ, ps in (('OMEGA', om), ('SIGMA', si)):
        vals = []
        for r in cs.get_records(typ):
            for _, inits, _, same in r.parse():
                if not same:
                    vals += [float(x) for x in inits]
        if vals != [p.init for p in ps]:
            return False
    return True


def rv_params(model):
    """The OMEGA and SIGMA parameters in model.parameters order."""
    eta_syms = model.random_variables.etas.free_symbols
    eps_syms = model.random_variables.epsilons.free_symbols
    om = [p for p in model.parameters if p.symbol in eta_syms]
    si = [p for p in model.parameters if p.symbol in eps_syms]
    return om, si


def record_kind(rec):
    if rec.root.find('same'):
        return 'same'
    if rec.root.find('block') or rec.root.find('bare_block'):
        return 'block'
    return 'diag'


def record_nparams(rec):
    return sum(len(inits) for (_, inits, _, same) in rec.parse() if not same)


def init_token_texts(rec):
    """The text of the init token of every parameter the record defines (xn expanded)."""
    from pharmpy.internals.parse.generic import eval_token
    kind = record_kind(rec)
    if kind == 'same':
        return []
    out = []
    for node in rec.root.subtrees('diag_item' if kind == 'diag' else 'omega'):
        n = int(eval_token(node.subtree('n').leaf('INT'))) if node.find('n') else 1
        out += [str(node.subtree('init').leaf('NUMERIC').value)] * n
    return out


def block_array(rec, params):
    """What OmegaRecord.update computes before touching the tree (numpy; engine)."""
    import math as m
    import numpy as np
    from pharmpy.internals.math import flattened_to_symmetric
    from pharmpy.internals.parse.generic import eval_token
    size = int(eval_token(rec.root.subtree('block').subtree('size').leaf('INT')))
    fix, sd, corr, cholesky = rec._block_flags()
    A = flattened_to_symmetric([p.init for p in params])
    if corr:
        for i in range(size):
            for j in range(size):
                if i != j:
                    A[i, j] = A[i, j] / (m.sqrt(A[i, i]) * m.sqrt(A[j, j]))
    if sd:
        np.fill_diagonal(A, A.diagonal() ** 0.5)
    if cholesky:
        A = np.linalg.cholesky(A)
    inds = np.tril_indices_from(A)
    return [float(x) for x in A[inds]], (sd or corr or cholesky)


def oparse_term(rec, ft):
    ft.trees([rec.root])
    try:
        blocks = rec.parse()
        items = []
        for names, inits, fix, same in blocks:
            ft.value(inits[0])
            items.append(ct.pair(ct.opt(None if names[0] is None else text_term(names[0])),
                                 ct.pair(ct.q(Fraction(float(inits[0]))), ct.boolean(fix))))
        res = rres_term(True, ct.lst(items))
    except Exception as e:
        res = rres_term(False, str(err_kind(e)))
    return f"(mkOP {node_term(rec.root)} {res})"


def rv_structure(model):
    out = []
    for d in model.random_variables:
        out.append(','.join(d.names) + '|' + d.level + '|' + str(d.variance).replace('\n', ''))
    return out


def named_vals(model, ft):
    om, si = rv_params(model)
    items = []
    for p in om + si:
        ft.value(p.init)
        items.append(ct.pair(text_term(p.name), ct.pair(ct.q(Fraction(float(p.init))), ct.boolean(p.fix))))
    for s in rv_structure(model):
        items.append(ct.pair(text_term(s), ct.pair(ct.q(0), 'false')))
    return ct.lst(items)


def apply_rv_edit(model, edit):
    from pharmpy import modeling as md
    from pharmpy.model import Parameter, Parameters
    op = edit['op']
    if op == 'oinit':
        return md.set_initial_estimates(model, {edit['name']: fl(edit['v'])})
    if op == 'ofix':
        return md.fix_parameters(model, edit['names'])
    if op == 'ounfix':
        return md.unfix_parameters(model, edit['names'])
    if op == 'omulti':
        ch = {c['name']: c for c in edit['changes']}
        new = [Parameter.create(p.name, fl(ch[p.name]['init']), lower=p.lower, upper=p.upper, fix=ch[p.name]['fix'])
               if p.name in ch else p for p in model.parameters]
        return model.replace(parameters=Parameters.create(new)).update_source()
    raise ValueError(op)


def observe_rv_step(cur, edit, fresh_parse_recs):
    """One non-structural edit of OMEGA/SIGMA parameters.  Returns (term of type ostep, info, edited)."""
    from pharmpy.model.external.nonmem.nmtran_parser import NMTranParser
    from pharmpy.modeling import read_model_from_string
    ft = FT(derive=True)
    info = {'edit': edit['op']}
    cs = cur.internals.control_stream
    before = [('OMEGA', r) for r in cs.get_records('OMEGA')] + [('SIGMA', r) for r in cs.get_records('SIGMA')]
    try:
        edited = apply_rv_edit(cur, edit)
        err = None
    except Exception as e:
        edited, err = None, e
        info['edit_error'] = f'{type(e).__name__}: {str(e)[:120]}'
    parses = [oparse_term(r, ft) for r in fresh_parse_recs if record_kind(r) == 'diag']
    recs_t, reparse_t, spell_t = [], [], []
    reread_t = 'None'
    info['scaled_block'] = False
    if edited is not None:
        om, si = rv_params(edited)
        om_old, si_old = rv_params(cur)
        cs2 = edited.internals.control_stream
        after = list(cs2.get_records('OMEGA')) + list(cs2.get_records('SIGMA'))
        assert len(after) == len(before), 'structural change in a non-structural edit'
        code = edited.code
        info['code'] = code
        try:
            cs3 = NMTranParser().parse(code)
            re_recs = list(cs3.get_records('OMEGA')) + list(cs3.get_records('SIGMA'))
        except Exception:
            re_recs = None
        pos = {'OMEGA': 0, 'SIGMA': 0}
        for idx, ((typ, rb), ra) in enumerate(zip(before, after)):
            new_all, old_all = (om, om_old) if typ == 'OMEGA' else (si, si_old)
            k = record_nparams(rb)
            ps = new_all[pos[typ]:pos[typ] + k]
            ps_old = old_all[pos[typ]:pos[typ] + k]
            pos[typ] += k
            kind = record_kind(rb)
            arr = []
            if kind == 'block':
                arr, scaled = block_array(rb, ps)
                info['scaled_block'] = info['scaled_block'] or scaled
            for p in ps:
                ft.value(p.init)
            for x in arr:
                ft.value(x)
            ft.trees([rb.root, ra.root])
            recs_t.append(f"(mkOR {node_term(rb.root)} "
                          + ct.lst([ct.pair(ct.q(Fraction(float(p.init))), ct.boolean(p.fix)) for p in ps]) + ' '
                          + ct.lst([ct.q(Fraction(x)) for x in arr]) + f" (ROk {node_term(ra.root)}))")
            # spelling of unchanged inits
            tb, ta = init_token_texts(rb), init_token_texts(ra)
            if len(tb) == len(ps_old) and len(ta) == len(ps) and len(ps) == len(ps_old):
                for po, pn, xb, xa in zip(ps_old, ps, tb, ta):
                    if po.name == pn.name and po.init == pn.init:
                        spell_t.append(ct.pair(ct.opt(text_term(xb)), ct.opt(text_term(xa))))
            # the regenerated tree against the parse of its re-read text
            if re_recs is not None and len(re_recs) == len(after) and kind == 'diag':
                rr = re_recs[idx]
                ft.trees([rr.root])
                parses.append(oparse_term(rr, ft))
                try:
                    blocks = rr.parse()
                    for _, inits, _, _ in blocks:
                        ft.value(inits[0])
                    res = rres_term(True, ct.lst([ct.pair(ct.q(Fraction(float(inits[0]))), ct.boolean(fix))
                                                  for _, inits, fix, _ in blocks]))
                except Exception as e:
                    res = rres_term(False, str(err_kind(e)))
                reparse_t.append(ct.pair(node_term(ra.root), res))
        try:
            rr_model = read_model_from_string(code)
            reread_t = '(Some (ROk ' + ct.pair(named_vals(rr_model, ft), named_vals(edited, ft)) + '))'
            info['reread_ok'] = True
            a = [(p.name, p.init, p.fix) for p in sum(rv_params(rr_model), [])]
            b = [(p.name, p.init, p.fix) for p in sum(rv_params(edited), [])]
            info['consistent'] = (a == b and rv_structure(rr_model) == rv_structure(edited))
            info['max_rel_dev'] = max([abs(x[1] - y[1]) / max(abs(y[1]), 1e-300) for x, y in zip(a, b)] + [0.0]) \
                if len(a) == len(b) else None
        except Exception as e:
            reread_t = '(Some (RErr ' + str(err_kind(e)) + '))'
            info['reread_ok'] = False
            info['reread_error'] = f'{type(e).__name__}: {str(e)[:120]}'
    else:
        for typ, rb in before:
            ft.trees([rb.root])
            recs_t.append(f"(mkOR {node_term(rb.root)} [] [] (RErr {err_kind(err)}))")
    term = ("(mkOS " + ft.term() + "\n  " + ct.lst(recs_t) + "\n  " + ct.lst(parses) + "\n  " + ct.lst(reparse_t)
            + "\n  " + reread_t + "\n  " + ct.lst(spell_t) + ")")
    return term, info, edited


def gen_rv_edit(rng, model):
    om, si = rv_params(model)
    allp = om + si
    if not allp:
        return None
    cs = model.internals.control_stream
    recs = [('OMEGA', r) for r in cs.get_records('OMEGA')] + [('SIGMA', r) for r in cs.get_records('SIGMA')]
    # parameters grouped per record
    groups, pos = [], {'OMEGA': 0, 'SIGMA': 0}
    for typ, r in recs:
        k = record_nparams(r)
        src = om if typ == 'OMEGA' else si
        groups.append((record_kind(r), src[pos[typ]:pos[typ] + k]))
        pos[typ] += k
    groups = [g for g in groups if g[1]]
    for _ in range(20):
        kind, ps = rng.choice(groups)
        op = rng.choice(['oinit', 'oinit', 'ofix', 'ounfix', 'omulti', 'omulti'])
        if kind == 'diag':
            if op == 'oinit':
                p = rng.choice(ps)
                v = float(rng.choice(OV))
                if v != p.init:
                    return {'op': 'oinit', 'name': p.name, 'v': ftxt(v)}
            elif op == 'ofix':
                c = [p for p in ps if not p.fix]
                if c:
                    return {'op': 'ofix', 'names': [rng.choice(c).name]}
            elif op == 'ounfix':
                c = [p for p in ps if p.fix and p.init != 0]
                if c:
                    return {'op': 'ounfix', 'names': [rng.choice(c).name]}
            else:
                i = rng.randrange(len(ps))
                grp = ps[i:i + rng.choice([1, 2, 3])]
                v = float(rng.choice(OV))
                fx = rng.random() < 0.4
                return {'op': 'omulti', 'changes': [{'name': q.name, 'init': ftxt(v), 'fix': fx} for q in grp]}
        else:
            # block: variances may only grow, covariances stay small, FIX only as a whole
            size = int(round(((8 * len(ps) + 1) ** 0.5 - 1) / 2))
            diag_idx = [i * (i + 1) // 2 + i for i in range(size)]
            if op in ('oinit', 'omulti'):
                i = rng.choice(diag_idx)
                v = ps[i].init * rng.choice([1.5, 2, 4])
                return {'op': 'oinit', 'name': ps[i].name, 'v': ftxt(v)}
            if op == 'ofix' and not ps[0].fix:
                return {'op': 'ofix', 'names': [p.name for p in ps]}
            if op == 'ounfix' and ps[0].fix:
                return {'op': 'ounfix', 'names': [p.name for p in ps]}
    return None


# ================================================================== structural random-effect histories (oracle only)
HIST_DATA = None


def hist_data_path():
    global HIST_DATA
    if HIST_DATA is None:
        from harness.lib.core import BUILD
        d = BUILD / 'gen' / 'C04'
        d.mkdir(parents=True, exist_ok=True)
        p = d / 'hist.csv'
        text = 'ID,TIME,DV,OCC\n' + ''.join(f'{i},{t},{i + t}.5,{1 + (t > 1)}\n' for i in (1, 2, 3) for t in (0, 1, 2, 3))
        if not p.exists() or p.read_text() != text:
            p.write_text(text)
        HIST_DATA = str(p)
    return HIST_DATA


ABBR_NAMES = ['ETA_CL', 'ETA_VC', 'ETA_KA', 'ETA_Q', 'ETA_MAT']


def hist_model_code(omegas, sigmas, ne, ns, abbr):
    lines = [f"P{i} = THETA(1)*EXP(" + (ABBR_NAMES[i - 1] if abbr else f"ETA({i})") + ")" for i in range(1, ne + 1)]
    lines += ["Q1 = THETA(1)", "Q2 = THETA(1)"]
    y = ' + '.join([f'P{i}' for i in range(1, ne + 1)] + ['Q1', 'Q2'] + [f'EPS({i})' for i in range(1, ns + 1)])
    ab = ''.join(f'$ABBR REPLACE {ABBR_NAMES[i - 1]}=ETA({i})\n' for i in range(1, ne + 1)) if abbr else ''
    return (f"$PROBLEM\n$INPUT ID TIME DV OCC\n$DATA {hist_data_path()} IGNORE=@\n{ab}$PRED\n" + '\n'.join(lines)
            + f"\nY = {y}\n$THETA 1\n" + omegas + sigmas + TAIL)


LEVELS = {'IIV': 0, 'IOV': 1, 'RUV': 2}


def hdists_term(model):
    items = []
    for sigma, dists in ((False, list(model.random_variables.etas)), (True, list(model.random_variables.epsilons))):
        base = 1
        seen = {}
        for d in dists:
            k = len(d)
            ps = []
            v = d.variance
            for r in range(k):
                for c in range(r + 1):
                    p = model.parameters[str(v) if k == 1 else str(v[r, c])]
                    pos = seen.setdefault(p.name, (base + r, base + c))
                    ps.append(ct.tup(text_term(p.name), ct.pair(ct.q(Fraction(float(p.init))), ct.boolean(p.fix)),
                                     ct.pair(ct.nat(pos[0]), ct.nat(pos[1]))))
            items.append(f"(mkHD {ct.lst([text_term(n) for n in d.names])} {LEVELS[d.level.upper()]}%nat "
                         f"{ct.boolean(sigma)} {ct.lst(ps)})")
            base += k
    return ct.lst(items)



# ---------------------------------------------------------------- the record plan of update_random_variable_records
class PlanLog:
    """Observes (in this process, by wrapping module attributes - /repo is not touched) every invocation of
    update.update_random_variable_records: its inputs (the diff of distributions, len(record) of the records,
    the two sets of parameter names, which distributions python finds "in" old_random_variables) and the
    sequence of calls the loop makes: OmegaRecord.update / .remove, create_omega_single / create_omega_block."""

    def __enter__(self):
        import pharmpy.model.external.nonmem.update as U
        from pharmpy.model.external.nonmem.records.omega_record import OmegaRecord
        self.U, self.OR = U, OmegaRecord
        self.invocations = []
        self.cur = None
        self.saved = (U.update_random_variable_records, U.create_omega_single, U.create_omega_block,
                      OmegaRecord.update, OmegaRecord.remove)
        o_urvr, o_single, o_block, o_upd, o_rem = self.saved
        me = self

        def key_of(inv, d):
            for k, x in enumerate(inv['table']):
                if x == d:
                    return k
            inv['table'].append(d)
            return len(inv['table']) - 1

        def urvr(model, rvs_diff, record_type):
            rvs_diff = list(rvs_diff)
            records = list(model.internals.control_stream.get_records(record_type))
            old_rvs = model.internals.old_random_variables
            if record_type == 'OMEGA':
                old_names = list(old_rvs.etas.parameter_names)
                new_names = list(model.random_variables.etas.parameter_names)
            else:
                old_names = list(old_rvs.epsilons.parameter_names)
                new_names = list(model.random_variables.epsilons.parameter_names)
            inv = {'table': [], 'records': records, 'lens': [len(r) for r in records], 'old_names': old_names,
                   'new_names': new_names, 'log': [], 'raised': False, 'depth': 0, 'created': [], 'removed': []}
            inv['diff'] = [(o, key_of(inv, d)) for o, d in rvs_diff]
            inv['in_old'] = [k for k, d in enumerate(inv['table']) if (d in old_rvs)]
            prev, me.cur = me.cur, inv
            try:
                return o_urvr(model, iter(rvs_diff), record_type)
            except Exception:
                inv['raised'] = True
                raise
            finally:
                me.cur = prev
                me.invocations.append(inv)

        def top(inv):
            return inv is not None and inv['depth'] == 0

        def call(inv, entry, f, *a):
            if not top(inv):
                return f(*a)
            inv['log'].append(entry)
            inv['depth'] += 1
            try:
                return f(*a)
            finally:
                inv['depth'] -= 1

        def created(is_top, inv, is_block, model, rv, eta_number, f):
            """Run a create_omega_* call, recording its inputs as the code reads them and its result."""
            obs = None
            if is_top:
                try:
                    k = len(rv)
                    v = rv.variance
                    names = [str(v)] if k == 1 else [str(v[r, c]) for r in range(k) for c in range(r + 1)]
                    ps = [model.parameters[n] for n in names]
                    first = True
                    if rv.level == 'IOV':
                        first = rv == next(filter(lambda iov: iov.parameter_names == rv.parameter_names,
                                                  model.random_variables.iov))
                    obs = {'block': is_block, 'level': LEVELS[rv.level.upper()], 'first': bool(first), 'size': k,
                           'elems': [(float(p.init), p.name, bool(p.fix)) for p in ps], 'eta': eta_number,
                           'root': None}
                    inv['created'].append(obs)
                except Exception:
                    obs = None
            rec = f()
            if obs is not None:
                obs['root'] = rec.root
            return rec

        def single(model, rv, eta_number):
            inv = me.cur
            t = top(inv)
            return call(inv, ('single', key_of(inv, rv) if t else 0, eta_number),
                        lambda: created(t, inv, False, model, rv, eta_number, lambda: o_single(model, rv, eta_number)))

        def block(model, distribution, eta_number):
            inv = me.cur
            t = top(inv)
            return call(inv, ('block', key_of(inv, distribution) if t else 0, eta_number),
                        lambda: created(t, inv, True, model, distribution, eta_number,
                                        lambda: o_block(model, distribution, eta_number)))

        def rec_index(inv, rec):
            for k, r in enumerate(inv['records']):
                if r is rec:
                    return k
            return -1

        def upd(self_, params):
            inv = me.cur
            entry = ('update', rec_index(inv, self_), [p.name for p in params]) if top(inv) else None
            return call(inv, entry, o_upd, self_, params)

        def rem(self_, inds):
            inv = me.cur
            t = top(inv)
            entry = ('remove', rec_index(inv, self_), [i for i, _ in inds]) if t else None
            res = call(inv, entry, o_rem, self_, inds)
            if t and not (self_.root.find('block') or self_.root.find('bare_block')):
                inv['removed'].append((self_.root, [i for i, _ in inds], res.root))   # diagonal branch of remove
            return res

        U.update_random_variable_records = urvr
        U.create_omega_single = single
        U.create_omega_block = block
        OmegaRecord.update = upd
        OmegaRecord.remove = rem
        return self

    def __exit__(self, *exc):
        U, OmegaRecord = self.U, self.OR
        (U.update_random_variable_records, U.create_omega_single, U.create_omega_block,
         OmegaRecord.update, OmegaRecord.remove) = self.saved
        return False


def pdist_term(key, d):
    k = len(d)
    v = d.variance
    names = [str(v)] if k == 1 else [str(v[r, c]) for r in range(k) for c in range(r + 1)]
    return f"(mkPD {ct.nat(key)} {ct.nat(k)} {ct.lst([text_term(n) for n in names])})"


def plan_terms(invocations):
    """One pstep term per invocation of update_random_variable_records."""
    out = []
    for inv in invocations:
        tab = inv['table']
        opc = {0: 0, 1: 1, -1: 2}
        dterm = ct.lst([ct.pair(f"{opc[o]}%nat", pdist_term(k, tab[k])) for o, k in inv['diff']])
        acts = []
        prev = None
        for e in inv['log']:
            # remove([]) returns the record itself: an update on the record just "removed" from is the
            # update of the loop's flush (newrec.update(diag_change)), not records[recindex].update
            after_remove = prev is not None and prev[0] == 'remove' and e[0] == 'update' and e[1] in (-1, prev[1])
            prev = e
            if e[0] == 'update':
                if e[1] >= 0 and not after_remove:
                    acts.append(f"(PUpdate {ct.nat(e[1])} (mkPD 0%nat 0%nat {ct.lst([text_term(n) for n in e[2]])}))")
                else:
                    acts.append(f"(PUpdateNew {ct.lst([text_term(n) for n in e[2]])})")
            elif e[0] == 'remove':
                acts.append(f"(PRemove {ct.nat(max(e[1], 0))} {ct.lst([ct.nat(i) for i in e[2]])})")
            elif e[0] == 'single':
                acts.append(f"(PSingle {pdist_term(e[1], tab[e[1]])} {ct.nat(e[2])})")
            else:
                acts.append(f"(PBlock {pdist_term(e[1], tab[e[1]])} {ct.nat(e[2])})")
        cre = []
        for o in inv['created']:
            tab = {}
            for x, _, _ in o['elems']:
                tab[Fraction(x)] = str(x)
            tabt = ct.lst([ct.pair(ct.q(k), text_term(t)) for k, t in tab.items()])
            elems = ct.lst([ct.tup(ct.q(Fraction(x)), text_term(n), ct.boolean(fx)) for x, n, fx in o['elems']])
            root = f"(ROk {node_term(o['root'])})" if o['root'] is not None else "(RErr 3%nat)"
            cre.append(f"(mkCO {ct.boolean(o['block'])} {tabt} {o['level']}%nat {ct.boolean(o['first'])} "
                       f"{ct.nat(o['size'])} {elems} {ct.nat(o['eta'])} {root})")
        out.append(f"(mkPS {ct.lst([ct.nat(k) for k in inv['in_old']])} {ct.lst([text_term(n) for n in inv['old_names']])} "
                   f"{ct.lst([text_term(n) for n in inv['new_names']])} {ct.lst([ct.nat(n) for n in inv['lens']])} "
                   f"{dterm} {ct.boolean(inv['raised'])} {ct.lst(acts)} {ct.lst(cre)} "
                   + ct.lst([ct.tup(node_term(b), ct.lst([ct.nat(i) for i in ii]), node_term(a))
                             for b, ii, a in inv['removed']]) + ")")
    return ct.lst(out)


def hist_snapshot(model):
    out = []
    for dists in (list(model.random_variables.etas), list(model.random_variables.epsilons)):
        for d in dists:
            v = d.variance
            k = len(d)
            ps = [model.parameters[str(v) if k == 1 else str(v[r, c])] for r in range(k) for c in range(r + 1)]
            out.append((tuple(d.names), d.level, tuple((p.name, p.init, p.fix) for p in ps)))
    return out


def apply_hist_op(model, op):
    from pharmpy import modeling as md
    k = op['op']
    if k == 'joint':
        return md.create_joint_distribution(model, op['etas'])
    if k == 'split':
        return md.split_joint_distribution(model, op['etas'])
    if k == 'remove_iiv':
        return md.remove_iiv(model, op['etas'])
    if k == 'add_iiv':
        return md.add_iiv(model, [op['q']], 'exp')
    if k == 'add_iov':
        return md.add_iov(model, 'OCC', list_of_parameters=op['ps'])
    if k == 'add_iov_fixed':
        # inter-occasion variability whose variance parameter is fixed from the start, written in ONE
        # update_source (the random variables / parameters / statements of add_iov, with OMEGA_IOV_* fixed)
        from pharmpy.model import Parameters
        m2 = md.add_iov(model, 'OCC', list_of_parameters=op['ps'])
        ps = Parameters.create([p.replace(fix=True) if p.name.startswith('OMEGA_IOV') else p for p in m2.parameters])
        return model.replace(random_variables=m2.random_variables, parameters=ps, statements=m2.statements,
                             datainfo=m2.datainfo, dataset=m2.dataset).update_source()
    if k == 'remove_iov':
        return md.remove_iov(model)
    if k == 'unfix':
        return md.unfix_parameters(model, op['names'])
    if k == 'fix':
        return md.fix_parameters(model, op['names'])
    if k == 'init':
        return md.set_initial_estimates(model, {op['name']: fl(op['v'])})
    raise ValueError(k)


def observe_hist_step(cur, op):
    from pharmpy.modeling import read_model_from_string
    info = {'edit': op['op']}
    cs = cur.internals.control_stream
    om_recs = list(cs.get_records('OMEGA'))
    si_recs = list(cs.get_records('SIGMA'))
    before = [r.root for r in om_recs + si_recs]
    old_etas = list(cur.random_variables.etas)
    old_eps = list(cur.random_variables.epsilons)
    plog = PlanLog()
    with plog:
        try:
            edited = apply_hist_op(cur, op)
            code_inside = edited.code
            status = 0
        except ValueError as e:
            edited, status = None, 1
            info['edit_error'] = f'ValueError: {str(e)[:100]}'
        except Exception as e:
            edited, status = None, 2
            info['edit_error'] = f'{type(e).__name__}: {str(e)[:100]}'
    info['plans'] = len(plog.invocations)
    # which random effects lose their distribution (for a crash: those the operation names)
    gone = []
    if edited is not None:
        new_rvs = edited.random_variables
        idx = 0
        for d in old_etas:
            for n in d.names:
                if d not in new_rvs:
                    gone.append(idx)
                idx += 1
        idx = 1000
        for d in old_eps:
            for n in d.names:
                if d not in new_rvs:
                    gone.append(idx)
                idx += 1
    else:
        names = [n for d in old_etas for n in d.names]
        for n in op.get('etas', []):
            if n in names:
                gone.append(names.index(n))
    rr = 'None'
    mem = '[]'
    if edited is not None:
        mem = hdists_term(edited)
        code = code_inside
        info['code'] = code
        try:
            rm = read_model_from_string(code)
            rr = '(Some (ROk ' + hdists_term(rm) + '))'
            a, b = hist_snapshot(rm), hist_snapshot(edited)
            info['consistent'] = (a == b)
            info['chain_ok'] = [(x[0], x[1], len(x[2])) for x in a] == [(x[0], x[1], len(x[2])) for x in b]
            dev = 0.0
            if len(a) == len(b) and all(len(x[2]) == len(y[2]) for x, y in zip(a, b)):
                for x, y in zip(a, b):
                    for p, q in zip(x[2], y[2]):
                        dev = max(dev, abs(p[1] - q[1]) / max(abs(q[1]), 1e-300))
                info['max_rel_dev'] = dev
        except Exception as e:
            rr = '(Some (RErr ' + str(err_kind(e)) + '))'
            info['reread_error'] = f'{type(e).__name__}: {str(e)[:100]}'
            info['consistent'] = False
    term = ("(CHist (mkHS " + ct.lst([node_term(r) for r in before]) + " " + ct.lst([ct.nat(g) for g in gone]) + " "
            + ct.nat(len(om_recs)) + f" {status}%nat " + mem + " " + rr + " " + plan_terms(plog.invocations) + "))")
    return term, info, edited


def gen_hist_op(rng, m):
    etas = m.random_variables.etas
    names = etas.names
    for _ in range(20):
        k = rng.choice(['joint', 'joint', 'joint', 'split', 'remove_iiv', 'add_iiv', 'add_iov', 'remove_iov', 'unfix',
                        'fix', 'init'])
        iiv = [n for d in etas for n in d.names if d.level == 'IIV']
        if k == 'joint':
            if len(iiv) < 2:
                continue
            es = rng.sample(iiv, rng.choice([2, 2, 3]) if len(iiv) >= 3 else 2)
            if rng.random() < 0.6:
                es = sorted(es, key=names.index)
            return {'op': 'joint', 'etas': es}
        if k == 'split':
            js = [d for d in etas if len(d) > 1 and d.level == 'IIV']
            if not js:
                continue
            d = rng.choice(js)
            return {'op': 'split', 'etas': rng.sample(list(d.names), rng.randrange(1, len(d) + 1))}
        if k == 'remove_iiv':
            if len(iiv) < 2:
                continue
            return {'op': 'remove_iiv', 'etas': [rng.choice(iiv)]}
        if k == 'add_iiv':
            q = rng.choice(['Q1', 'Q2'])
            if any(str(s.symbol) == q and 'ETA' in str(s.expression) for s in m.statements):
                continue
            return {'op': 'add_iiv', 'q': q}
        if k == 'add_iov':
            if any(d.level == 'IOV' for d in etas) or not iiv:
                continue
            eta_syms = set(etas.free_symbols) | {s for n in names for s in [__import__('pharmpy').basic.Expr.symbol(n)]}
            cand = [str(s.symbol) for s in m.statements
                    if str(s.symbol) in ('P1', 'P2', 'P3') and s.expression.free_symbols & eta_syms]
            if not cand:
                continue
            return {'op': 'add_iov', 'ps': [rng.choice(cand)]}
        if k == 'remove_iov':
            if not any(d.level == 'IOV' for d in etas) or not iiv:
                continue
            return {'op': 'remove_iov'}
        if k in ('unfix', 'fix'):
            d = rng.choice(list(etas))
            pn = list(d.parameter_names)
            if k == 'unfix' and any(m.parameters[n].init == 0 for n in pn):
                continue
            return {'op': k, 'names': pn}
        if k == 'init':
            d = rng.choice(list(etas))
            pn = str(d.variance) if len(d) == 1 else str(d.variance[0, 0])
            return {'op': 'init', 'name': pn, 'v': ftxt(m.parameters[pn].init * rng.choice([1.5, 2, 4]))}
    return None
