"""Sensitivity self-test of the C07 check (not part of ./check): load MUTATED copies of the anchored pharmpy
source files under other module names (never touching /repo), run the correspondence on them and report
which tag fires.   PYTHONPATH=/repo/src:/verif /venv/bin/python -m harness.props.c07_mut [n]"""
import collections
import importlib.util
import json
import sys
import warnings

warnings.filterwarnings('ignore')

from harness.lib.core import BUILD, REPO, VERIF, Ctx
from harness.props import c07

SRC = REPO / 'src' / 'pharmpy' / 'modeling'
OUT = BUILD / 'scratch' / 'C07' / 'mut'

# name -> (file, old text, new text, functions to take from the mutated module)
MUTATIONS = {
    'decl-first-raw (revert of 0e1c190)': ('expressions.py',
                                           "            if i not in duplicated_symbols[s.symbol]:\n                current[s.symbol] = s.expression.subs(current)\n",
                                           "            if i not in duplicated_symbols[s.symbol]:\n                current[s.symbol] = s.expression\n",
                                           ['make_declarative', 'cleanup_model']),
    'decl-middle-no-subs': ('expressions.py', "                    current[s.symbol] = s.expression.subs(current)\n",
                            "                    current[s.symbol] = s.expression\n", ['make_declarative', 'cleanup_model']),
    'decl-last-no-del': ('expressions.py', "                    del current[s.symbol]\n", "                    pass\n",
                         ['make_declarative', 'cleanup_model']),
    'decl-plain-no-subs': ('expressions.py',
                           "        else:\n            ass = Assignment.create(s.symbol, s.expression.subs(current))\n",
                           "        else:\n            ass = Assignment.create(s.symbol, s.expression)\n",
                           ['make_declarative', 'cleanup_model']),
    'decl-dup-off-by-one': ('expressions.py', "            duplicated_symbols[symb].append(i)\n",
                            "            duplicated_symbols[symb].append(i + 1)\n", ['make_declarative', 'cleanup_model']),
    'inline-dropped-subs': ('expressions.py', "            n = s.subs(current)\n", "            n = s\n", ['cleanup_model']),
    'inline-raw-alias (revert of 185d1d3)': ('expressions.py',
                                             "            current[s.symbol] = s.expression.subs(current)\n        else:\n            n = s.subs",
                                             "            current[s.symbol] = s.expression\n        else:\n            n = s.subs",
                                             ['cleanup_model']),
    'cleanup-skip-fixed-thetas': ('expressions.py', "    model = replace_fixed_thetas(model)\n    return model\n",
                                  "    return model\n", ['cleanup_model']),
    'cleanup-skip-nonrandom': ('expressions.py', "    model = replace_non_random_rvs(model)\n", "", ['cleanup_model']),
    'obsexpr-off-by-one': ('expressions.py', "    for j in range(i - 1, -1, -1):\n", "    for j in range(i - 1, 0, -1):\n",
                           ['get_observation_expression', 'get_individual_prediction_expression',
                            'get_population_prediction_expression']),
    'obsexpr-self-subs (partial revert of df3152c)': ('expressions.py', "    for j in range(i - 1, -1, -1):\n",
                                        "    for j in range(i, -1, -1):\n",
                                        ['get_observation_expression', 'get_individual_prediction_expression',
                                         'get_population_prediction_expression']),
    'ipred-eps-one': ('expressions.py', "{Expr.symbol(eps): 0 for eps in model.random_variables.epsilons.names}",
                      "{Expr.symbol(eps): 1 for eps in model.random_variables.epsilons.names}",
                      ['get_individual_prediction_expression', 'get_population_prediction_expression']),
    'pred-skip-one-eta': ('expressions.py', "{Expr.symbol(eta): 0 for eta in model.random_variables.etas.names}",
                          "{Expr.symbol(eta): 0 for eta in model.random_variables.etas.names[1:]}",
                          ['get_population_prediction_expression']),
    'rename-statements-dropped': ('common.py', "        statements=model.statements.subs(d),\n", "", ['rename_symbols']),
    'rename-rvs-dropped': ('common.py', "        random_variables=model.random_variables.subs(d),\n", "", ['rename_symbols']),
    'rename-params-dropped': ('common.py', "        if p.symbol in d:\n", "        if False:\n", ['rename_symbols']),
    'unused-row-test-dropped': ('common.py', "                if symb not in symbols and symbols.isdisjoint(params):\n",
                                "                if symb not in symbols:\n", ['remove_unused_parameters_and_rvs']),
    'unused-fixed-zero-dropped': ('common.py', " or (p.fix and p.init == 0):\n", ":\n",
                                  ['remove_unused_parameters_and_rvs']),
    'unused-rv-symbols-dropped': ('common.py', "symb in symbols or symb in new_rvs.free_symbols or", "symb in symbols or",
                                  ['remove_unused_parameters_and_rvs']),
    'unused-normal-always-kept': ('common.py', "            if not symbols.isdisjoint(dist.free_symbols):\n                new_dists.append(dist)\n",
                                  "            new_dists.append(dist)\n", ['remove_unused_parameters_and_rvs']),
    'fixed-thetas-all-params (revert of 142d5a3)': ('parameters.py', "        if p.fix and p.symbol not in rv_symbols:\n",
                                                    "        if p.fix:\n", ['replace_fixed_thetas']),
    'fixed-thetas-appended': ('parameters.py', "statements=new_assignments + model.statements", "statements=model.statements + new_assignments",
                              ['replace_fixed_thetas']),
    'fixed-thetas-wrong-value': ('parameters.py', "Assignment(p.symbol, Expr.float(p.init))", "Assignment(p.symbol, Expr.float(p.init + 1))",
                                 ['replace_fixed_thetas']),
    'nonrandom-ignores-init': ('random_variables.py', "if not (param.init == 0.0 and param.fix):", "if not (param.fix):",
                               ['replace_non_random_rvs']),
    'nonrandom-keeps-eta': ('random_variables.py', "            for name in dist.names:\n                d[Expr.symbol(name)] = Expr.integer(0)\n", "",
                            ['replace_non_random_rvs']),
}


def load_mutated(fname, old, new, tag):
    text = (SRC / fname).read_text()
    assert text.count(old) >= 1, (fname, old)
    # the inline loop and make_declarative share one line: mutate the intended occurrence only
    text = text.replace(old, new)
    OUT.mkdir(parents=True, exist_ok=True)
    path = OUT / f'{tag}_{fname}'
    path.write_text(text)
    name = f'pharmpy.modeling.c07mut_{tag}'
    spec = importlib.util.spec_from_file_location(name, path)
    mod = importlib.util.module_from_spec(spec)
    sys.modules[name] = mod
    spec.loader.exec_module(mod)
    return mod


def mods_for(k, tag):
    fname, old, new, funcs = MUTATIONS[k]
    mod = load_mutated(fname, old, new, tag)
    mods = {}
    if fname in ('parameters.py', 'random_variables.py'):
        # cleanup_model reaches these through expressions.py: give a fresh copy of expressions.py the mutated callee
        ex = load_mutated('expressions.py', "def cleanup_model(", "def cleanup_model(", tag + 'x')
        for f in funcs:
            setattr(ex, f, getattr(mod, f))
        mods['cleanup_model'] = ex.cleanup_model
    else:
        for f in funcs:
            mods[f] = getattr(mod, f)
        if fname == 'expressions.py' and 'get_observation_expression' in funcs:
            pass
    return mods


def main():
    n = int(sys.argv[1]) if len(sys.argv) > 1 else 150
    only = sys.argv[2] if len(sys.argv) > 2 else None
    ctx = Ctx('C07', 'quick', 0)
    reg = [json.loads(p.read_text()) for p in sorted((VERIF / 'regress' / 'C07').glob('*.json'))]
    specs = reg + [c07.gen_spec(ctx.rng) for _ in range(n)]
    if not only or only == 'patched':
        # make_declarative with 0e1c190 reverted against Model.declarative_before_fix (the old model still fits the
        # old code), and the current code on strictly valid programs (Properties.declarative_preserves: 0 failures)
        mods = mods_for('decl-first-raw (revert of 0e1c190)', 'mp')
        kept, verdicts, infos, _ = c07.run_specs(ctx, specs, 'mutbefore', quiet=True, mods=mods, verdict='verdict_before_fix')
        corr = sum(1 for v in verdicts if 1 in v)
        print(f"REVERTED make_declarative vs Model.declarative_before_fix: {len(kept)} programs, correspondence "
              f"disagreements {corr}", flush=True)
        kept, verdicts, infos, _ = c07.run_specs(ctx, specs, 'mutcurrent', quiet=True)
        valid = [v for v in verdicts if 211 not in v]
        bad = sum(1 for v in valid if 11 in v or 14 in v or 201 in v)
        print(f"CURRENT make_declarative: strictly valid programs {len(valid)}, of these changed/raised/guard-false "
              f"{bad} (theorem: 0)", flush=True)
    for tag, k in enumerate(MUTATIONS):
        if only and only not in k:
            continue
        mods = mods_for(k, f'm{tag}')
        kept, verdicts, infos, _ = c07.run_specs(ctx, specs, f'mut{tag}', quiet=True, mods=mods)
        corr = collections.Counter(t for v in verdicts for t in set(v) if t in c07.CORR)
        unexplained = collections.Counter()
        for v in verdicts:
            tags = set(v)
            for t in tags:
                if t in c07.ORACLE:
                    need_absent, causes = c07.ORACLE[t]
                    if need_absent not in tags and any(g in tags for g, _ in causes):
                        continue
                    if t in (11, 12, 14, 15) and 208 in tags and ({201, 204} & tags):
                        continue        # a program that assigns a parameter / column: outside the domain
                    unexplained[t] += 1
        caught = bool(corr or unexplained)
        print(f"{'CAUGHT' if caught else 'MISSED'} {k}: correspondence tags {dict(corr)} unexplained oracle tags "
              f"{dict(unexplained)} errors {dict(collections.Counter(e for i in infos for e in i['errors']))}",
              flush=True)


MU_MUTATIONS = {
    'mu-count-ge-1': ("            and len(etas & statements[:i].full_expression(s.expression).free_symbols) == 1\n",
                      "            and len(etas & statements[:i].full_expression(s.expression).free_symbols) >= 1\n"),
    'mu-found-test-dropped': ("            s.symbol not in found\n            and not etas", "            not etas"),
    'mu-found-symbol-only': ("            found.update(s.free_symbols)\n", "            found.add(s.symbol)\n"),
    'mu-offset-dropped': ("            insertion_ind = offset + old_ind\n", "            insertion_ind = old_ind\n"),
    'mu-skip-rule-dropped': ("        if mu in assignment.expression.free_symbols:\n", "        if False:\n"),
    'mu-index-off-by-one': ("        mu = Expr.symbol(f'mu_{index[eta]}')\n", "        mu = Expr.symbol(f'mu_{index[eta] + 1}')\n"),
    'mu-order-swapped': ("                + Assignment.create(mu, mu_expr)\n                + Assignment.create(assignment.symbol, new_def)\n",
                         "                + Assignment.create(assignment.symbol, new_def)\n                + Assignment.create(mu, mu_expr)\n"),
    'mu-before-odes-dropped': ("    statements = model.statements.before_odes\n    etas = {Expr.symbol(eta)", "    statements = model.statements\n    etas = {Expr.symbol(eta)"),
}


def mu_mutations():
    """Mutations of mu_reference_model / _find_eta_assignments against the modelled stream (tags 50-54)."""
    for tag, (k, (old, new)) in enumerate(MU_MUTATIONS.items()):
        MUTATIONS[k] = ('expressions.py', old, new, ['mu_reference_model'])
        mods = mods_for(k, f'mm{tag}')
        ctx = Ctx('C07', 'quick', 0)
        specs, verdicts = c07.mu_oracle(ctx, 150, mods=mods, label=f'mumut{tag}')
        cnt = collections.Counter(t for v in verdicts for t in set(v) if t in (50, 51, 52, 53))
        caught = bool(cnt)
        print(f"{'CAUGHT' if caught else 'MISSED'} {k}: tags {dict(cnt)} raised {ctx.coverage['mu_reference']['raised']}",
              flush=True)


GREEK_MUTATIONS = {
    'greek-theta-start-0': ("    for i, theta in enumerate(get_thetas(model), start=1):\n", "    for i, theta in enumerate(get_thetas(model), start=0):\n"),
    'greek-sigma-loop-dropped': ("            subs[elt] = Expr.symbol(f\"sigma_{subscript}\")\n", "            pass\n"),
    'greek-row-col-swapped': ("            subscript = get_2d_subscript(elt, row + 1, col + 1, named_subscripts)\n            subs[elt] = Expr.symbol(f\"sigma_{subscript}\")\n",
                              "            subscript = get_2d_subscript(elt, col + 1, row + 1, named_subscripts)\n            subs[elt] = Expr.symbol(f\"sigma_{subscript}\")\n"),
    'greek-eps-named-eta': ("        subs[Expr.symbol(epsilon)] = Expr.symbol(f\"epsilon_{subscript}\")\n", "        subs[Expr.symbol(epsilon)] = Expr.symbol(f\"eta_{subscript}\")\n"),
}


def greek_mutations():
    for tag, (k, (old, new)) in enumerate(GREEK_MUTATIONS.items()):
        MUTATIONS[k] = ('expressions.py', old, new, ['greekify_model'])
        mods = mods_for(k, f'mg{tag}')
        ctx = Ctx('C07', 'quick', 0)
        c07.greek_oracle(ctx, 10, greekify=mods['greekify_model'])
        st = ctx.coverage['greekify_table']
        caught = bool(ctx.broken) or st['not_injective_on_model_names'] or bool(ctx.violations)
        print(f"{'CAUGHT' if caught else 'MISSED'} {k}: table disagreements {len(ctx.broken)} {st}", flush=True)


def extra():
    """Mutations seen only by the oracle-only streams."""
    import pharmpy.modeling as pm
    # (A) eta gradient over iiv.names instead of etas.names: models with IOV etas / IOV-first order
    MUTATIONS['etagrad-iiv-names'] = (
        'expressions.py', "    d = [y.diff(Expr.symbol(x)) for x in model.random_variables.etas.names]\n",
        "    d = [y.diff(Expr.symbol(x)) for x in model.random_variables.iiv.names]\n",
        ['calculate_eta_gradient_expression'])
    orig = pm.calculate_eta_gradient_expression
    pm.calculate_eta_gradient_expression = mods_for('etagrad-iiv-names', 'mA')['calculate_eta_gradient_expression']
    ctx = Ctx('C07', 'quick', 0)
    c07.gradient_oracle(ctx, 40)
    pm.calculate_eta_gradient_expression = orig
    print(('CAUGHT' if ctx.violations else 'MISSED') + ' etagrad-iiv-names: '
          + str(sorted({v['what'][:70] for v in ctx.violations})), flush=True)
    # (B) NM-TRAN printer prints `<=` as .LT. (runtime perturbation of the class, /repo untouched)
    from pharmpy.model.external.nonmem.records import code_record as cr
    keep = cr.NMTranPrinter._print_LessThan
    cr.NMTranPrinter._print_LessThan = lambda self, expr: self._do_infix(expr, ".LT.")
    ctx = Ctx('C07', 'quick', 0)
    c07.corpus_oracle(ctx, 0)
    cr.NMTranPrinter._print_LessThan = keep
    print(('CAUGHT' if ctx.violations else 'MISSED') + ' nmtran-printer-LE-as-LT: '
          + str(sorted({v['what'][-60:] for v in ctx.violations})), flush=True)


if __name__ == '__main__':
    if len(sys.argv) > 2 and sys.argv[2] == 'extra':
        extra()
    elif len(sys.argv) > 2 and sys.argv[2] == 'mu':
        mu_mutations()
    elif len(sys.argv) > 2 and sys.argv[2] == 'greek':
        greek_mutations()
    else:
        main()
