"""C12 helper (own module of property C12): export of real pharmpy objects and of the Python values
their to_dict() produces to Gallina terms over PV.C12.Model's [strG] engine.  Every symbolic leaf
(Expr, Matrix, Unit) is exported as its srepr text.  Fail-closed: an unknown value raises
Unconvertible and the case is skipped and counted.  Part of the trusted base of the correspondence."""
import math
from fractions import Fraction

from harness.lib import coqterm as ct


class Unconvertible(Exception):
    pass


def cstr(s):
    if not isinstance(s, str):
        raise Unconvertible(f'str expected, got {type(s).__name__}')
    if all(32 <= ord(c) <= 126 and c != '"' for c in s):
        return '"' + s + '"'
    return '(Str [' + ';'.join(str(b) for b in s.encode('utf-8')) + '])'


def cz(n):
    if isinstance(n, bool) or not isinstance(n, int):
        raise Unconvertible(f'int expected, got {type(n).__name__}')
    return f'({n})%Z'


def cfl(x):
    if math.isnan(x):
        return 'FNaN'
    if math.isinf(x):
        return 'FInf' if x > 0 else 'FNegInf'
    f = Fraction(float(x))
    return f'(FFin ({f.numerator}#{f.denominator})%Q)'


def cnum(x):
    if isinstance(x, bool):
        raise Unconvertible('bool where a number is expected')
    if isinstance(x, int):
        return f'(NInt {cz(x)})'
    if isinstance(x, float):
        return f'(NFloat {cfl(x)})'
    raise Unconvertible(f'number expected, got {type(x).__name__}')


def copt(f, x):
    return 'None' if x is None else f'(Some {f(x)})'


def cbool(b):
    if not isinstance(b, bool):
        raise Unconvertible(f'bool expected, got {type(b).__name__}')
    return 'true' if b else 'false'


def ctuple(x, what):
    """The fields that create() and from_dict() make tuples must be tuples."""
    if type(x) is not tuple:
        raise Unconvertible(f'{what} held as {type(x).__name__}, not as a tuple')
    return x


def pyv(v):
    """A value made of None/bool/int/float/str/list/tuple/dict, as PV.C12.Model.pyv."""
    if v is None:
        return 'PNone'
    if type(v) is bool:
        return f'(PBool {cbool(v)})'
    if isinstance(v, int):
        return f'(PInt {cz(int(v))})'
    if isinstance(v, float):          # numpy.float64 is a float, and json.dumps writes it as one
        return f'(PFloat {cfl(v)})'
    if type(v) is str:
        return f'(PStr {cstr(v)})'
    if type(v) is list:
        return '(PList ' + ct.lst([pyv(x) for x in v]) + ')'
    if type(v) is tuple:
        return '(PTuple ' + ct.lst([pyv(x) for x in v]) + ')'
    if type(v) is dict:
        items = []
        for k, x in v.items():
            if type(k) is str:
                kk = f'(KStr {cstr(k)})'
            elif type(k) is int:
                kk = f'(KInt {cz(k)})'
            else:
                raise Unconvertible(f'dict key of type {type(k).__name__}')
            items.append(f'({kk}, {pyv(x)})')
        return '(PDict ' + ct.lst(items) + ')'
    raise Unconvertible(f'value of type {type(v).__name__}')


# ---------------------------------------------------------------- objects
def expr(e):
    return cstr(e.serialize())


def parameter(p):
    return f'(Par {cstr(p.name)} {cnum(p.init)} {cnum(p.lower)} {cnum(p.upper)} {cbool(p.fix)})'


def parameters(ps):
    return ct.lst([parameter(p) for p in ps])


def level(l):
    return f'(Lev {cstr(l._name)} {cbool(l._reference)} {copt(cstr, l._group)})'


def hierarchy(h):
    return ct.lst([level(l) for l in h._levels])


def dist(d):
    from pharmpy.model import JointNormalDistribution, NormalDistribution
    if isinstance(d, NormalDistribution):
        return f'(DN (Nd {cstr(d._name)} {cstr(d._level)} {expr(d._mean)} {expr(d._variance)}))'
    if isinstance(d, JointNormalDistribution):
        names = ctuple(d._names, 'names')
        return (f'(DJ (Jn {ct.lst([cstr(n) for n in names])} {cstr(d._level)} '
                f'{cstr(d._mean.serialize())} {cstr(d._variance.serialize())}))')
    raise Unconvertible(type(d).__name__)


def rvs(r):
    return f'(Rv {ct.lst([dist(d) for d in r._dists])} {hierarchy(r._eta_levels)} {hierarchy(r._epsilon_levels)})'


def assignment(a):
    return f'(As {expr(a._symbol)} {expr(a._expression)})'


def dose(d):
    from pharmpy.model import Bolus, Infusion
    if isinstance(d, Bolus):
        return f'(Bo {expr(d._amount)} {cz(d._admid)})'
    if isinstance(d, Infusion):
        return f'(Inf {expr(d._amount)} {cz(d._admid)} {copt(expr, d._rate)} {copt(expr, d._duration)})'
    raise Unconvertible(type(d).__name__)


def compartment(c):
    if type(c._doses) is not tuple:
        raise Unconvertible('doses not a tuple')
    return (f'(Cm {cstr(c._name)} {expr(c._amount)} {ct.lst([dose(d) for d in c._doses])} '
            f'{expr(c._input)} {expr(c._lag_time)} {expr(c._bioavailability)})')


def node(n):
    from pharmpy.model.statements import Output
    if isinstance(n, Output):
        return 'NO'
    return f'(NC {compartment(n)})'


def csys(cs):
    g = cs._g
    entries = []
    for n in g.nodes:
        adj = ct.lst([f"({node(v)}, {expr(data['rate'])})" for v, data in g._adj[n].items()])
        entries.append(f'({node(n)}, {adj})')
    return f'(Cs {ct.lst(entries)} {expr(cs._t)})'


def out_preds(cs):
    from pharmpy.model import output
    g = cs._g
    nodes = list(g.nodes)
    if output not in g:
        return 'None'
    return '(Some ' + ct.lst([ct.nat(nodes.index(p)) for p in g.predecessors(output)]) + ')'


def statement(s):
    from pharmpy.model import Assignment, CompartmentalSystem
    if isinstance(s, Assignment):
        return f'(SA {assignment(s)})'
    if isinstance(s, CompartmentalSystem):
        return f'(SO {csys(s)})'
    raise Unconvertible(type(s).__name__)


def statements(st):
    return ct.lst([statement(s) for s in st])


def common(s):
    tool = dict(s._tool_options)
    items = pyv(tool)            # (PDict [...])
    assert items.startswith('(PDict ') and items.endswith(')')
    return (f'(Co {copt(cstr, s._solver)} {copt(cnum, s._solver_rtol)} {copt(cnum, s._solver_atol)} '
            f'{items[len("(PDict "):-1]})')


def derivs(d):
    ctuple(d, 'derivatives')
    if all(type(x) is str for x in d):
        return f'(DSt {ct.lst([cstr(x) for x in d])})'
    if all(type(x) is tuple for x in d):
        return '(DSy ' + ct.lst([ct.lst([expr(e) for e in x]) for x in d]) + ')'
    raise Unconvertible('derivatives of unexpected shape')


def step(s):
    from pharmpy.model import EstimationStep, SimulationStep
    if isinstance(s, EstimationStep):
        res, pred = ctuple(s._residuals, 'residuals'), ctuple(s._predictions, 'predictions')
        return ('(SE (Es ' + ' '.join([
            cstr(s._method), cbool(s._interaction), copt(cstr, s._parameter_uncertainty_method),
            cbool(s._evaluation), copt(cz, s._maximum_evaluations), cbool(s._laplace),
            copt(cz, s._isample), copt(cz, s._niter), copt(cbool, s._auto), copt(cz, s._keep_every_nth_iter),
            ct.lst([cstr(x) for x in res]), ct.lst([cstr(x) for x in pred]),
            derivs(s._derivatives), cbool(s._individual_eta_samples), common(s)]) + '))')
    if isinstance(s, SimulationStep):
        return f'(SS (Si {cz(s._n)} {cz(s._seed)} {common(s)}))'
    raise Unconvertible(type(s).__name__)


def steps(es):
    return ct.lst([step(s) for s in es._steps])


def cats(c):
    if c is None:
        return 'CNone'
    if type(c) is tuple:
        return '(CTuple ' + ct.lst([pyv(x) for x in c]) + ')'
    if type(c).__name__ == 'frozenmapping':
        inner = pyv(dict(c))
        return '(CMap ' + inner[len('(PDict '):]
    raise Unconvertible(f'categories held as {type(c).__name__}')


def column(c):
    return ('(Col ' + ' '.join([
        cstr(c._name), cstr(c._type), cstr(c._unit.serialize()), cstr(c._scale), copt(cbool, c._continuous),
        cats(c._categories), cbool(c._drop), cstr(c._datatype), copt(cstr, c._descriptor)]) + ')')


def datainfo(di):
    path = None if di._path is None else str(di._path)
    return (f'(Di {ct.lst([column(c) for c in di._columns])} {copt(cstr, path)} {cstr(di._separator)} '
            f'{cstr(di._missing_data_token)})')


def iie(df):
    if df is None:
        return 'None'
    d = df.to_dict()
    return f'(Some {pyv(d)})'


def model(m):
    dv = ct.lst([f'({expr(k)}, {cz(v)})' for k, v in m._dependent_variables.items()])
    ot = ct.lst([f'({expr(k)}, {expr(v)})' for k, v in m._observation_transformation.items()])
    return ('(Mo ' + ' '.join([
        cstr(m._name), cstr(m._description), parameters(m._parameters), rvs(m._random_variables),
        statements(m._statements), steps(m._execution_steps), datainfo(m._datainfo), cstr(m._value_type),
        dv, ot, iie(m._initial_individual_estimates)]) + ')')


def canon_dict(kind, d):
    """The real dictionary with the one text the strG engine cannot reproduce replaced: DataInfo
    writes str(unit); strG identifies a unit with its srepr.  The real Unit class does the
    translation, so a unit that does not survive str() shows up as a dictionary mismatch (tag 1)."""
    from pharmpy.basic.unit import Unit
    import copy

    def fix_di(di):
        for col in di['columns']:
            col['unit'] = Unit.deserialize(col['unit']).serialize()

    if kind == 'datainfo':
        d = copy.deepcopy(d)
        fix_di(d)
    elif kind == 'model':
        d = copy.deepcopy(d)
        fix_di(d['datainfo'])
    return d


EXPORT = {
    'parameter': ('OParam', parameter), 'parameters': ('OParams', parameters), 'dist': ('ODist', dist),
    'rvs': ('ORvs', rvs), 'assignment': ('OAssign', assignment), 'dose': ('ODose', dose),
    'compartment': ('OComp', compartment), 'csys': ('OCs', csys), 'statements': ('OStmts', statements),
    'step': ('OStep', step), 'steps': ('OSteps', steps), 'column': ('OColumn', column),
    'datainfo': ('ODi', datainfo), 'model': ('OModel', model),
}


def obj(kind, x):
    con, f = EXPORT[kind]
    return f'({con} {f(x)})'


def canon_dict_lenient(kind, d):
    """canon_dict for dictionaries that may lack keys (malformed stream): a column whose unit is
    missing or unparsable is left as it is."""
    from pharmpy.basic.unit import Unit
    import copy
    d = copy.deepcopy(d)

    def fix_di(di):
        if not isinstance(di, dict) or not isinstance(di.get('columns'), (list, tuple)):
            return
        for col in di['columns']:
            if isinstance(col, dict) and isinstance(col.get('unit'), str):
                try:
                    col['unit'] = Unit.deserialize(col['unit']).serialize()
                except Exception:
                    pass
    if kind == 'datainfo':
        fix_di(d)
    elif kind == 'model' and isinstance(d, dict):
        fix_di(d.get('datainfo'))
    return d


def frame(df):
    """A pandas DataFrame as PV.C12.Model.frame: cells as hash_array sees them (floats by bit pattern)."""
    import struct

    import numpy as np
    import pandas as pd

    def cell(v):
        if isinstance(v, (bool, np.bool_)):
            return f'(CBool {cbool(bool(v))})'
        if isinstance(v, (int, np.integer)):
            return f'(CInt {cz(int(v))})'
        if isinstance(v, (float, np.floating)):
            bits = struct.unpack('>Q', struct.pack('>d', float(v)))[0]
            return f'(CFloat {cz(bits)})'
        if isinstance(v, str):
            return f'(CStr {cstr(v)})'
        raise Unconvertible(f'cell of type {type(v).__name__}')
    for c in df.columns:
        if not isinstance(c, str):
            raise Unconvertible('column label that is not a str')
    ix = df.index
    if isinstance(ix, pd.RangeIndex):
        index = f'(IRange {cz(int(ix.start))} {cz(int(ix.stop))} {cz(int(ix.step))})'
    elif type(ix) is pd.Index:
        index = f'(ILabels {ct.lst([cell(v) for v in ix.tolist()])} {cstr(str(ix.dtype))} {copt(cstr, ix.name)})'
    else:
        raise Unconvertible(f'index of type {type(ix).__name__}')
    rows = ct.lst([ct.lst([cell(v) for v in row]) for row in df.itertuples(index=False, name=None)])
    return (f'(mkFrame {ct.lst([cstr(c) for c in df.columns])} {ct.lst([cstr(str(d)) for d in df.dtypes])} '
            f'{index} {rows})')


def rfield(v):
    """An attribute of a results object as PV.C12.Model.rfield over the dictionary engine of Check.v."""
    import json
    from pathlib import Path

    import pandas as pd
    from pharmpy.model import Model
    from pharmpy.workflows import Log
    from pharmpy.workflows.results import _df_to_json

    def items(d):
        t = pyv(d)
        assert t.startswith('(PDict ')
        return t[len('(PDict '):-1]
    if isinstance(v, pd.DataFrame):
        return f'(FFr {items(_df_to_json(v.copy()))})'
    if isinstance(v, pd.Series):
        return f'(FSe {items(_df_to_json(v.to_frame()))})'
    if isinstance(v, Log):
        return f'(FLo {items(v.to_dict())})'
    if isinstance(v, Model):
        return 'FMo'
    if isinstance(v, Path):
        return f'(FPa {cstr(str(v))})'
    try:
        json.dumps(v)
    except TypeError:
        return 'FOt'
    return f'(FPl {pyv(v)})'


def results(r):
    fields = ct.lst([f'({cstr(k)}, {rfield(v)})' for k, v in vars(r).items()])
    return f'(Res {cstr(type(r).__module__)} {cstr(type(r).__qualname__)} {fields})'


def history(hist):
    """A builder history (c12_gen.csys_history) as list (bop strG)."""
    out = []
    for h in hist:
        if h[0] == 'add':
            out.append(f'(BAC {compartment(h[1])})')
        elif h[0] == 'flow':
            out.append(f'(BAF {node(h[1])} {node(h[2])} {expr(h[3])})')
        else:
            out.append(f'(BRF {node(h[1])} {node(h[2])})')
    return ct.lst(out)
