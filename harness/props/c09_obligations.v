(* Obligations over the REGENERATED templates (Templates.v) — compiled at check time. *)
From Coq Require Import QArith Qfield List Bool PArith NArith Lia.
From PV Require Import Base.PyData Base.Expr Base.Interp Base.Stmts C09.Model C09.Proofs C09.ProofsExec C09.Properties.
From PVGen.C09 Require Import Templates.
Import ListNotations.
Local Open Scope Q_scope.

(* effect_formula: the template built by the code IS the documented effect function *)
Theorem effect_formula : forall k, expr_equiv (effect_template k) (doc_effect k).
Proof. destruct k; solve_expr_equiv. Qed.

Theorem effect_statement_formula : forall o, expr_equiv (effect_statement_rhs o) (doc_effect_rhs o).
Proof. destruct o; solve_expr_equiv. Qed.

Theorem categorical_formula :
  cat_enumerate_start = 1%nat /\ expr_equiv cat_first_value one /\
  cond_equiv cat_first_cond (CRel OEq (Sym s_cov) (Sym s_most_common)) /\
  expr_equiv cat_nan_value one /\ cond_equiv cat_nan_cond (CRel OEq (Sym s_cov) (Sym s_nan)) /\
  cond_equiv cat_other_cond (CRel OEq (Sym s_cov) (Sym s_cat)) /\
  forall two alt i, expr_equiv (cat_other_value two alt i) (doc_cat_other_value two alt i).
Proof.
  repeat split; try reflexivity; try solve_expr_equiv; try solve_cond_equiv.
  intros [|] [|] i; solve_expr_equiv.
Qed.

Theorem iiv_formula : forall k o, expr_equiv (iiv_template k o) (doc_iiv k o).
Proof. destruct k, o; solve_expr_equiv. Qed.

Theorem relogit_phi_formula : expr_equiv relogit_phi doc_relogit_phi.
Proof. solve_expr_equiv. Qed.

Theorem error_formulas :
  expr_equiv add_error doc_add_error /\
  (forall dt zp, expr_equiv (prop_error dt zp) (doc_prop_error dt zp)) /\
  expr_equiv prop_guard doc_prop_guard /\
  (forall k, expr_equiv (comb_error k) (doc_comb_error k)) /\
  expr_equiv iiv_on_ruv_subst doc_iiv_on_ruv /\ expr_equiv power_on_ruv_subst doc_power_on_ruv.
Proof.
  repeat split; try solve_expr_equiv.
  - intros [|] [|]; solve_expr_equiv.
  - intros [| |]; solve_expr_equiv.
Qed.

Theorem ode_constants_formula :
  expr_equiv transit_rate doc_transit_rate /\ expr_equiv transit_rate_update doc_transit_rate /\
  expr_equiv fo_rate doc_fo_rate /\ expr_equiv zo_duration doc_zo_duration /\
  expr_equiv allometry_expr doc_allometry.
Proof. repeat split; solve_expr_equiv. Qed.

Theorem dispatch_tables :
  effect_dispatch = doc_effect_dispatch /\ effect_ops = doc_ops /\
  iiv_dispatch = doc_iiv_dispatch /\ iiv_ops = doc_ops.
Proof. repeat split; reflexivity. Qed.

(* the names one add_iov call declares continue the numbering: IOV_<first+i-1> and ETAI<first+i-1> carry the same
   index, strictly increasing in i and never below the first free number (so two calls cannot collide) *)
Theorem iov_numbering :
  iov_name_prefix = str [73; 79; 86; 95]%nat /\ etai_name_prefix = str [69; 84; 65; 73]%nat /\
  forall first i, (1 <= i)%nat ->
    iov_name_index first i = (first + i - 1)%nat /\ etai_name_index first i = iov_name_index first i.
Proof. repeat split; try reflexivity; unfold iov_name_index, etai_name_index; Lia.lia. Qed.

Theorem gen_templates_equiv : templates_equiv gen_templates doc_templates.
Proof.
  pose proof categorical_formula as [C1 [C2 [C3 [C4 [C5 [C6 C7]]]]]].
  pose proof error_formulas as [E1 [E2 [E3 [E4 [E5 E6]]]]].
  pose proof ode_constants_formula as [O1 [O2 [O3 [O4 O5]]]].
  pose proof dispatch_tables as [D1 [D2 [D3 D4]]].
  constructor; cbn [gen_templates doc_templates t_effect t_effect_rhs t_cat_start t_cat_first_value t_cat_first_cond
    t_cat_nan_value t_cat_nan_cond t_cat_other_cond t_cat_other_value t_iiv t_relogit_phi t_add_error t_prop_error
    t_prop_guard t_comb_error t_iiv_on_ruv t_power_on_ruv t_transit_rate t_transit_rate_update t_fo_rate t_zo_duration
    t_allometry t_effect_dispatch t_effect_ops t_iiv_dispatch t_iiv_ops]; auto.
  - apply effect_formula.
  - apply effect_statement_formula.
  - apply iiv_formula.
  - apply relogit_phi_formula.
Qed.

(* ---- the property theorems instantiated with the templates the code builds NOW --------------------- *)
Theorem effect_neutral_now :
  forall (fi : finterp) (r : env) (k : ekind) (m : Q),
    fi_proper fi -> exp_zero_one fi -> pow_base_one fi ->
    r s_cov = Some m -> r s_median = Some m -> ref_ok k m -> thetas_defined k r ->
    oq_equiv (eval r fi (effect_template k)) (Some 1).
Proof. intros. apply (PV.C09.Properties.effect_neutral gen_templates fi r k m gen_templates_equiv); assumption. Qed.

Theorem iiv_neutral_now :
  forall (fi : finterp) (r : env) (k : ikind) (o : binop) (p z : Q),
    fi_proper fi -> exp_zero_one fi -> iiv_neutral_kind k o = true ->
    r s_original = Some p -> r s_eta_new = Some z -> z == 0 ->
    oq_equiv (eval r fi (iiv_template k o)) (Some p).
Proof. intros. apply (PV.C09.Properties.iiv_neutral gen_templates fi r k o p z gen_templates_equiv); assumption. Qed.

Theorem error_model_shape_now :
    shape1 add_error s_eps_a (Sym s_f) one /\
    (forall zp, shape1 (prop_error DTId zp) s_eps_p (Sym s_x) (if zp then Sym s_ipredadj else Sym s_x)) /\
    (forall zp, shape1 (prop_error DTLog zp) s_eps_p (Fn1 F_LOG (if zp then Sym s_ipredadj else Sym s_x)) one) /\
    shape2 (comb_error CombPlain) s_eps_p s_eps_a (Sym s_x) (Sym s_x) one /\
    shape2 (comb_error CombLog) s_eps_p s_eps_a (Fn1 F_LOG (Sym s_x)) one (Div one (Sym s_x)) /\
    shape2 (comb_error CombIivRuv) s_eps_p s_eps_a (Sym s_x)
           (Mul (Sym s_x) (Fn1 F_EXP (Sym s_eta_ruv))) (Fn1 F_EXP (Sym s_eta_ruv)).
Proof. exact (PV.C09.Properties.error_model_shape gen_templates gen_templates_equiv). Qed.

Theorem mean_times_now :
  forall (fi : finterp) (r : env), fi_proper fi ->
    (forall n mdt, r s_n = Some n -> r s_mdt = Some mdt -> 0 < n -> ~ mdt == 0 ->
       oq_equiv (eval r fi (Mul (Sym s_n) (Div one transit_rate))) (Some mdt) /\
       oq_equiv (eval r fi (Mul (Sym s_n) (Div one transit_rate_update))) (Some mdt)) /\
    (forall mat, r s_mat = Some mat -> ~ mat == 0 -> oq_equiv (eval r fi (Div one fo_rate)) (Some mat)) /\
    (forall mat, r s_mat = Some mat -> oq_equiv (eval r fi (Div zo_duration (Num 2))) (Some mat)).
Proof.
  intros fi r Hp. repeat split.
  - apply (PV.C09.Properties.transit_mean_transit_time gen_templates fi r n mdt gen_templates_equiv); assumption.
  - apply (PV.C09.Properties.transit_mean_transit_time gen_templates fi r n mdt gen_templates_equiv); assumption.
  - intros. apply (PV.C09.Properties.first_order_mean_absorption_time gen_templates fi r mat gen_templates_equiv); assumption.
  - intros. apply (PV.C09.Properties.zero_order_mean_absorption_time gen_templates fi r mat gen_templates_equiv); assumption.
Qed.

Theorem add_covariate_effect_sound_now :
  forall (fi : finterp) (ode : id -> list (option Q) -> option Q) (a : cov_args) (l lm ls : list stmt) (r : env),
    fi_proper fi -> ode_proper ode ->
    g_surgery gen_templates a l = true ->
    add_covariate_effect gen_templates a l = Some lm ->
    spec_covariate_effect a l = Some ls ->
    forall x, ~ In x (fresh_names a) -> oq_equiv (exec fi ode r lm x) (exec fi ode r ls x).
Proof.
  intros. apply (add_covariate_effect_sound fi ode gen_templates a l lm ls r); auto.
  apply gen_templates_equiv.
Qed.

(* ---- over the reals, for the templates the code builds now (depends on the Coq.Reals axioms) -------- *)
From Coq Require Import Reals Rpower Lra.
From PV Require Import C09.ProofsR.
Local Open Scope R_scope.

Theorem effect_neutral_real_now :
  forall (r : envR) (k : ekind) (m : R),
    r s_cov = Some m -> r s_median = Some m -> ref_okR k m -> thetas_definedR k r ->
    evalR r (effect_template k) = Some 1.
Proof.
  intros r k m Hc Hm Hk Ht. destruct k; cbn [evalR evalcR effect_template]; rewrite ?Hc, ?Hm; cbn [obind].
  - destruct Ht as [t Ht]; rewrite Ht; cbn [obind]. rewrite Q2R_1. apply f_equal. ring.
  - destruct Ht as [[t1 H1] [t2 H2]]; rewrite H1, H2; cbn [obind relR].
    destruct (Rle_dec m m) as [_|N]; [|exfalso; apply N; apply Rle_refl].
    rewrite Q2R_1. apply f_equal. ring.
  - destruct Ht as [t Ht]; rewrite Ht; cbn [obind]. unfold fn1R. cbn [Pos.eqb F_EXP].
    apply f_equal. replace (t * (m + - m)) with 0 by ring. apply exp_0.
  - destruct Ht as [t Ht]; rewrite Ht; cbn [obind]. cbn [ref_okR] in Hk.
    destruct (Req_EM_T m 0) as [E|_]; [exfalso; lra|]. cbn [obind]. unfold fn2R. cbn [Pos.eqb F_POW].
    replace (m / m) with 1 by (field; lra).
    destruct (Rlt_dec 0 1) as [_|N]; [|exfalso; lra]. apply f_equal. apply Rpower_base_1.
Qed.

Theorem iiv_neutral_real_now :
  forall (r : envR) (k : ikind) (o : binop) (p : R),
    iiv_neutral_kind k o = true -> r s_original = Some p -> r s_eta_new = Some 0 ->
    evalR r (iiv_template k o) = Some p.
Proof.
  intros r k o p Hk Ho Hz. destruct k, o; cbn in Hk; try discriminate;
    cbn [evalR iiv_template apply_op]; rewrite ?Ho, ?Hz; cbn [obind];
    unfold fn1R; cbn [Pos.eqb F_EXP]; rewrite ?exp_0; cbn [obind]; rewrite ?Q2R_1; apply f_equal; ring.
Qed.
