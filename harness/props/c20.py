"""C20 — estimation results are read faithfully from NONMEM output.
Model: coq/theories/C20 (Model.v, Check.v); theorems in Properties.v / Refuted.v.
Tie: synthetic NONMEM output written by the reference writer (harness/props/c20_writer.py = Model.render_wfile,
compared inside Coq), read by the real NONMEMTableFile / ExtTable / CovTable / PhiTable / _get_iter_df and by
read_modelfit_results on a minimal model; the model is re-run inside Coq on the same text, the property is
evaluated on the implementation's answers against what was written (exact decimals, decimal->binary64 rule
explicit in Model.round_b64)."""
import json
import math
import os
import shutil
from fractions import Fraction
from pathlib import Path

from harness.lib import coqterm as ct
from harness.lib.core import BUILD, VERIF, REPO, source_sha, coqc_file
from harness.props import c20_writer as W
from harness.props import c20_gen as G
from harness.props import c20_run as R
from harness.props import c20_lst as L

LEVEL = 'proof'

FTAGS = {
    1: 'NONMEMTableFile result class / number of tables differs from model',
    2: 'title line fields differ from model', 3: 'parsed table (_df) differs from model',
    4: 'ExtTable.data_frame / row selection differs from model', 5: '_get_iter_df differs from model',
    6: 'CovTable.data_frame differs from model', 7: 'PhiTable views differ from model',
    9: 'python reference writer and Coq reference renderer disagree',
    11: 'tables / title fields read are not the ones written',
    12: 'column labels read are not the ones written',
    13: 'values or row indices read are not the ones written',
    14: 'final estimates are not the designated row (-1000000000, else last iteration)',
    15: 'standard errors are not row -1000000001', 16: 'fixed flags are not row -1000000006',
    17: 'final objective value is not taken from the designated row',
    18: 'sd/corr rows are not -1000000004 / -1000000005',
    19: 'cov/cor/coi matrix is not the written one with fixed parameters dropped',
    20: 'phi etas / etcs / iofv are not the written ones',
}
CORR = (1, 2, 3, 4, 5, 6, 7, 9)
# oracle tag -> (correspondence tags that must be absent, guard tag that must be present, finding id)
ORACLE_F = {
    11: ((1, 2), None, None), 12: ((3,), None, None), 13: ((3,), 206, 'C20-FORTRAN-EXP3'),
    14: ((4,), 206, 'C20-FORTRAN-EXP3'), 15: ((4,), 206, 'C20-FORTRAN-EXP3'), 16: ((4,), 206, 'C20-FORTRAN-EXP3'),
    17: ((4,), None, None), 18: ((4,), 206, 'C20-FORTRAN-EXP3'), 19: ((6,), None, None), 20: ((7,), None, None),
}


# ------------------------------------------------------------------ export helpers
def T(s):
    """A text as a Gallina term of type Model.text: a string literal when every character is a single byte that
    Coq's lexer passes through unchanged, else the list of codes."""
    if s and all((32 <= ord(c) < 127) or c in '\n\r\t' for c in s):
        return '(tx "' + s.replace('"', '""') + '"%string)'
    return ct.lst([str(ord(c)) for c in s])


def cellterm(v):
    import numpy as np
    if v is None:
        return 'CNaN'
    if isinstance(v, (bool, np.bool_)):
        return f'(CStr {T(str(v))})'
    if isinstance(v, (int, np.integer)):
        return f'(CNum ({int(v)}#1))'
    if isinstance(v, (float, np.floating)):
        v = float(v)
        if math.isnan(v):
            return 'CNaN'
        if math.isinf(v):
            return f'(CStr {T(repr(v))})'
        n, d = v.as_integer_ratio()
        if d == 1:
            return f'(CNum ({n}#1))'
        return f'(fl ({n}) (-{d.bit_length() - 1}))'
    if isinstance(v, str):
        return f'(CStr {T(v)})'
    try:
        import pandas as pd
        if pd.isna(v):
            return 'CNaN'
    except Exception:
        pass
    return f'(CStr {T(repr(v))})'


def natlabel(v):
    try:
        i = int(v)
        if 0 <= i < 4999 and i == v:
            return f'{i}%nat'
    except Exception:
        pass
    return '4999%nat'


def frameterm(df):
    cols = ct.lst([T(str(c)) for c in df.columns])
    rows = []
    for lab, row in zip(df.index, df.itertuples(index=False, name=None)):
        rows.append(f'({natlabel(lab)}, {ct.lst([cellterm(v) for v in row])})')
    return f'(mkFrame {cols} {ct.lst(rows)})'


def errclass(e):
    if isinstance(e, OSError):
        return 1
    if isinstance(e, KeyError):
        return 3
    if isinstance(e, ValueError):
        return 2
    return 4


def rres(fn, conv):
    try:
        v = fn()
    except Exception as e:  # noqa
        return f'(RErr {errclass(e)})', e
    return f'(ROk {conv(v)})', None


def named_cells(ser):
    return ct.lst([f'({T(str(k))}, {cellterm(v)})' for k, v in ser.items()])


def named_bools(ser):
    return ct.lst([f'({T(str(k))}, {ct.boolean(bool(v))})' for k, v in ser.items()])


def matrixterm(df):
    return (f'(mkMatrix {ct.lst([T(str(c)) for c in df.index])} {ct.lst([T(str(c)) for c in df.columns])} '
            + ct.lst([ct.lst([cellterm(v) for v in row]) for row in df.itertuples(index=False, name=None)]) + ')')


def wnum_term(x):
    k = x[0]
    if k == 'i':
        return f'(WInt {ct.boolean(x[1])} {T(x[2])})'
    if k == 'e':
        return f'(WSci {ct.boolean(x[1])} {T(x[2])} {ct.boolean(x[3])} {T(x[4])})'
    if k == 'f':
        return f'(WFix {ct.boolean(x[1])} {T(x[2])} {T(x[3])})'
    if k == 'x':
        return f'(WStr {T(W.num_text(x))})'
    return f'(WStr {T(x[1])})'


def wtitle_term(t):
    if t is None:
        return 'None'
    ids = t.get('ids', [1, 0, 0, 0, 0, 0])
    return ('(Some (mkWTitle ' + ct.boolean(bool(t.get('short'))) + ' ' + T(str(t['number'])) + ' ' + T(t.get('method', '')) + ' '
            + ct.opt(None if t.get('design') is None else T(t['design'])) + ' '
            + ct.opt(None if t.get('goal') is None else T(t['goal'])) + ' '
            + ct.lst([T(str(i)) for i in ids]) + '))')


def wtable_term(t):
    return ('(mkWTable ' + wtitle_term(t.get('title')) + ' ' + ct.lst([T(x) for x in t['labels']]) + '\n   '
            + ct.lst([ct.lst([wnum_term(c) for c in r]) for r in t['rows']]) + ' '
            + ct.boolean(bool(t.get('lastwide'))) + ' ' + f"{int(t.get('repeat', 0))}%nat "
            + ct.boolean(bool(t.get('showlabels', True))) + ')')


SUFFIX = {'.ext': 'SExt', '.phi': 'SPhi', '.cov': 'SCov', '.cor': 'SCov', '.coi': 'SCov'}


# ------------------------------------------------------------------ implementation side (file level)
def title_term(t):
    if t.number is None:
        return 'None'
    if t.method is None and t.problem is None:
        fields = 'None'
    else:
        ids = [t.problem, t.subproblem, t.superproblem1, t.iteration1, t.superproblem2, t.iteration2]
        fields = ('(Some (' + T(t.method) + ', ' + ct.opt(None if t.design_optimality is None else T(t.design_optimality))
                  + ', ' + ct.opt(None if t.goal_function is None else T(t.goal_function)) + ', '
                  + ct.lst([str(int(i)) for i in ids]) + '))')
    return f'(Some (mkTitle {int(t.number)} {ct.boolean(bool(t.is_evaluation))} {fields}))'


def observe_file(path, suffix, notitle, table_mod=None, results_mod=None, nolabel=False):
    """Run the real classes on a file; returns the Gallina term of type ofile and some info."""
    if table_mod is None:
        import pharmpy.model.external.nonmem.table as table_mod
    if results_mod is None:
        import pharmpy.tools.external.nonmem.results as results_mod
    info = {'errors': []}
    try:
        tf = table_mod.NONMEMTableFile(path, notitle=notitle, nolabel=nolabel)
    except Exception as e:  # noqa
        info['errors'].append(type(e).__name__)
        return f'(OErr {errclass(e)})', info
    ots = []
    for t in tf.tables:
        raw = frameterm(t._df)
        if isinstance(t, table_mod.ExtTable):
            dfterm, err = rres(lambda: t.data_frame, frameterm)
            parts = [dfterm]
            for attr, conv in (('final_parameter_estimates', named_cells), ('standard_errors', named_cells),
                               ('fixed', named_bools), ('omega_sigma_stdcorr', named_cells),
                               ('omega_sigma_se_stdcorr', named_cells), ('condition_number', cellterm),
                               ('final_ofv', cellterm), ('initial_ofv', cellterm)):
                term, e = rres(lambda a=attr: getattr(t, a), conv)
                parts.append(term)
            term, e = rres(lambda: results_mod._get_iter_df(t.data_frame), frameterm)
            parts.append(term)
            kind = '(KOExt (mkExtObs ' + '\n     '.join(parts) + '))'
        elif isinstance(t, table_mod.CovTable):
            term, e = rres(lambda: t.data_frame, matrixterm)
            kind = f'(KOCov {term})'
        elif isinstance(t, table_mod.PhiTable):
            def phiobs():
                iofv = t.iofv
                etas = t.etas
                ids, names, mats = t.etc_data()
                return (iofv, etas, ids, names, mats)

            def phiconv(v):
                iofv, etas, ids, names, mats = v
                return ('(mkPhiObs ' + ct.lst([cellterm(x) for x in ids]) + ' ' + ct.lst([cellterm(x) for x in iofv.values])
                        + ' ' + ct.lst([T(str(c)) for c in etas.columns]) + ' '
                        + ct.lst([ct.lst([cellterm(x) for x in row]) for row in etas.itertuples(index=False, name=None)])
                        + ' ' + ct.lst([T(n) for n in names]) + ' '
                        + ct.lst([ct.lst([ct.lst([cellterm(x) for x in r]) for r in m]) for m in mats]) + ')')
            term, e = rres(phiobs, phiconv)
            if e is not None:
                info['errors'].append('phi:' + type(e).__name__)
            kind = f'(KOPhi {term})'
        else:
            kind = 'KONone'
        ots.append(f'(mkOT {title_term(t)} {raw}\n    {kind})')
    info['ntables'] = len(tf.tables)
    return '(OTables ' + ct.lst(ots) + ')', info


def file_text(spec):
    if spec.get('raw') is not None:
        return spec['raw']
    s = W.render_file(spec['tables'])
    if spec.get('eol') == 'crlf':
        s = s.replace('\n', '\r\n')
    return s


def fcase_term(ctx, spec, k, table_mod=None, results_mod=None, perturb=None):
    text = file_text(spec)
    d = ctx.rundir / 'files'
    d.mkdir(exist_ok=True)
    path = d / f"f{k}{spec['suffix'] or '.tab'}"
    with open(path, 'w', newline='') as fh:
        fh.write(text)
    # results._parse_tables: notitle = NOTITLE or NOHEADER, nolabel = NOLABEL or NOHEADER
    nolabel = spec.get('raw') is None and any(not t.get('showlabels', True) for t in spec['tables'])
    obs, info = observe_file(path, spec['suffix'], bool(spec.get('notitle')), table_mod, results_mod, nolabel=nolabel)
    if perturb:
        obs = perturb(obs)
    written = 'None' if spec.get('raw') is not None else '(Some ' + ct.lst([wtable_term(t) for t in spec['tables']]) + ')'
    term = (f"(mkF {SUFFIX.get(spec['suffix'], 'SOther')} {ct.boolean(bool(spec.get('notitle')))} {ct.boolean(nolabel)}\n  {T(text)}\n  "
            f"{written}\n  {obs})")
    info['size'] = len(text)
    return term, info


def classify_f(ctx, spec, tags):
    tags = set(tags)
    corr = sorted(t for t in tags if t in CORR)
    oracle = sorted(t for t in tags if t in ORACLE_F)
    status = 'ok'
    for t in oracle:
        need_absent, guard, fid = ORACLE_F[t]
        explained = not any(c in tags for c in need_absent)
        guard_false = guard is not None and guard in tags
        if explained and guard_false and fid and ctx.open_finding(fid):
            ctx.coverage.setdefault('known_hits', {}).setdefault(fid, 0)
            ctx.coverage['known_hits'][fid] += 1
            if status == 'ok':
                status = 'known'
        else:
            ctx.violation(FTAGS[t], {'spec': spec, 'tags': sorted(tags), 'tag_meaning': FTAGS[t]})
            status = 'violation'
    if corr and status != 'violation':
        ctx.broken.append('correspondence C20 model vs implementation: ' + ', '.join(FTAGS[t] for t in corr)
                          + ' on ' + json.dumps(spec)[:600])
        ctx.coverage.setdefault('corr_disagreements', []).append({'spec': spec, 'tags': sorted(tags)})
        status = 'broken'
    return status


PRELUDE = 'Require Import Coq.Strings.String.\nOpen Scope N_scope.'
IMPORTS = 'C20.Model C20.Check'


def run_fspecs(ctx, specs, label, quiet=False, **kw):
    terms, infos = [], []
    for k, spec in enumerate(specs):
        term, info = fcase_term(ctx, spec, f'{label}{k}', **kw)
        terms.append(term)
        infos.append(info)
    verdicts = ctx.run_cases(label, IMPORTS, 'fcase', terms, 'fverdict', shard=10, prelude=PRELUDE)
    stats = {'ok': 0, 'known': 0, 'violation': 0, 'broken': 0}
    if not quiet:
        for spec, tags in zip(specs, verdicts):
            stats[classify_f(ctx, spec, tags)] += 1
    return verdicts, infos, stats


def finding_probes(ctx):
    for f in ctx.findings:
        if f.get('status') != 'open':
            continue
        spec = f['witness']
        if spec.get('level') == 'run':
            tags = R.run_rspecs(ctx, [spec], 'finding-' + f['id'], quiet=True)[0][0]
        else:
            tags = run_fspecs(ctx, [spec], 'finding-' + f['id'], quiet=True)[0][0]
        if f['expect_tag'] in set(tags):
            ctx.known(f['id'])
        else:
            ctx.notes.append(f"finding_not_reproduced {f['id']} (tags {sorted(set(tags))})")


def _latest_findings(ctx):
    """An entry staged in known_findings.d replaces the entry with the same id of known_findings.json."""
    byid = {}
    for f in ctx.findings:
        byid[f['id']] = f
    ctx.findings = list(byid.values())


def run(ctx):
    _latest_findings(ctx)
    ok = ctx.build_gate(['C20'])
    ctx.trusted += [
        'harness/props/c20.py, c20_gen.py, c20_run.py, c20_writer.py: generator, export of real pandas objects to Gallina terms, classification',
        'harness/lib/coqterm.py printers',
        'pandas.read_table(sep=\\s+, engine=c, float_precision=round_trip) as described by Model.read_frame (validated by the correspondence)',
        'harness/props/c20_lst.py: lst writer / generator / observation of NONMEMResultsFile',
    ]
    ctx.assumptions += [
        'ASCII files; numbers within the binary64 normal range; pandas is an engine described by an executable contract (tokens, NA strings, column typing), inputs outside the contract are counted inconclusive',
        'np.linalg.inv / eig / svd (LAPACK) are not modelled: the relations cov*coi = I and cor = D^-1 cov D^-1 are checked on the outputs by exact rational arithmetic with a stated tolerance',
        'the .lst parser (results_file.py) is modelled for the fixed-format facts (C20/Lst.v: termination, covariance status, estimation time, method, version gate); parse_runtime (dates, total run time) and log_items are not; at run level covstatus is still an input of the model',
        'the subproblem argument is modelled and tied for results._parse_phi only (C20/Sub.v, positional tables[k-1]); for the ext readers (_parse_ofv, _parse_parameter_estimates, _parse_table_numbers: filter on the title field Subproblem=) and for _parse_grd / _parse_ets it is not',
        'math.sqrt in triangular_root is a float engine: exact for every argument 2x < 2^52 and for every triangular number below 2^53 (checked in the tie); the model uses the integer square root',
    ]
    ctx.coverage['source_sha'] = source_sha('src/pharmpy/tools/external/nonmem/results_file.py',
                                            'src/pharmpy/model/external/nonmem/table.py',
                                            'src/pharmpy/tools/external/nonmem/results.py',
                                            'src/pharmpy/internals/math.py', 'src/pharmpy/modeling/math.py')
    ctx.log('build gate done')
    R.generated_tables(ctx)
    finding_probes(ctx)
    ctx.log('finding probes done')
    reg = sorted((VERIF / 'regress' / 'C20').glob('*.json'))
    regs = [json.loads(p.read_text()) for p in reg]
    nf = 150 if ctx.tier == "quick" else 1500
    nr = 48 if ctx.tier == "quick" else 450
    nl = 60 if ctx.tier == 'quick' else 500
    fspecs = [s for s in regs if s.get('level') not in ('run', 'lst')] + [G.gen_fspec(ctx.rng) for _ in range(nf)]
    rspecs = [s for s in regs if s.get('level') == 'run'] + [G.gen_rspec(ctx.rng) for _ in range(nr)]
    lspecs = [s for s in regs if s.get('level') == 'lst'] + [L.gen_lspec(ctx.rng) for _ in range(nl)]
    verdicts, infos, stats = run_fspecs(ctx, fspecs, 'files')
    ctx.log('file level done')
    rverdicts, rinfos, rstats = R.run_rspecs(ctx, rspecs, 'runs')
    ctx.log('run level done')
    lverdicts, linfos, lstats = L.run_lspecs(ctx, lspecs, 'lst')
    ctx.log('lst level done')
    R.float_engine_checks(ctx)
    ctx.coverage['evaluations'] = len(fspecs) + len(rspecs) + len(lspecs)
    distinct = {file_text(s) for s in fspecs if len(file_text(s)) > 200} | {json.dumps(s, sort_keys=True) for s in rspecs} | {L.lst_text(s) for s in lspecs}
    ctx.coverage['distinct_nontrivial'] = len(distinct)
    ctx.coverage['programs'] = len(fspecs) + len(rspecs) + len(lspecs)
    ctx.coverage['rule'] = ('table files (ext/phi/cov/cor/coi/$TABLE) rendered by the reference writer for random parameter '
                            'configurations (1-6 thetas, omega/sigma blocks, fixed entries, 1-3 estimation steps, special iteration '
                            'codes, repeated headers, several tables, CRLF) plus a malformed stream (text mutations), .lst files (termination, '
                            'covariance status, run time lines; 40 % mutated), and run '
                            'directories read by read_modelfit_results; non-trivial = more than 200 characters; distinct by file text')
    ctx.coverage['case_status'] = {'files': stats, 'runs': rstats, 'lst': lstats}
    kinds = {}
    for s in fspecs:
        key = (s['suffix'] or 'table') + ('/raw' if s.get('raw') is not None else '')
        kinds[key] = kinds.get(key, 0) + 1
    ctx.coverage['input_distribution'] = {
        'file_kinds': kinds,
        'file_sizes': {'min': min(i['size'] for i in infos), 'max': max(i['size'] for i in infos)},
        'impl_errors': sum(1 for i in infos if i['errors']),
        'inconclusive_files': sum(1 for v in verdicts if any(t >= 1000 for t in v)),
        'guard_final_obj_differs': sum(1 for v in verdicts if 201 in v),
        'without_iteration_0': sum(1 for v in verdicts if 202 in v),
        'table_without_label_line': sum(1 for v in verdicts if 203 in v),
        'written_files': sum(1 for s in fspecs if s.get('raw') is None),
        'in_domain_of_parse_render_theorem': sum(1 for v in verdicts if 210 in v),
        'fortran_three_digit_exponent': sum(1 for v in verdicts if 206 in v),
        'run_dirs': R.distribution(rspecs, rverdicts, rinfos),
        'lst_files': {'n': len(lspecs), 'malformed': sum(1 for i in linfos if i['raw']),
                      'impl_raises': sum(1 for i in linfos if i['exc']),
                      'in_domain_of_parse_render_lst': sum(1 for v in lverdicts if 211 in v)},
    }
    ctx.coverage['samples'] = ([{'spec': _short(s), 'tags': v} for s, v in list(zip(fspecs, verdicts))[-3:]]
                               + [{'spec': _short(s), 'tags': v} for s, v in list(zip(rspecs, rverdicts))[-2:]])
    shutil.rmtree(ctx.rundir / 'files', ignore_errors=True)
    shutil.rmtree(ctx.rundir / 'lst', ignore_errors=True)


def _short(spec):
    s = json.dumps(spec)
    return spec if len(s) < 3000 else {'truncated_json': s[:3000]}


def replay(ctx, rep):
    _latest_findings(ctx)
    spec = rep['spec']
    if spec.get('level') == 'lst':
        tags = L.run_lspecs(ctx, [spec], 'replay', quiet=True)[0][0]
        names = L.LTAGS
    elif spec.get('level') == 'run':
        tags = R.run_rspecs(ctx, [spec], 'replay', quiet=True)[0][0]
        names = R.RTAGS
    else:
        tags = run_fspecs(ctx, [spec], 'replay', quiet=True)[0][0]
        names = FTAGS
    print('spec', json.dumps(spec)[:2000])
    print('tags', tags, [names.get(t, t) for t in tags])
    return 1 if any(t < 200 for t in tags) else 0
