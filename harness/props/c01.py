"""C01 — reading a NONMEM model preserves its meaning (NM-TRAN -> model IR).

Model: coq/theories/C01 (Model.v: abbreviated-code AST, NM-TRAN reference semantics nm_body, translate =
model of code_record._parse_tree, guards; NONMEM ADVAN/TRANS specification; _find_rates).
Theorems: Properties.v / Refuted.v, plus the obligations regenerated from advan.py on every run
(harness/props/c01_tadvan.py -> build/gen/C01/AdvanTables.v, AdvanObligations.v).
Tie: (1) random abbreviated-code programs are printed into a control stream, read by the real
read_model_from_string, model.statements exported; Coq compares translate(prog) with them (correspondence) and
the NM-TRAN reference semantics with their execution (the property itself);  (2) the ast translator for the
ADVAN/TRANS tables + structure;  (3) real control streams for every ADVAN/TRANS compared with the NONMEM
specification inside Coq;  (4) parameter records against a reference reading of the record text."""
import json
import random
import re
from fractions import Fraction as F

from harness.lib import coqterm as ct
from harness.lib import sym2coq as sc
from harness.lib.core import VERIF, source_sha

LEVEL = 'proof'

PROG_SYMS = ['A', 'B', 'C', 'X', 'Z', 'W', 'P', 'Q']
LEAVES = ['THETA(1)', 'THETA(2)', 'THETA(3)', 'ETA(1)', 'ETA(2)', 'WGT', 'APGR', 'TIME']
ALIAS = {'THETA_1': 'THETA(1)', 'THETA_2': 'THETA(2)', 'THETA_3': 'THETA(3)', 'ETA_1': 'ETA(1)',
         'ETA_2': 'ETA(2)', 'EPS_1': 'EPS(1)'}
VALUES = [F(1), F(2), F(4), F(1, 2), F(-1), F(-2), F(3), F(8), F(0), F(5, 2)]
IMPORTS = 'Base.PyData Base.Expr Base.Interp Base.Stmts C01.Model C01.Check'

TAGS = {
    1: 'model.statements differs from the model of _parse_tree (translate)',
    2: 'sequence of assigned symbols differs from the model of _parse_tree',
    11: 'a symbol defined by the NM-TRAN reference semantics has another value in the model that was read',
    21: 'internal: guard true but translate differs from the reference (contradicts translate_sound)',
}
GUARD_FINDING = {201: 'C01-BLOCK-NESTED-DROPPED', 202: 'C01-BLOCK-ASSIGNED-TWICE',
                 203: 'C01-BLOCK-STALE-READ', 204: 'C01-BLOCK-BRANCH-COVER'}

# reference meaning of the intrinsic functions: name -> (arity, Interp id) ; synonyms as in the grammar
FN1 = {'EXP': 1, 'DEXP': 1, 'LOG': 2, 'ALOG': 2, 'DLOG': 2, 'SQRT': 3, 'DSQRT': 3, 'ABS': 4, 'DABS': 4,
       'INT': 15, 'DINT': 15, 'SIN': 9, 'DSIN': 9, 'COS': 10, 'DCOS': 10, 'TAN': 11, 'ASIN': 12, 'ATAN': 14}
PROTECTED = ['PEXP', 'PSQRT', 'PNG', 'PHE', 'PNP', 'PZR']
SMALLZ = '(28#' + '1' + '0' * 104 + ')%Q'     # 2.8E-103 exactly


class CNames(ct.Names):
    def get(self, name):
        name = str(name)
        return super().get(ALIAS.get(name, name))


def fresh_names():
    n = CNames()
    for s in PROG_SYMS + ['Y']:
        n.get(s)
    n.next = 11
    for s in LEAVES + ['EPS(1)']:
        n.get(s)
    return n


# ------------------------------------------------------------------ reference meaning (AST -> Gallina)
def num_q(txt):
    t = txt.upper().replace('D', 'E')
    return F(t)


def ref_expr(e, names):
    k = e[0]
    if k == 'num':
        return f"(Num {ct.q(num_q(e[1]))})"
    if k == 'sym':
        return f"(Sym {names.p(e[1])})"
    if k == 'neg':
        return f"(Neg {ref_expr(e[1], names)})"
    if k == 'bin':
        a, b = ref_expr(e[2], names), ref_expr(e[3], names)
        op = e[1]
        if op == '+':
            return f"(Add {a} {b})"
        if op == '-':
            return f"(Add {a} (Neg {b}))"
        if op == '*':
            return f"(Mul {a} {b})"
        if op == '/':
            return f"(Div {a} {b})"
        if op == '**':
            return f"(Fn2 5%positive {a} {b})"
    if k == 'fn':
        name = e[1]
        args = [ref_expr(a, names) for a in e[2:]]
        if name in FN1:
            return f"(Fn1 {FN1[name]}%positive {args[0]})"
        if name in ('MOD', 'DMOD'):
            return f"(Fn2 20%positive {args[0]} {args[1]})"       # Fortran MOD
        x = args[0]
        # NONMEM's protected functions (NONMEM guide, "protected functions"; part of the trusted specification)
        if name == 'PEXP':    # EXP(x) for x <= 100, EXP(100) above
            return f"(PwCons (CRel OGt {x} (Num (100#1)%Q)) (Fn1 1%positive (Num (100#1)%Q)) (Fn1 1%positive {x}))"
        if name == 'PSQRT':   # 0 for x < 0
            return f"(PwCons (CRel OLt {x} (Num (0#1)%Q)) (Num (0#1)%Q) (Fn1 3%positive {x}))"
        if name == 'PNG':     # 0 for x < 0, x otherwise
            return f"(PwCons (CRel OLt {x} (Num (0#1)%Q)) (Num (0#1)%Q) {x})"
        if name == 'PHE':     # 100 for x > 100
            return f"(PwCons (CRel OGt {x} (Num (100#1)%Q)) (Num (100#1)%Q) {x})"
        if name == 'PNP':     # SMALLZ for x < SMALLZ
            return f"(PwCons (CRel OLt {x} (Num {SMALLZ})) (Num {SMALLZ}) {x})"
        if name == 'PZR':     # SMALLZ for |x| < SMALLZ
            return f"(PwCons (CRel OLt (Fn1 4%positive {x}) (Num {SMALLZ})) (Num {SMALLZ}) {x})"
    raise ValueError(f'bad expr {e}')


RELOP = {'lt': 'OLt', 'le': 'OLe', 'gt': 'OGt', 'ge': 'OGe', 'eq': 'OEq', 'ne': 'ONe'}


def ref_cond(c, names):
    k = c[0]
    if k == 'rel':
        return f"(CRel {RELOP[c[1]]} {ref_expr(c[2], names)} {ref_expr(c[3], names)})"
    if k == 'and':
        return f"(CAnd {ref_cond(c[1], names)} {ref_cond(c[2], names)})"
    if k == 'or':
        return f"(COr {ref_cond(c[1], names)} {ref_cond(c[2], names)})"
    if k == 'not':
        return f"(CNot {ref_cond(c[1], names)})"
    raise ValueError(f'bad cond {c}')


def ref_body(stmts, names):
    r = 'BNil'
    for s in reversed(stmts):
        r = f"(BCons {ref_stmt(s, names)} {r})"
    return r


def ref_stmt(s, names):
    k = s[0]
    if k == 'asg':
        return f"(NAssign {names.p(s[1])} {ref_expr(s[2], names)})"
    if k == 'if':
        return f"(NIf {ref_cond(s[1], names)} {names.p(s[2])} {ref_expr(s[3], names)})"
    if k == 'blk':
        brs = 'BrNil'
        for c, body in reversed(s[1]):
            brs = f"(BrCons {ref_cond(c, names)} {ref_body(body, names)} {brs})"
        return f"(NBlock {brs} {ref_body(s[2] or [], names)})"
    raise ValueError(f'bad stmt {s}')


# ------------------------------------------------------------------ printer (AST -> NM-TRAN text)
class Printer:
    """Minimal-parenthesis Fortran printer with layout noise.  Never prints a sign directly in front of a numeric
    literal that is the base of ** (see finding C01-SIGNED-LITERAL-POWER) unless raw=True."""

    def __init__(self, rng, noise=True, raw=False):
        self.rng = rng
        self.noise = noise
        self.raw = raw

    def coin(self, p=0.5):
        return self.noise and self.rng.random() < p

    def sp(self):
        return ' ' if self.coin(0.3) else ''

    def name(self, n):
        return n.lower() if self.coin(0.15) else n

    # precedence: 1 add, 2 mul, 3 sign, 4 pow, 5 atom
    def expr(self, e, ctx=1, right_of_op=False):
        k = e[0]
        if k == 'num':
            s, p = e[1], 5
        elif k == 'sym':
            s, p = self.name(e[1]), 5
        elif k == 'fn':
            s, p = self.name(e[1]) + '(' + ','.join(self.expr(a, 1) for a in e[2:]) + ')', 5
        elif k == 'neg':
            inner = e[1]
            danger = (inner[0] == 'bin' and inner[1] == '**' and inner[2][0] == 'num') and not self.raw
            if danger:
                body = '(' + self.expr(inner, 1) + ')'
            else:
                body = self.expr(inner, 4)
            s, p = '-' + body, 3
            if right_of_op:       # never `A*-B`: Fortran wants parentheses
                p = 0
        elif k == 'bin':
            op = e[1]
            if op in '+-':
                s = self.expr(e[2], 1) + self.sp() + op + self.cont() + self.sp() + self.expr(e[3], 2, True)
                p = 1
            elif op in '*/':
                s = self.expr(e[2], 2, right_of_op) + self.sp() + op + self.sp() + self.expr(e[3], 4, True)
                p = 2
            else:
                ex = e[3]
                if ex[0] == 'neg' and self.coin(0.5) and not (ex[1][0] == 'bin'):
                    exs = self.expr(ex, 3)        # A**-2
                else:
                    exs = self.expr(ex, 4, True)  # right associative
                s = self.expr(e[2], 5) + '**' + exs
                p = 4
        else:
            raise ValueError(e)
        if p < ctx or (p == 5 and k != 'num' and self.coin(0.05)):
            s = '(' + s + ')'
        return s

    def cont(self):
        return ' &\n   ' if self.coin(0.04) else ''

    REL = {'lt': ('.LT.', '<'), 'le': ('.LE.', '<='), 'gt': ('.GT.', '>'), 'ge': ('.GE.', '>='),
           'eq': ('.EQ.', '=='), 'ne': ('.NE.', '/=')}

    def cond(self, c, ctx=1):
        k = c[0]
        if k == 'rel':
            a, b = self.REL[c[1]]
            op = b if self.coin(0.35) else a     # (lower-case .ge. after a digit is refused by the reader)
            return self.expr(c[2], 1) + self.sp() + op + self.sp() + self.expr(c[3], 1)
        if k == 'not':
            assert c[1][0] == 'rel'
            return '.NOT.' + self.sp() + self.cond(c[1])
        if k == 'and':
            assert c[1][0] != 'or' and c[2][0] not in ('or', 'and')
            return self.cond(c[1]) + self.sp() + '.AND.' + self.sp() + self.cond(c[2])
        if k == 'or':
            assert c[2][0] != 'or'
            return self.cond(c[1]) + self.sp() + '.OR.' + self.sp() + self.cond(c[2])
        raise ValueError(c)

    def comment(self):
        return ' ; ' + self.rng.choice(['note', 'IF (X) THEN', 'a = 1', 'ELSE']) if self.coin(0.08) else ''

    def lines(self, stmts, ind):
        out = []
        pad = ' ' * ind
        for s in stmts:
            if self.coin(0.05):
                out.append('')
            if self.coin(0.04):
                out.append(pad + '; comment line')
            k = s[0]
            if k == 'asg':
                eq = ' = ' if self.coin(0.6) else '='
                out.append(pad + self.name(s[1]) + eq + self.expr(s[2]) + self.comment())
            elif k == 'if':
                eq = ' = ' if self.coin(0.6) else '='
                out.append(pad + self.kw('IF') + ' (' + self.cond(s[1]) + ') ' + self.name(s[2]) + eq + self.expr(s[3])
                           + self.comment())
            else:
                for i, (c, body) in enumerate(s[1]):
                    if i == 0:
                        head = self.kw('IF')
                    else:
                        head = self.kw('ELSEIF') if self.coin(0.5) else self.kw('ELSE') + ' ' + self.kw('IF')
                    out.append(pad + head + ' (' + self.cond(c) + ') ' + self.kw('THEN') + self.comment())
                    out += self.lines(body, ind + (2 if self.noise else 0))
                if s[2] is not None:
                    out.append(pad + self.kw('ELSE'))
                    out += self.lines(s[2], ind + (2 if self.noise else 0))
                out.append(pad + (self.kw('ENDIF') if self.coin(0.5) else self.kw('END') + ' ' + self.kw('IF')))
        return out

    def kw(self, w):
        return w.lower() if self.coin(0.1) else w


def print_code(spec):
    if spec.get('code') is not None:
        return spec['code']
    rng = random.Random(f"layout-{spec.get('layout', 0)}")
    pr = Printer(rng, noise=spec.get('noise', True), raw=spec.get('raw', False))
    return '\n'.join(pr.lines(spec['prog'], 0))


def control_stream(code):
    return ("$PROBLEM c01\n$INPUT ID TIME DV WGT APGR\n$DATA c01.csv IGNORE=@\n$PRED\n" + code + "\n"
            "$THETA 1\n$THETA 2\n$THETA 3\n$OMEGA 0.1\n$OMEGA 0.1\n$SIGMA 1\n")


# ------------------------------------------------------------------ generator
NUMS = ['0', '1', '2', '3', '4', '0.5', '1.5', '2.0', '0.25', '2.5D0', '5E-1']


class Gen:
    def __init__(self, rng):
        self.rng = rng

    def atom(self, syms, leaf_only=False):
        r = self.rng.random()
        if r < 0.2:
            return ['num', self.rng.choice(NUMS)]
        if r < 0.6 or not syms or leaf_only:
            return ['sym', self.rng.choice(LEAVES)]
        return ['sym', self.rng.choice(syms)]

    def leaf(self):
        return ['sym', self.rng.choice(LEAVES)]

    def rat(self, syms, depth):
        """rational arithmetic only: + - * / integer powers (conditions are built from these)"""
        rng = self.rng
        if depth == 0 or rng.random() < 0.35:
            return self.atom(syms)
        k = rng.choice(['+', '+', '-', '*', '*', '/', '**', 'neg'])
        if k == 'neg':
            return ['neg', self.rat(syms, depth - 1)]
        if k == '/':
            den = self.leaf() if rng.random() < 0.7 else ['num', rng.choice(['2', '4', '0.5'])]
            return ['bin', '/', self.rat(syms, depth - 1), den]
        if k == '**':
            base = self.atom(syms) if rng.random() < 0.6 else self.rat(syms, depth - 1)
            if rng.random() < 0.15:
                return ['bin', '**', self.leaf(), ['neg', ['num', rng.choice(['1', '2'])]]]
            if rng.random() < 0.1:   # right associativity
                return ['bin', '**', base, ['bin', '**', ['num', '2'], ['num', rng.choice(['1', '2'])]]]
            return ['bin', '**', base, ['num', rng.choice(['2', '3'])]]
        return ['bin', k, self.rat(syms, depth - 1), self.rat(syms, depth - 1)]

    def fnarg(self, syms):
        """arguments of transcendental functions always contain a symbol and no numeric factor"""
        rng = self.rng
        a = ['sym', rng.choice(LEAVES + syms)] if syms and rng.random() < 0.4 else self.leaf()
        r = rng.random()
        if r < 0.6:
            return a
        b = self.leaf()
        while b == a:        # a+a folds to 2*a, sqrt(2*a) to sqrt(2)*sqrt(a): outside the exact interpretation
            b = self.leaf()
        return ['bin', rng.choice(['+', '*', '-']), a, b]

    def expr(self, syms, depth):
        rng = self.rng
        if depth == 0 or rng.random() < 0.3:
            return self.atom(syms)
        r = rng.random()
        if r < 0.22:
            name = rng.choice(list(FN1) + PROTECTED)
            return ['fn', name, self.fnarg(syms)]
        if r < 0.8:
            k = rng.choice(['+', '-', '*'])
            return ['bin', k, self.expr(syms, depth - 1), self.expr(syms, depth - 1)]
        return self.rat(syms, depth)

    def rel(self, syms):
        rng = self.rng
        lhs = ['sym', rng.choice(LEAVES + syms)] if rng.random() < 0.6 else self.rat(syms or [], 1)
        if lhs[0] == 'num':
            lhs = self.leaf()
        rhs = ['num', rng.choice(['0', '1', '2', '3', '0.5'])] if rng.random() < 0.6 else self.rat(syms, 1)
        if rhs == lhs:
            rhs = ['num', '1']
        r = ['rel', rng.choice(['lt', 'le', 'gt', 'ge', 'gt', 'lt', 'eq', 'ne']), lhs, rhs]
        return ['not', r] if rng.random() < 0.12 else r

    def cond(self, syms):
        rng = self.rng
        r = rng.random()
        if r < 0.6:
            return self.rel(syms)
        if r < 0.8:
            return ['and', self.rel(syms), self.rel(syms)]
        if r < 0.92:
            return ['or', self.rel(syms), self.rel(syms)]
        return ['or', ['and', self.rel(syms), self.rel(syms)], self.rel(syms)]

    # ---- statements
    def guarded_block(self, defined, solid):
        """a block IF satisfying g_flat, g_once, g_cond_fresh, g_cover; its conditions read only leaves and
        symbols that certainly have a value (so that the reference semantics is defined at most sample points)"""
        rng = self.rng
        k = rng.choice([1, 1, 2, 2, 3])
        targets = rng.sample(PROG_SYMS, k)
        readable = [s for s in defined if s not in targets]
        creadable = [s for s in solid if s not in targets]
        nbr = rng.choice([1, 1, 2, 2, 3])
        has_else = rng.random() < 0.5
        sets = []
        cur = list(targets)
        for i in range(nbr + (1 if has_else else 0)):
            if i > 0 and rng.random() < 0.3 and len(cur) > 1:
                cur = rng.sample(cur, len(cur) - 1)
            sets.append(list(cur))
        if rng.random() < 0.07:      # the special-cased empty IF + ELSE
            return ['blk', [[self.cond(creadable), []]],
                    [['asg', t, self.expr(readable + ([t] if t in defined else []), 2)] for t in targets]], targets
        branches = []
        for i in range(nbr):
            ts = list(sets[i])
            rng.shuffle(ts)
            branches.append([self.cond(creadable),
                             [['asg', t, self.expr(readable + ([t] if t in defined else []), 2)] for t in ts]])
        els = None
        if has_else:
            ts = list(sets[-1])
            rng.shuffle(ts)
            els = [['asg', t, self.expr(readable + ([t] if t in defined else []), 2)] for t in ts]
        return ['blk', branches, els], targets

    def free_block(self, defined, depth):
        rng = self.rng
        nbr = rng.choice([1, 1, 2, 3])
        branches = [[self.cond(defined), self.free_body(defined, rng.choice([0, 1, 1, 2, 3]), depth + 1)]
                    for _ in range(nbr)]
        els = self.free_body(defined, rng.choice([0, 1, 2]), depth + 1) if rng.random() < 0.5 else None
        return ['blk', branches, els]

    def free_body(self, defined, n, depth):
        rng = self.rng
        out = []
        for _ in range(n):
            r = rng.random()
            t = rng.choice(PROG_SYMS[:5])
            if r < 0.7 or depth >= 2:
                out.append(['asg', t, self.expr(defined, 2)])
            elif r < 0.85:
                out.append(['if', self.cond(defined), t, self.expr(defined, 1)])
            else:
                out.append(self.free_block(defined, depth))
        return out

    def program(self):
        rng = self.rng
        mode = rng.choice(['guarded', 'guarded', 'guarded', 'free', 'free'])
        n = rng.choice([2, 3, 4, 5, 6, 7, 8])
        defined = []
        solid = []          # assigned unconditionally by rational arithmetic over leaves / solid symbols
        prog = []
        for _ in range(n):
            if count_stmts(prog) >= 13:
                break
            r = rng.random()
            if r < 0.45:
                t = rng.choice(PROG_SYMS)
                if rng.random() < 0.4:
                    prog.append(['asg', t, self.rat([x for x in solid if x != t], 2)])
                    if t not in solid:
                        solid.append(t)
                else:
                    prog.append(['asg', t, self.expr(defined, rng.choice([1, 2, 2, 3]))])
                    if t in solid:
                        solid.remove(t)
                new = [t]
            elif r < 0.65:
                t = rng.choice(PROG_SYMS if rng.random() < 0.4 or not defined else defined)
                prog.append(['if', self.cond(solid if mode == 'guarded' else defined), t, self.expr(defined, 2)])
                if t in solid:
                    solid.remove(t)
                new = [t]
            elif mode == 'guarded':
                b, new = self.guarded_block(defined, solid)
                solid = [x for x in solid if x not in new]
                prog.append(b)
            else:
                b = self.free_block(defined, 0)
                prog.append(b)
                new = assigned_of([b])
                solid = [x for x in solid if x not in new]
            for t in new:
                if t not in defined:
                    defined.append(t)
        ysum = ['sym', 'EPS(1)']
        for t in defined[:4]:
            ysum = ['bin', '+', ['sym', t], ysum]
        prog.append(['asg', 'Y', ysum])
        return {'prog': prog, 'layout': rng.randrange(10 ** 9), 'mode': mode}


def count_stmts(stmts):
    n = 0
    for s in stmts:
        n += 1
        if s[0] == 'blk':
            for _, b in s[1]:
                n += count_stmts(b)
            n += count_stmts(s[2] or [])
    return n


def assigned_of(stmts):
    out = []
    for s in stmts:
        if s[0] == 'asg':
            out.append(s[1])
        elif s[0] == 'if':
            out.append(s[2])
        else:
            for _, b in s[1]:
                out += assigned_of(b)
            out += assigned_of(s[2] or [])
    return out


def depth_of(stmts):
    d = 0
    for s in stmts:
        if s[0] == 'blk':
            d = max(d, 1 + max([depth_of(b) for _, b in s[1]] + [depth_of(s[2] or [])]))
    return d


def gen_points(rng):
    pts = []
    for _ in range(8):
        pts.append({n: rng.choice(VALUES) for n in LEAVES + ['EPS(1)']})
    return pts


# ------------------------------------------------------------------ implementation side
class Refused(Exception):
    pass


def read_statements(code):
    from pharmpy.modeling import read_model_from_string
    try:
        return read_model_from_string(control_stream(code))
    except Exception as e:        # the real reader refuses the text
        raise Refused(f'{type(e).__name__}: {str(e)[:120]}')


def observe(spec, prng, mutate=None):
    """Run the real reader on the printed program; returns (coq case term, info)."""
    from pharmpy.model import Assignment
    names = fresh_names()
    code = print_code(spec)
    model = read_statements(code)
    impl = []
    for st in model.statements:
        if not isinstance(st, Assignment):
            raise sc.Unconvertible('non-assignment statement')
        impl.append(f"(Assign {names.p(str(sc.to_sympy(st.symbol)))} {sc.expr(st.expression, names)})")
    if mutate:
        impl = mutate(impl)
    body = ref_body(spec['prog'], names)
    envs = ct.lst([sc.env(p, names) for p in gen_points(prng)])
    term = "(mkCase " + body + "\n  " + ct.lst(impl) + "\n  " + envs + ")"
    info = {'code': code, 'n': count_stmts(spec['prog']), 'depth': depth_of(spec['prog']), 'nimpl': len(impl)}
    return term, info


def run_specs(ctx, specs, label, mutate=None):
    terms, kept, infos = [], [], []
    skipped = {'unconvertible': 0, 'refused': 0}
    prng = random.Random(f'{ctx.seed}-{label}-pts')
    for spec in specs:
        try:
            term, info = observe(spec, prng, mutate)
        except sc.Unconvertible as e:
            skipped['unconvertible'] += 1
            ctx.coverage.setdefault('unconvertible_kinds', {}).setdefault(str(e), 0)
            ctx.coverage['unconvertible_kinds'][str(e)] += 1
            continue
        except Refused as e:
            skipped['refused'] += 1
            ctx.coverage.setdefault('refused_samples', [])
            if len(ctx.coverage['refused_samples']) < 3:
                ctx.coverage['refused_samples'].append({'code': print_code(spec), 'error': str(e)})
            continue
        terms.append(term)
        kept.append(spec)
        infos.append(info)
    verdicts = ctx.run_cases(label, IMPORTS, 'case', terms, 'verdict', shard=60) if terms else []
    return kept, verdicts, infos, skipped


def classify(ctx, spec, tags, info):
    tags = set(tags)
    corr = sorted(t for t in tags if t in (1, 2))
    false_guards = [g for g in (201, 202, 203, 204) if g in tags]
    status = 'ok'
    if 21 in tags:
        ctx.broken.append('C01/Check.v internal inconsistency (tag 21) on ' + json.dumps(spec['prog']))
        return 'broken'
    if 11 in tags:
        explained = not corr
        fids = [GUARD_FINDING[g] for g in false_guards if ctx.open_finding(GUARD_FINDING[g])]
        if explained and false_guards and len(fids) == len(false_guards):
            for fid in fids:
                ctx.coverage.setdefault('known_hits', {}).setdefault(fid, 0)
                ctx.coverage['known_hits'][fid] += 1
            status = 'known'
        else:
            ctx.violation(TAGS[11], {'spec': spec, 'code': info['code'], 'tags': sorted(tags),
                                     'tag_meaning': TAGS[11], 'kind': 'code'})
            return 'violation'
    if corr:
        ctx.broken.append('correspondence C01 translate vs code_record._parse_tree: '
                          + ', '.join(TAGS[t] for t in corr) + ' on ' + json.dumps(info['code']))
        ctx.coverage.setdefault('corr_disagreements', []).append({'spec': spec, 'code': info['code'], 'tags': sorted(tags)})
        return 'broken'
    return status


FINDING_KINDS = {}


def finding_probes(ctx):
    """Replay the stored witness of every open finding on the real code."""
    for f in ctx.findings:
        if f.get('status') != 'open':
            continue
        w = f['witness']
        kind = w.get('kind', 'code')
        try:
            tags = FINDING_KINDS[kind](ctx, w, 'finding-' + f['id'])
        except Exception as e:   # the witness can no longer be run: not reproduced
            ctx.notes.append(f"finding_not_reproduced {f['id']} ({type(e).__name__}: {e})")
            continue
        if f['expect_tag'] in tags:
            ctx.known(f['id'])
        else:
            ctx.notes.append(f"finding_not_reproduced {f['id']} (tags {sorted(tags)})")


def probe_code(ctx, w, label):
    kept, verdicts, infos, skipped = run_specs(ctx, [w], label)
    return set(verdicts[0]) if verdicts else set()


FINDING_KINDS['code'] = probe_code


def run_code(ctx):
    reg = sorted((VERIF / 'regress' / 'C01').glob('code-*.json'))
    specs = [json.loads(p.read_text()) for p in reg]
    nreg = len(specs)
    n = 320 if ctx.tier == 'quick' else 5000
    g = Gen(ctx.rng)
    specs += [g.program() for _ in range(n)]
    kept, verdicts, infos, skipped = run_specs(ctx, specs, 'code')
    stats = {'ok': 0, 'known': 0, 'violation': 0, 'broken': 0}
    for spec, tags, info in zip(kept, verdicts, infos):
        stats[classify(ctx, spec, tags, info)] += 1
    cov = ctx.coverage
    cov['code_programs'] = len(kept)
    cov['code_regress'] = nreg
    cov['code_case_status'] = stats
    cov['skipped_unconvertible'] = cov.get('skipped_unconvertible', 0) + skipped['unconvertible']
    cov['refused_by_reader'] = skipped['refused']
    cov['evaluations'] += sum(i['nimpl'] * 8 * 2 for i in infos)
    distinct = {i['code'] for i in infos if i['n'] >= 3}
    cov['distinct_nontrivial'] += len(distinct)
    cov['inconclusive_subchecks'] = sum(1 for v in verdicts for t in v if t in (1001, 1011))
    cov.setdefault('input_distribution', {})['code'] = {
        'statements_hist': {str(k): sum(1 for i in infos if i['n'] == k) for k in sorted({i['n'] for i in infos})},
        'nesting_hist': {str(k): sum(1 for i in infos if i['depth'] == k) for k in sorted({i['depth'] for i in infos})},
        'mode': {m: sum(1 for s in kept if s.get('mode') == m) for m in ('guarded', 'free')},
        'guard_true': sum(1 for v in verdicts if not any(t in v for t in (201, 202, 203, 204))),
        'g_flat_false': sum(1 for v in verdicts if 201 in v),
        'g_once_false': sum(1 for v in verdicts if 202 in v),
        'g_cond_fresh_false': sum(1 for v in verdicts if 203 in v),
        'g_cover_false': sum(1 for v in verdicts if 204 in v),
        'model_deviates_from_reference': sum(1 for v in verdicts if 301 in v),
        'oracle_failures_known': stats['known'],
        'with_else': sum(1 for s in kept if any(st[0] == 'blk' and st[2] is not None for st in s['prog'])),
        'with_elseif': sum(1 for s in kept if any(st[0] == 'blk' and len(st[1]) > 1 for st in s['prog'])),
        'with_logical_if': sum(1 for s in kept if any(st[0] == 'if' for st in s['prog'])),
    }
    cov['samples'] += [{'code': i['code'], 'tags': v} for i, v in list(zip(infos, verdicts))[nreg:nreg + 3]]


def run(ctx):
    ctx.build_gate(['C01'])
    ctx.trusted += [
        'harness/lib/sym2coq.py + coqterm.py (conversion of real sympy trees to Gallina terms)',
        'harness/props/c01.py: generator, Fortran printer of the generated programs (minimal parentheses by the '
        'NM-TRAN/Fortran precedence rules), reference reading of numeric literals, classification',
        'Base/Interp.v + C01/Check.v exact interpretation of exp/log/sqrt/pow/Fortran MOD used only for comparing by evaluation',
        'SPECIFICATION (coq/theories/C01/Model.v): NM-TRAN abbreviated-code reference semantics nm_body; NONMEM '
        'ADVAN/TRANS definitions nonmem_rates/nonmem_struct written from the NONMEM users guide',
    ]
    ctx.assumptions += [
        'sympy canonicalisation is an engine: statements are exported after construction and compared by exact evaluation over Q',
        'the lark LALR grammar acceptance set is not modelled: expressions are tied by evaluation of printed random expressions',
        'integrating the ODE system is not covered: compartmental systems are compared as systems (flows, rates)',
        'a never-assigned symbol is undefined in the reference semantics (NONMEM would use an unspecified value); such outputs are excluded',
        'integer constants denote reals (NM-TRAN converts constants in abbreviated code to double precision)',
        'not covered: LOG10/PLOG/PLOG10/PDZ/GAMLN/PHI (no exact rational interpretation), DO WHILE, verbatim code, EXIT/CALL, $MIX, PRIOR',
    ]
    ctx.coverage['source_sha'] = source_sha('src/pharmpy/model/external/nonmem/records/code_record.py',
                                            'src/pharmpy/model/external/nonmem/advan.py',
                                            'src/pharmpy/model/external/nonmem/parsing.py')
    finding_probes(ctx)
    run_code(ctx)
    ctx.coverage['rule'] = ('abbreviated code: random programs (<= 14 statements, nesting <= 2, 8 program symbols, '
                            'THETA/ETA/data leaves, intrinsic + protected functions, layout noise) from VERIF_SEED; '
                            'non-trivial = at least 3 statements; distinct by printed text')


def replay(ctx, rep):
    kind = rep.get('kind', 'code')
    tags = FINDING_KINDS[kind](ctx, rep.get('spec', rep), 'replay')
    print('tags', sorted(tags), [TAGS.get(t, t) for t in sorted(tags)])
    return 1 if any(t in tags for t in (1, 2, 11, 21)) else 0
