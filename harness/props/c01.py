"""C01 — reading a NONMEM model preserves its meaning (NM-TRAN -> model IR).

Model: coq/theories/C01 (Model.v: abbreviated-code AST, NM-TRAN reference semantics nm_body, translate =
model of code_record._parse_tree, guards; NONMEM ADVAN/TRANS specification; _find_rates).
Theorems: Properties.v / Refuted.v, plus the obligations regenerated from advan.py on every run
(harness/props/c01_tadvan.py -> build/gen/C01/AdvanTables.v, AdvanObligations.v).
Tie: (1) random abbreviated-code programs are printed into a control stream, read by the real
read_model_from_string, model.statements exported; Coq compares translate(prog) with them (correspondence) and
the NM-TRAN reference semantics with their execution (the property itself);  (2) the ast translator for the
ADVAN/TRANS tables + structure;  (3) real control streams for every ADVAN/TRANS compared with the NONMEM
specification inside Coq;  (4) parameter records against a reference reading of the record text."""
import json
import random
import re
from fractions import Fraction as F

from harness.lib import coqterm as ct
from harness.lib import sym2coq as sc
from harness.lib.core import VERIF, source_sha

LEVEL = 'proof'

PROG_SYMS = ['A', 'B', 'C', 'X', 'Z', 'W', 'P', 'Q']
LEAVES = ['THETA(1)', 'THETA(2)', 'THETA(3)', 'ETA(1)', 'ETA(2)', 'WGT', 'APGR', 'TIME']
ALIAS = {'THETA_1': 'THETA(1)', 'THETA_2': 'THETA(2)', 'THETA_3': 'THETA(3)', 'ETA_1': 'ETA(1)',
         'ETA_2': 'ETA(2)', 'EPS_1': 'EPS(1)'}
# no zero: sympy merges branches with equal values into one condition `c1 | c2`, and Base/Expr.v evaluates Or/And
# strictly, so a division by a zero leaf inside an unreached condition would make the merged condition undefined
VALUES = [F(1), F(2), F(4), F(1, 2), F(-1), F(-2), F(3), F(8), F(-3), F(5, 2)]
IMPORTS = 'Base.PyData Base.Expr Base.Interp Base.Stmts C01.Model C01.Parser C01.Check'

TAGS = {
    1: 'model.statements differs from the model of _parse_tree (translate)',
    2: 'sequence of assigned symbols differs from the model of _parse_tree',
    11: 'a symbol defined by the NM-TRAN reference semantics has another value in the model that was read',
    21: 'internal: guard true but translate differs from the reference (contradicts translate_sound)',
}
GUARD_FINDING = {201: 'C01-BLOCK-NESTED-DROPPED', 202: 'C01-BLOCK-ASSIGNED-TWICE',
                 203: 'C01-BLOCK-STALE-READ', 204: 'C01-BLOCK-BRANCH-COVER'}
GUARDS = (201, 202, 203, 204)

# reference meaning of the intrinsic functions: name -> (arity, Interp id) ; synonyms as in the grammar
FN1 = {'EXP': 1, 'DEXP': 1, 'LOG': 2, 'ALOG': 2, 'DLOG': 2, 'SQRT': 3, 'DSQRT': 3, 'ABS': 4, 'DABS': 4,
       'INT': 15, 'DINT': 15, 'SIN': 9, 'DSIN': 9, 'COS': 10, 'DCOS': 10, 'TAN': 11, 'ASIN': 12, 'ATAN': 14}
PROTECTED = ['PEXP', 'PSQRT', 'PNG', 'PHE', 'PLOG', 'PLOG10']     # expanded by funcs.py into a clamping Piecewise
# (PNP/PZR/PDZ are modelled too but not generated: their constant SMALLZ = 2.8E-103 is absorbed by sympy's float folding)
PROT_ID = {'PEXP': 31, 'PLOG': 32, 'LOG10': 33, 'DLOG10': 33, 'ALOG10': 33, 'PLOG10': 34, 'PSQRT': 35, 'PNG': 36,
           'PHE': 37, 'PNP': 38, 'PZR': 39, 'PDZ': 40}
LOG10S = ['LOG10', 'DLOG10', 'ALOG10']
FN_ID = dict(FN1, MOD=20, DMOD=20, **PROT_ID)


class CNames(ct.Names):
    def get(self, name):
        name = str(name)
        return super().get(ALIAS.get(name, name))


def fresh_names():
    n = CNames()
    for s in PROG_SYMS + ['Y']:
        n.get(s)
    n.next = 11
    for s in LEAVES + ['EPS(1)']:
        n.get(s)
    return n


# ------------------------------------------------------------------ reference meaning (AST -> Gallina)
def num_q(txt):
    t = txt.upper().replace('D', 'E')
    return F(t)


def ref_expr(e, names):
    k = e[0]
    if k == 'num':
        return f"(Num {ct.q(num_q(e[1]))})"
    if k == 'sym':
        return f"(Sym {names.p(e[1])})"
    if k == 'neg':
        return f"(Neg {ref_expr(e[1], names)})"
    if k == 'bin':
        a, b = ref_expr(e[2], names), ref_expr(e[3], names)
        op = e[1]
        if op == '+':
            return f"(Add {a} {b})"
        if op == '-':
            return f"(Add {a} (Neg {b}))"
        if op == '*':
            return f"(Mul {a} {b})"
        if op == '/':
            return f"(Div {a} {b})"
        if op == '**':
            return f"(Fn2 5%positive {a} {b})"
    if k == 'fn':
        name = e[1]
        args = [ref_expr(a, names) for a in e[2:]]
        if name in FN1:
            return f"(Fn1 {FN1[name]}%positive {args[0]})"
        if name in ('MOD', 'DMOD'):
            return f"(Fn2 20%positive {args[0]} {args[1]})"       # Fortran MOD
        if name in PROT_ID:       # uninterpreted symbol; the clamp rule is C01/Model.v:template
            return f"(Fn1 {PROT_ID[name]}%positive {args[0]})"
    raise ValueError(f'bad expr {e}')


RELOP = {'lt': 'OLt', 'le': 'OLe', 'gt': 'OGt', 'ge': 'OGe', 'eq': 'OEq', 'ne': 'ONe'}


def ref_cond(c, names):
    k = c[0]
    if k == 'rel':
        return f"(CRel {RELOP[c[1]]} {ref_expr(c[2], names)} {ref_expr(c[3], names)})"
    if k == 'and':
        return f"(CAnd {ref_cond(c[1], names)} {ref_cond(c[2], names)})"
    if k == 'or':
        return f"(COr {ref_cond(c[1], names)} {ref_cond(c[2], names)})"
    if k == 'not':
        return f"(CNot {ref_cond(c[1], names)})"
    raise ValueError(f'bad cond {c}')


def ref_body(stmts, names):
    r = 'BNil'
    for s in reversed(stmts):
        r = f"(BCons {ref_stmt(s, names)} {r})"
    return r


def ref_stmt(s, names):
    k = s[0]
    if k == 'asg':
        return f"(NAssign {names.p(s[1])} {ref_expr(s[2], names)})"
    if k == 'if':
        return f"(NIf {ref_cond(s[1], names)} {names.p(s[2])} {ref_expr(s[3], names)})"
    if k == 'blk':
        brs = 'BrNil'
        for c, body in reversed(s[1]):
            brs = f"(BrCons {ref_cond(c, names)} {ref_body(body, names)} {brs})"
        return f"(NBlock {brs} {ref_body(s[2] or [], names)})"
    raise ValueError(f'bad stmt {s}')


# ------------------------------------------------------------------ printer (AST -> NM-TRAN text)
class TokPrinter:
    """AST -> token list (minimal parentheses by the Fortran precedence rules).  The MEANING of the tokens is decided by
    the reference parser in Coq (C01/Parser.v), not by this printer.  Never prints a sign directly in front of a numeric
    literal that is the base of ** (finding C01-SIGNED-LITERAL-POWER) unless raw=True."""

    def __init__(self, rng, noise=True, raw=False):
        self.rng = rng
        self.noise = noise
        self.raw = raw

    def coin(self, p=0.5):
        return self.noise and self.rng.random() < p

    # precedence: 1 add, 2 mul, 3 sign, 4 pow, 5 atom
    def expr(self, e, ctx=1, right_of_op=False):
        k = e[0]
        if k == 'num':
            t, p = [('num', e[1])], 5
        elif k == 'sym':
            t, p = [('id', e[1])], 5
        elif k == 'fn':
            t = [('fn', e[1]), 'lp']
            for i, a in enumerate(e[2:]):
                if i:
                    t.append('comma')
                t += self.expr(a, 1)
            t.append('rp')
            p = 5
        elif k == 'neg':
            inner = e[1]
            danger = (inner[0] == 'bin' and inner[1] == '**' and inner[2][0] == 'num') and not self.raw
            body = (['lp'] + self.expr(inner, 1) + ['rp']) if danger else self.expr(inner, 4)
            t, p = ['-'] + body, 3
            if right_of_op:       # never `A*-B`: Fortran wants parentheses
                p = 0
        elif k == 'bin':
            op = e[1]
            if op in '+-':
                t, p = self.expr(e[2], 1) + [op] + self.expr(e[3], 2, True), 1
            elif op in '*/':
                t, p = self.expr(e[2], 2, right_of_op) + [op] + self.expr(e[3], 4, True), 2
            else:
                ex = e[3]
                if ex[0] == 'neg' and self.coin(0.5) and not (ex[1][0] == 'bin'):
                    exs = self.expr(ex, 3)        # A**-2
                else:
                    exs = self.expr(ex, 4, True)  # right associative
                t, p = self.expr(e[2], 5) + ['**'] + exs, 4
        else:
            raise ValueError(e)
        if p < ctx or (p == 5 and k != 'num' and self.coin(0.05)):
            t = ['lp'] + t + ['rp']
        return t

    def cond(self, c):
        k = c[0]
        if k == 'rel':
            return self.expr(c[2], 1) + [('rel', c[1])] + self.expr(c[3], 1)
        if k == 'not':
            assert c[1][0] == 'rel'
            return ['not'] + self.cond(c[1])
        if k == 'and':
            assert c[1][0] != 'or' and c[2][0] not in ('or', 'and')
            return self.cond(c[1]) + ['and'] + self.cond(c[2])
        if k == 'or':
            assert c[2][0] != 'or'
            return self.cond(c[1]) + ['or'] + self.cond(c[2])
        raise ValueError(c)

    def body(self, stmts):
        out = []
        for s in stmts:
            k = s[0]
            if k == 'asg':
                out += [('id', s[1]), '='] + self.expr(s[2]) + ['nl']
            elif k == 'if':
                out += ['if', 'lp'] + self.cond(s[1]) + ['rp', ('id', s[2]), '='] + self.expr(s[3]) + ['nl']
            else:
                for i, (c, b) in enumerate(s[1]):
                    out += ['if' if i == 0 else 'elseif', 'lp'] + self.cond(c) + ['rp', 'then', 'nl'] + self.body(b)
                if s[2] is not None:
                    out += ['else', 'nl'] + self.body(s[2])
                out += ['endif', 'nl']
        return out


REL_TEXT = {'lt': ('.LT.', '<'), 'le': ('.LE.', '<='), 'gt': ('.GT.', '>'), 'ge': ('.GE.', '>='),
            'eq': ('.EQ.', '=='), 'ne': ('.NE.', '/=')}
TOK_TEXT = {'lp': '(', 'rp': ')', 'comma': ',', '+': '+', '-': '-', '*': '*', '/': '/', '**': '**', 'not': '.NOT.',
            'and': '.AND.', 'or': '.OR.', '=': '='}


def render(tokens, rng, noise=True):
    """tokens -> control-stream text.  One token = one lexeme; only layout is added (blanks, case, continuation
    lines, comments, blank lines, indentation, the two spellings of relational operators / ELSEIF / ENDIF)."""
    def coin(p):
        return noise and rng.random() < p
    lines, cur, depth, line_start = [], '', 0, True
    prev = None
    for t in tokens:
        if t == 'nl':
            if coin(0.08):
                cur += ' ; ' + rng.choice(['note', 'IF (X) THEN', 'a = 1', 'ELSE'])
            lines.append(cur)
            if coin(0.05):
                lines.append('')
            if coin(0.04):
                lines.append(' ' * (2 * depth) + '; comment line')
            cur, line_start, prev = '', True, None
            continue
        if t in ('else', 'elseif', 'endif'):
            depth -= 1
        if t in ('if', 'then', 'else', 'elseif', 'endif'):
            txt = {'if': 'IF', 'then': 'THEN', 'else': 'ELSE',
                   'elseif': 'ELSEIF' if coin(0.5) else 'ELSE IF', 'endif': 'ENDIF' if coin(0.5) else 'END IF'}[t]
            if coin(0.1):
                txt = txt.lower()
        elif isinstance(t, tuple) and t[0] == 'rel':
            a, b = REL_TEXT[t[1]]
            txt = b if coin(0.35) else a       # (lower-case .ge. after a digit is refused by the reader)
        elif isinstance(t, tuple):
            txt = t[1].lower() if (t[0] in ('id', 'fn') and coin(0.15)) else t[1]
        else:
            txt = TOK_TEXT[t]
        if line_start:
            cur = (' ' * (2 * depth) if noise else '') + txt
            line_start = False
        else:
            need_blank = (prev in ('if', 'then', 'else', 'elseif') or t == 'then'
                          or (prev == 'rp' and isinstance(t, tuple) and t[0] == 'id'))
            glue = ' ' if (need_blank or coin(0.3)) else ''
            if coin(0.012) and prev not in ('if', 'elseif') and t != 'then':
                glue = ' &\n    '
            cur += glue + txt
        if t in ('then', 'else'):
            depth += 1
        prev = t
    if cur:
        lines.append(cur)
    return '\n'.join(lines)


def tok_term(tokens, names):
    out = []
    for t in tokens:
        if isinstance(t, tuple):
            if t[0] == 'num':
                out.append(f"TNum {ct.q(num_q(t[1]))}")
            elif t[0] == 'id':
                out.append(f"TId {names.p(t[1])}")
            elif t[0] == 'fn':
                out.append(f"TFn {FN_ID[t[1]]}%positive")
            else:
                out.append(f"TRel {RELOP[t[1]]}")
        else:
            out.append({'lp': 'TLp', 'rp': 'TRp', 'comma': 'TComma', '+': 'TPlus', '-': 'TMinus', '*': 'TStar', '/': 'TSlash',
                        '**': 'TPow', 'not': 'TNot', 'and': 'TAnd', 'or': 'TOr', '=': 'TAssign', 'if': 'TIf', 'then': 'TThen',
                        'else': 'TElse', 'elseif': 'TElseIf', 'endif': 'TEndIf', 'nl': 'TNl'}[t])
    return ct.lst(out)


def print_tokens(spec):
    rng = random.Random(f"layout-{spec.get('layout', 0)}")
    return TokPrinter(rng, noise=spec.get('noise', True), raw=spec.get('raw', False)).body(spec['prog'])


def print_code(spec):
    if spec.get('code') is not None:
        return spec['code']
    rng = random.Random(f"render-{spec.get('layout', 0)}")
    return render(print_tokens(spec), rng, noise=spec.get('noise', True))


def control_stream(code):
    return ("$PROBLEM c01\n$INPUT ID TIME DV WGT APGR\n$DATA c01.csv IGNORE=@\n$PRED\n" + code + "\n"
            "$THETA 1\n$THETA 2\n$THETA 3\n$OMEGA 0.1\n$OMEGA 0.1\n$SIGMA 1\n")


# ------------------------------------------------------------------ generator
NUMS = ['0', '1', '2', '3', '4', '0.5', '1.5', '2.0', '0.25', '2.5D0', '5E-1']


class Gen:
    def __init__(self, rng):
        self.rng = rng

    def atom(self, syms, leaf_only=False):
        r = self.rng.random()
        if r < 0.2:
            return ['num', self.rng.choice(NUMS)]
        if r < 0.6 or not syms or leaf_only:
            return ['sym', self.rng.choice(LEAVES)]
        return ['sym', self.rng.choice(syms)]

    def leaf(self):
        return ['sym', self.rng.choice(LEAVES)]

    def rat(self, syms, depth):
        """rational arithmetic only: + - * / integer powers (conditions are built from these)"""
        rng = self.rng
        if depth == 0 or rng.random() < 0.35:
            return self.atom(syms)
        k = rng.choice(['+', '+', '-', '*', '*', '/', '**', 'neg'])
        if k == 'neg':
            return ['neg', self.rat(syms, depth - 1)]
        if k == '/':
            den = self.leaf() if rng.random() < 0.7 else ['num', rng.choice(['2', '4', '0.5'])]
            return ['bin', '/', self.rat(syms, depth - 1), den]
        if k == '**':
            base = self.atom(syms) if rng.random() < 0.6 else self.rat(syms, depth - 1)
            if rng.random() < 0.15:
                return ['bin', '**', self.leaf(), ['neg', ['num', rng.choice(['1', '2'])]]]
            if rng.random() < 0.1:   # right associativity
                return ['bin', '**', base, ['bin', '**', ['num', '2'], ['num', rng.choice(['1', '2'])]]]
            return ['bin', '**', base, ['num', rng.choice(['2', '3'])]]
        return ['bin', k, self.rat(syms, depth - 1), self.rat(syms, depth - 1)]

    def fnarg(self, syms, compound=False):
        """arguments of transcendental functions always contain a symbol and no numeric factor"""
        rng = self.rng
        a = ['sym', rng.choice(LEAVES + syms)] if syms and rng.random() < 0.4 else self.leaf()
        r = rng.random()
        if r < 0.6 and not compound:
            return a
        b = self.leaf()
        while b == a:        # a+a folds to 2*a, sqrt(2*a) to sqrt(2)*sqrt(a): outside the exact interpretation
            b = self.leaf()
        return ['bin', rng.choice(['+', '*', '-']), a, b]

    def expr(self, syms, depth):
        rng = self.rng
        if depth == 0 or rng.random() < 0.3:
            return self.atom(syms)
        r = rng.random()
        if r < 0.03:
            # the divisor is a power of two: MOD(x, y) is read as x - y*INT(x/y) and x/3 with a float literal in x is rounded
            return ['fn', rng.choice(['MOD', 'MOD', 'DMOD']), self.rat(syms, 1), ['num', rng.choice(['2', '4'])]]
        if r < 0.22:
            name = rng.choice(list(FN1) + PROTECTED + LOG10S[:2])
            # protected functions expand to a Piecewise which sympy folds into the enclosing Piecewise with a
            # conjunction of conditions; evaluation of conjunctions is strict in Base/Expr.v, so their arguments
            # are kept always-defined (leaves only)
            # sqrt(a)*a is rewritten to a**(3/2): SQRT only of a compound argument
            return ['fn', name, self.fnarg([] if name in PROTECTED else syms, compound=name in ('SQRT', 'DSQRT', 'PSQRT'))]
        if r < 0.8:
            k = rng.choice(['+', '-', '*'])
            return ['bin', k, self.expr(syms, depth - 1), self.expr(syms, depth - 1)]
        return self.rat(syms, depth)

    def rel(self, syms):
        rng = self.rng
        lhs = ['sym', rng.choice(LEAVES + syms)] if rng.random() < 0.6 else self.rat(syms or [], 1)
        if lhs[0] == 'num':
            lhs = self.leaf()
        rhs = ['num', rng.choice(['0', '1', '2', '3', '0.5'])] if rng.random() < 0.6 else self.rat(syms, 1)
        if rhs == lhs:
            rhs = ['num', '1']
        r = ['rel', rng.choice(['lt', 'le', 'gt', 'ge', 'gt', 'lt', 'eq', 'ne']), lhs, rhs]
        return ['not', r] if rng.random() < 0.12 else r

    def cond(self, syms):
        rng = self.rng
        r = rng.random()
        if r < 0.6:
            return self.rel(syms)
        if r < 0.8:
            return ['and', self.rel(syms), self.rel(syms)]
        if r < 0.92:
            return ['or', self.rel(syms), self.rel(syms)]
        return ['or', ['and', self.rel(syms), self.rel(syms)], self.rel(syms)]

    # ---- statements
    def guarded_block(self, defined, solid):
        """a block IF satisfying g_flat, g_once, g_cond_fresh, g_cover; its conditions read only leaves and
        symbols that certainly have a value (so that the reference semantics is defined at most sample points)"""
        rng = self.rng
        k = rng.choice([1, 1, 2, 2, 3])
        targets = rng.sample(PROG_SYMS, k)
        readable = [s for s in defined if s not in targets]
        creadable = [s for s in solid if s not in targets]
        nbr = rng.choice([1, 1, 2, 2, 3])
        has_else = rng.random() < 0.5
        sets = []
        cur = list(targets)
        for i in range(nbr + (1 if has_else else 0)):
            if i > 0 and rng.random() < 0.3 and len(cur) > 1:
                cur = rng.sample(cur, len(cur) - 1)
            sets.append(list(cur))
        if rng.random() < 0.07:      # the special-cased empty IF + ELSE
            return ['blk', [[self.cond(creadable), []]],
                    [['asg', t, self.expr(readable + ([t] if t in defined else []), 2)] for t in targets]], targets
        branches = []
        for i in range(nbr):
            ts = list(sets[i])
            rng.shuffle(ts)
            branches.append([self.cond(creadable),
                             [['asg', t, self.expr(readable + ([t] if t in defined else []), 2)] for t in ts]])
        els = None
        if has_else:
            ts = list(sets[-1])
            rng.shuffle(ts)
            els = [['asg', t, self.expr(readable + ([t] if t in defined else []), 2)] for t in ts]
        return ['blk', branches, els], targets

    def free_block(self, defined, depth):
        rng = self.rng
        nbr = rng.choice([1, 1, 2, 3])
        branches = [[self.cond(defined), self.free_body(defined, rng.choice([0, 1, 1, 2, 3]), depth + 1)]
                    for _ in range(nbr)]
        els = self.free_body(defined, rng.choice([0, 1, 2]), depth + 1) if rng.random() < 0.5 else None
        return ['blk', branches, els]

    def free_body(self, defined, n, depth):
        rng = self.rng
        out = []
        for _ in range(n):
            r = rng.random()
            t = rng.choice(PROG_SYMS[:5])
            if r < 0.7 or depth >= 2:
                out.append(['asg', t, self.expr(defined, 2)])
            elif r < 0.85:
                out.append(['if', self.cond(defined), t, self.expr(defined, 1)])
            else:
                out.append(self.free_block(defined, depth))
        return out

    def program(self):
        rng = self.rng
        mode = rng.choice(['guarded', 'guarded', 'guarded', 'free', 'free'])
        n = rng.choice([2, 3, 4, 5, 6, 7, 8])
        defined = []
        solid = []          # assigned unconditionally by rational arithmetic over leaves / solid symbols
        prog = []
        for _ in range(n):
            if count_stmts(prog) >= 13:
                break
            r = rng.random()
            if r < 0.45:
                t = rng.choice(PROG_SYMS)
                if rng.random() < 0.4:
                    prog.append(['asg', t, self.rat([x for x in solid if x != t], 2)])
                    if t not in solid:
                        solid.append(t)
                else:
                    prog.append(['asg', t, self.expr(defined, rng.choice([1, 2, 2, 3]))])
                    if t in solid:
                        solid.remove(t)
                new = [t]
            elif r < 0.65:
                t = rng.choice(PROG_SYMS if rng.random() < 0.4 or not defined else defined)
                prog.append(['if', self.cond(solid if mode == 'guarded' else defined), t, self.expr(defined, 2)])
                if t in solid:
                    solid.remove(t)
                new = [t]
            elif mode == 'guarded':
                b, new = self.guarded_block(defined, solid)
                solid = [x for x in solid if x not in new]
                prog.append(b)
            else:
                b = self.free_block(defined, 0)
                prog.append(b)
                new = assigned_of([b])
                solid = [x for x in solid if x not in new]
            for t in new:
                if t not in defined:
                    defined.append(t)
        ysum = ['sym', 'EPS(1)']
        for t in defined[:4]:
            ysum = ['bin', '+', ['sym', t], ysum]
        prog.append(['asg', 'Y', ysum])
        return {'prog': prog, 'layout': rng.randrange(10 ** 9), 'mode': mode}


def exhaustive_blocks():
    """every program  pre ; IF (c1) THEN b1 [ELSEIF (c2) THEN b2] [ELSE e] ENDIF ; Y  with bodies over the four
    assignments A=1, A=A+1, B=2, B=A (b1: length <= 2, b2 and e: length <= 1) and three prefixes"""
    import itertools
    A, B = ['sym', 'A'], ['sym', 'B']
    asg = [['asg', 'A', ['num', '1']], ['asg', 'A', ['bin', '+', A, ['num', '1']]], ['asg', 'B', ['num', '2']], ['asg', 'B', A]]
    bodies2 = [[]] + [[a] for a in asg] + [[a, b] for a in asg for b in asg]
    bodies1 = [[]] + [[a] for a in asg]
    c1 = ['rel', 'gt', ['sym', 'THETA(1)'], ['num', '1']]
    c2 = ['rel', 'gt', ['sym', 'THETA(2)'], ['num', '1']]
    pres = [[], [['asg', 'A', ['num', '5']]], [['asg', 'A', ['num', '5']], ['asg', 'B', ['num', '6']]]]
    y = ['asg', 'Y', ['bin', '+', A, ['bin', '+', B, ['sym', 'EPS(1)']]]]
    pts = [{'THETA(1)': a, 'THETA(2)': b} for a in ('2', '1/2') for b in ('2', '1/2')]
    for pre, b1, els in itertools.product(pres, bodies2, [None] + bodies1):
        for b2 in [None] + bodies1:
            brs = [[c1, b1]] + ([[c2, b2]] if b2 is not None else [])
            yield {'prog': pre + [['blk', brs, els], y], 'noise': False, 'points': pts, 'mode': 'exhaustive'}


def count_stmts(stmts):
    n = 0
    for s in stmts:
        n += 1
        if s[0] == 'blk':
            for _, b in s[1]:
                n += count_stmts(b)
            n += count_stmts(s[2] or [])
    return n


def assigned_of(stmts):
    out = []
    for s in stmts:
        if s[0] == 'asg':
            out.append(s[1])
        elif s[0] == 'if':
            out.append(s[2])
        else:
            for _, b in s[1]:
                out += assigned_of(b)
            out += assigned_of(s[2] or [])
    return out


def depth_of(stmts):
    d = 0
    for s in stmts:
        if s[0] == 'blk':
            d = max(d, 1 + max([depth_of(b) for _, b in s[1]] + [depth_of(s[2] or [])]))
    return d


def gen_points(rng):
    pts = []
    for _ in range(8):
        pts.append({n: rng.choice(VALUES) for n in LEAVES + ['EPS(1)']})
    return pts


# ------------------------------------------------------------------ implementation side
class Refused(Exception):
    pass


def read_statements(code):
    from pharmpy.modeling import read_model_from_string
    try:
        return read_model_from_string(control_stream(code))
    except Exception as e:        # the real reader refuses the text
        raise Refused(f'{type(e).__name__}: {str(e)[:120]}')


def observe(spec, prng, mutate=None):
    """Run the real reader on the printed program; returns (coq case term, info)."""
    from pharmpy.model import Assignment
    names = fresh_names()
    code = print_code(spec)
    model = read_statements(code)
    impl = []
    for st in model.statements:
        if not isinstance(st, Assignment):
            raise sc.Unconvertible('non-assignment statement')
        impl.append(f"(Assign {names.p(str(sc.to_sympy(st.symbol)))} {sc.expr(st.expression, names)})")
    if mutate:
        impl = mutate(impl)
    if spec.get('code') is None:
        # the program is what the REFERENCE PARSER (C01/Parser.v) makes of the printed tokens
        prog_fields = "true " + tok_term(print_tokens(spec), names) + " BNil"
    else:
        prog_fields = "false [] " + ref_body(spec['prog'], names)
    pts = gen_points(prng)
    if spec.get('points'):
        pts = [{k: F(v) for k, v in p.items()} for p in spec['points']] + pts[:2]
        pts = [dict({n: F(1) for n in LEAVES + ['EPS(1)']}, **p) for p in pts]
    envs = ct.lst([sc.env(p, names) for p in pts])
    term = "(mkCase " + prog_fields + "\n  " + ct.lst(impl) + "\n  " + envs + ")"
    info = {'code': code, 'n': count_stmts(spec['prog']), 'depth': depth_of(spec['prog']), 'nimpl': len(impl),
            'points': [{k: str(v) for k, v in p.items()} for p in pts]}
    return term, info


def run_specs(ctx, specs, label, mutate=None):
    terms, kept, infos = [], [], []
    skipped = {'unconvertible': 0, 'refused': 0}
    prng = random.Random(f'{ctx.seed}-{label}-pts')
    for spec in specs:
        try:
            term, info = observe(spec, prng, mutate)
        except sc.Unconvertible as e:
            skipped['unconvertible'] += 1
            ctx.coverage.setdefault('unconvertible_kinds', {}).setdefault(str(e), 0)
            ctx.coverage['unconvertible_kinds'][str(e)] += 1
            continue
        except Refused as e:
            skipped['refused'] += 1
            ctx.coverage.setdefault('refused_samples', [])
            if len(ctx.coverage['refused_samples']) < 3:
                ctx.coverage['refused_samples'].append({'code': print_code(spec), 'error': str(e)})
            continue
        terms.append(term)
        kept.append(spec)
        infos.append(info)
    verdicts = ctx.run_cases(label, IMPORTS, 'case', terms, 'verdict', shard=60) if terms else []
    return kept, verdicts, infos, skipped


def classify(ctx, spec, tags, info):
    tags = set(tags)
    corr = sorted(t for t in tags if t in (1, 2))
    false_guards = [g for g in GUARDS if g in tags]
    status = 'ok'
    if 1091 in tags:
        ctx.broken.append('the reference parser (C01/Parser.v) refuses the tokens printed for ' + json.dumps(info['code']))
        return 'broken'
    if 21 in tags:
        ctx.broken.append('C01/Check.v internal inconsistency (tag 21) on ' + json.dumps(spec['prog']))
        return 'broken'
    if 11 in tags:
        explained = not corr
        fids = [GUARD_FINDING[g] for g in false_guards if ctx.open_finding(GUARD_FINDING[g])]
        if explained and false_guards and len(fids) == len(false_guards):
            for fid in fids:
                ctx.coverage.setdefault('known_hits', {}).setdefault(fid, 0)
                ctx.coverage['known_hits'][fid] += 1
            status = 'known'
        else:
            ctx.violation(TAGS[11], {'spec': dict(spec, points=info['points'], code=info['code']), 'code': info['code'], 'tags': sorted(tags),
                                     'tag_meaning': TAGS[11], 'kind': 'code'})
            return 'violation'
    if corr:
        ctx.broken.append('correspondence C01 translate vs code_record._parse_tree: '
                          + ', '.join(TAGS[t] for t in corr) + ' on ' + json.dumps(info['code']))
        ctx.coverage.setdefault('corr_disagreements', []).append({'spec': spec, 'code': info['code'], 'tags': sorted(tags)})
        return 'broken'
    return status


FINDING_KINDS = {}


def finding_probes(ctx):
    """Replay the stored witness of every open finding on the real code."""
    for f in ctx.findings:
        if f.get('status') != 'open':
            continue
        w = f['witness']
        kind = w.get('kind', 'code')
        try:
            tags = FINDING_KINDS[kind](ctx, w, 'finding-' + f['id'])
        except Exception as e:   # the witness can no longer be run: not reproduced
            ctx.notes.append(f"finding_not_reproduced {f['id']} ({type(e).__name__}: {e})")
            continue
        if f['expect_tag'] in tags:
            ctx.known(f['id'])
        else:
            ctx.notes.append(f"finding_not_reproduced {f['id']} (tags {sorted(tags)})")


def probe_code(ctx, w, label):
    kept, verdicts, infos, skipped = run_specs(ctx, [w], label)
    return set(verdicts[0]) if verdicts else set()


FINDING_KINDS['code'] = probe_code


def run_code(ctx):
    reg = sorted((VERIF / 'regress' / 'C01').glob('code-*.json'))
    specs = [json.loads(p.read_text()) for p in reg]
    nreg = len(specs)
    n = 260 if ctx.tier == 'quick' else 1500
    g = Gen(ctx.rng)
    if ctx.tier != 'quick':
        exh = list(exhaustive_blocks())
        specs += exh
        nreg += len(exh)
        ctx.coverage['exhaustive_block_programs'] = len(exh)
    while len(specs) < nreg + n:
        sp = g.program()
        if count_stmts(sp['prog']) <= 14:
            specs.append(sp)
    kept, verdicts, infos, skipped = run_specs(ctx, specs, 'code')
    stats = {'ok': 0, 'known': 0, 'violation': 0, 'broken': 0}
    for spec, tags, info in zip(kept, verdicts, infos):
        stats[classify(ctx, spec, tags, info)] += 1
    cov = ctx.coverage
    cov['code_programs'] = len(kept)
    cov['code_regress'] = nreg
    cov['code_case_status'] = stats
    cov['skipped_unconvertible'] = cov.get('skipped_unconvertible', 0) + skipped['unconvertible']
    cov['refused_by_reader'] = skipped['refused']
    cov['evaluations'] += sum(i['nimpl'] * 8 * 2 for i in infos)
    distinct = {i['code'] for i in infos if i['n'] >= 3}
    cov['distinct_nontrivial'] += len(distinct)
    cov['inconclusive_subchecks'] = sum(1 for v in verdicts for t in v if t in (1001, 1011))
    cov.setdefault('input_distribution', {})['code'] = {
        'statements_hist': {str(k): sum(1 for i in infos if i['n'] == k) for k in sorted({i['n'] for i in infos})},
        'nesting_hist': {str(k): sum(1 for i in infos if i['depth'] == k) for k in sorted({i['depth'] for i in infos})},
        'mode': {m: sum(1 for s in kept if s.get('mode') == m) for m in ('guarded', 'free')},
        'guard_true': sum(1 for v in verdicts if not any(t in v for t in GUARDS)),
        'programs_with_mod': sum(1 for i in infos if 'MOD(' in i['code'].upper()),
        'g_flat_false': sum(1 for v in verdicts if 201 in v),
        'g_once_false': sum(1 for v in verdicts if 202 in v),
        'g_cond_fresh_false': sum(1 for v in verdicts if 203 in v),
        'g_cover_false': sum(1 for v in verdicts if 204 in v),
        'model_deviates_from_reference': sum(1 for v in verdicts if 301 in v),
        'oracle_failures_known': stats['known'],
        'with_else': sum(1 for s in kept if any(st[0] == 'blk' and st[2] is not None for st in s['prog'])),
        'with_elseif': sum(1 for s in kept if any(st[0] == 'blk' and len(st[1]) > 1 for st in s['prog'])),
        'with_logical_if': sum(1 for s in kept if any(st[0] == 'if' for st in s['prog'])),
    }
    cov['samples'] += [{'code': i['code'], 'tags': v} for i, v in list(zip(infos, verdicts))[nreg:nreg + 3]]


# ====================================================================================================
# ADVAN / TRANS tables: translator + regenerated obligations
# ====================================================================================================
TRANS56 = 'C01-TRANS56-UNDEFINED'


def coqc_gen(path, gendir):
    from harness.lib import core
    return core.coqc_file(path, extra_q=[(gendir, 'C01Gen')])


def run_advan(ctx):
    from harness.lib import core
    from harness.props import c01_tadvan as T
    gendir = ctx.rundir / 'gen'
    gendir.mkdir(parents=True, exist_ok=True)
    pub = core.BUILD / 'gen' / 'C01'
    pub.mkdir(parents=True, exist_ok=True)
    cov = ctx.coverage
    try:
        tables, structs, skipped, sha = T.translate(core.REPO)
    except T.Refuse as e:
        print(f'TRANSLATOR-REFUSED T-advan: {e}', flush=True)
        ctx.broken.append(f'TRANSLATOR-REFUSED T-advan (advan.py has a shape the translator does not know): {e}')
        return
    cov['translator_sha'] = {'T-advan': sha}
    cov['translator_skipped'] = skipped
    (gendir / 'AdvanTables.v').write_text(T.emit_tables(tables, structs, sha))
    rc, out = coqc_gen(gendir / 'AdvanTables.v', gendir)
    if rc != 0:
        ctx.broken.append('regenerated AdvanTables.v does not compile: ' + out[-400:])
        return
    expect = set()
    if ctx.open_finding(TRANS56):
        expect = {(a, ti) for a in T.VALID for ti in T.VALID[a] if ti in (5, 6)}
    text, names = T.emit_obligations(expect)
    (gendir / 'AdvanObligations.v').write_text(text)
    for f in ('AdvanTables.v', 'AdvanObligations.v'):
        (pub / f).write_text((gendir / f).read_text())
    ctx.obligations += len(names)
    rc, out = coqc_gen(gendir / 'AdvanObligations.v', gendir)
    if rc == 0:
        # assumptions of the regenerated theorems
        f = gendir / 'assum.v'
        f.write_text('From C01Gen Require Import AdvanObligations.\n' + '\n'.join(f'Print Assumptions {n}.' for n in names) + '\n')
        rc2, out2 = coqc_gen(f, gendir)
        closed = out2.count('Closed under the global context')
        if rc2 != 0 or closed != len(names):
            ctx.broken.append(f'regenerated obligations: Print Assumptions not closed ({closed}/{len(names)})')
        ctx.discharged += closed
        cov['regenerated_obligations'] = names
        if expect:
            ctx.known(TRANS56)
        return
    # ---- something no longer holds: find out what, entry by entry
    ctx.log('regenerated obligations failed; checking entry by entry')
    bad, not_reproduced = [], []
    for a in sorted(T.VALID, key=lambda x: int(x[1:])):
        for ti in T.VALID[a]:
            f = gendir / f'ob_{a}_T{ti}.v'
            f.write_text(T.single_obligation(a, ti, True))
            rc, _ = coqc_gen(f, gendir)
            if rc == 0:
                ctx.discharged += 1
                if (a, ti) in expect:
                    not_reproduced.append(f'{a}/TRANS{ti}')
                continue
            if (a, ti) in expect:
                f.write_text(T.single_obligation(a, ti, False))
                rc, _ = coqc_gen(f, gendir)
                if rc == 0:
                    ctx.discharged += 1
                    continue
            bad.append((a, ti))
    if expect and len(not_reproduced) < len(expect):
        ctx.known(TRANS56)
    if not_reproduced:
        ctx.notes.append(f'finding_not_reproduced {TRANS56} for {not_reproduced}')
    f = gendir / 'ob_struct.v'
    f.write_text(T.HEADER + 'Theorem advan_struct_correct : forall a, struct_ok (advan_struct a) (nonmem_struct a) = true.\n'
                 'Proof. intros a. destruct a; vm_compute; reflexivity. Qed.\n')
    rc, _ = coqc_gen(f, gendir)
    if rc == 0:
        ctx.discharged += 1
    else:
        ctx.violation('advan.py: compartment numbering / ALAGn,Fn index / default dose or observation compartment of an '
                      'ADVAN differs from NONMEM (advan_struct_correct no longer holds)',
                      {'kind': 'advan-struct', 'structs': {k: {kk: str(vv) for kk, vv in v.items()} for k, v in structs.items()}})
    # ---- failing numeric input for each bad entry
    for a, ti in bad:
        found = None
        for k in range(12):
            vals = [ctx.rng.choice([2, 3, 5, 7, 11, 13, F(1, 2), F(3, 2), 4, 9]) for _ in T.INPUTS[(a, ti)]]
            m = '[' + '; '.join(f'(s_{n}, {ct.q(v)})' for n, v in zip(T.INPUTS[(a, ti)], vals)) + ']'
            f = gendir / 'search.v'
            f.write_text(T.HEADER + 'From PV Require Import C01.Check.\n'
                         f'Eval vm_compute in (map (fun m => if flows_agree (env_of m) (advan_flows {a} T{ti}) (nonmem_flows {a} T{ti}) then 0 else 1) [{m}]).\n')
            rc, out = coqc_gen(f, gendir)
            if rc == 0 and core.parse_nested_nat_lists(out) == [1]:
                found = dict(zip(T.INPUTS[(a, ti)], [str(v) for v in vals]))
                break
        what = (f'advan.py: rate constants of ADV{a[1:]} TRANS{ti} differ from NONMEM\'s definition '
                f'(regenerated obligation flows_{a}_T{ti} no longer holds)')
        if found:
            ctx.violation(what, {'kind': 'advan-table', 'advan': a, 'trans': ti, 'inputs': found,
                                 'code_flows': T.flows_of(structs[a], tables, f'TRANS{ti}')})
        else:
            ctx.broken.append(what)


# ====================================================================================================
# real control streams for every ADVAN / TRANS
# ====================================================================================================
ADV_IMPORTS = IMPORTS
ADVAN_NAME = {'A1': 'ADVAN1', 'A2': 'ADVAN2', 'A3': 'ADVAN3', 'A4': 'ADVAN4', 'A10': 'ADVAN10', 'A11': 'ADVAN11', 'A12': 'ADVAN12'}
NCOMP = {'A1': 1, 'A2': 2, 'A3': 2, 'A4': 3, 'A10': 1, 'A11': 3, 'A12': 4}
OBSNO = {'A1': 1, 'A2': 2, 'A3': 1, 'A4': 2, 'A10': 1, 'A11': 1, 'A12': 2}


def adv_names():
    from harness.props import c01_tadvan as T
    n = ct.Names()
    def put(name, i):
        n.ids[name] = i
        n.rev[i] = name
    for name, i in T.SYM_ID.items():
        put(name, i)
    for name, i in T.AMOUNTS.items():
        put(f'A_{name}(t)', i)
    put('SC', 140)
    put('S0', 150)
    for k in range(1, 6):
        put(f'S{k}', 140 + k)
        put(f'ALAG{k}', 150 + k)
        put(f'F{k}', 160 + k)
    n.next = 200
    return n


def gen_stream_spec(rng, a, ti):
    from harness.props import c01_tadvan as T
    ins = T.INPUTS[(a, ti)]
    n = NCOMP[a]
    scale = rng.choice(['none', 'obs', 'obs', 'sc', 'other'])
    spec = {'advan': a, 'trans': ti, 'eta_on': rng.randrange(len(ins)), 'scale': scale,
            'alag': sorted(rng.sample(range(1, n + 1), rng.choice([0, 0, 1]) if n >= 1 else 0)),
            'bio': sorted(rng.sample(range(1, n + 1), rng.choice([0, 0, 1]))),
            'explicit_trans': not (ti == 1 and rng.random() < 0.5), 'order': rng.random()}
    return spec


def stream_text(spec):
    from harness.props import c01_tadvan as T
    a, ti = spec['advan'], spec['trans']
    ins = list(T.INPUTS[(a, ti)])
    rng = random.Random(f"stream-{spec['order']}")
    lines, th = [], 0
    order = list(ins)
    rng.shuffle(order)
    for k, name in enumerate(order):
        th += 1
        if ins.index(name) == spec['eta_on']:
            lines.append(f'TV{name} = THETA({th})')
            lines.append(f'{name} = TV{name}*EXP(ETA(1))')
        else:
            lines.append(f'{name} = THETA({th})')
    n = NCOMP[a]
    obs = OBSNO[a]
    vol = next((v for v in ('V', f'V{obs}', 'V1', 'V2') if v in ins), None)
    def rhs():
        nonlocal th
        if vol and rng.random() < 0.6:
            return vol
        th += 1
        return f'THETA({th})'
    if spec['scale'] == 'obs':
        lines.append(f'S{obs} = {rhs()}')
    elif spec['scale'] == 'sc':
        lines.append(f'SC = {rhs()}')
    elif spec['scale'] == 'other':
        other = [k for k in range(1, n + 1) if k != obs]
        if other:
            lines.append(f'S{other[0]} = {rhs()}')
    for k in spec['alag']:
        th += 1
        lines.append(f'ALAG{k} = THETA({th})')
    for k in spec['bio']:
        th += 1
        lines.append(f'F{k} = THETA({th})')
    sub = f"$SUBROUTINE {ADVAN_NAME[a]}" + (f" TRANS{ti}" if spec['explicit_trans'] else '')
    txt = ("$PROBLEM c01\n$INPUT ID TIME AMT DV\n$DATA c01.csv IGNORE=@\n" + sub + "\n$PK\n" + '\n'.join(lines)
           + "\n$ERROR\nY = F + EPS(1)\n" + ''.join(f'$THETA {k + 1}\n' for k in range(th)) + "$OMEGA 0.1\n$SIGMA 1\n")
    return txt, th


def observe_stream(spec, prng, mutate=None):
    from pharmpy.model import Assignment, output
    from pharmpy.modeling import read_model_from_string
    names = adv_names()
    txt, nth = stream_text(spec)
    model = read_model_from_string(txt)
    sts = model.statements
    cs = sts.ode_system
    pk = [f"(Assign {names.p(str(sc.to_sympy(st.symbol)))} {sc.expr(st.expression, names)})" for st in sts.before_odes]
    cmap = model.internals.compartment_map
    comps = [cs.find_compartment(nm) for nm in cs.compartment_names]
    flows = []
    for c1 in comps:
        for c2 in comps + [output]:
            fl = cs.get_flow(c1, c2)
            if fl != 0:
                to = 0 if c2 is output else cmap[c2.name]
                flows.append(f"({ct.nat(cmap[c1.name])}, {ct.nat(to)}, {sc.expr(fl, names)})")
    if mutate:
        flows = mutate(flows)
    amap = ct.lst([f"({k}, {ct.nat(v)})" for k, v in cmap.items()])
    dosecomps = ct.lst([ct.nat(cmap[c.name]) for c in comps if len(c.doses) > 0])
    lag = ct.lst([f"({ct.nat(cmap[c.name])}, {sc.expr(c.lag_time, names)})" for c in comps])
    bio = ct.lst([f"({ct.nat(cmap[c.name])}, {sc.expr(c.bioavailability, names)})" for c in comps])
    fst = [st for st in sts.after_odes if isinstance(st, Assignment) and str(st.symbol) == 'F']
    if len(fst) != 1:
        raise sc.Unconvertible('no single F link statement')
    leaves = [f'THETA_{k + 1}' for k in range(nth)] + ['ETA_1', 'EPS_1', 't', 'AMT'] + [f'A_{c.name}(t)' for c in comps]
    pts = []
    for _ in range(5):
        p = {n: prng.choice([F(1), F(2), F(3), F(5), F(7), F(1, 2), F(4), F(3, 2)]) for n in leaves}
        p['ETA_1'] = prng.choice([F(0), F(1), F(2), F(-1)])
        pts.append(p)
    envs = ct.lst([sc.env(p, names) for p in pts])
    term = (f"(mkACase {spec['advan']} T{spec['trans']} {ct.lst(pk)}\n  {ct.lst(flows)}\n  {amap} {dosecomps}\n  {lag}\n  {bio}\n  "
            f"{sc.expr(fst[0].expression, names)}\n  {envs})")
    return term, {'text': txt}


ADV_TAGS = {41: 'flows of the compartmental system differ from NONMEM\'s ADVAN/TRANS definition',
            42: 'compartment numbering or dose compartment differs from NONMEM\'s ADVAN definition',
            43: 'observation scaling F = A/S differs (Sn of the observation compartment, else SC for central, else none)',
            44: 'lag time / bioavailability of a compartment is not ALAGn / Fn of its NONMEM number'}


def run_stream_specs(ctx, specs, label, mutate=None):
    terms, kept, infos = [], [], []
    prng = random.Random(f'{ctx.seed}-{label}-pts')
    for spec in specs:
        try:
            term, info = observe_stream(spec, prng, mutate)
        except sc.Unconvertible as e:
            ctx.coverage['skipped_unconvertible'] = ctx.coverage.get('skipped_unconvertible', 0) + 1
            continue
        terms.append(term)
        kept.append(spec)
        infos.append(info)
    verdicts = ctx.run_cases(label, ADV_IMPORTS, 'acase', terms, 'verdict_adv', shard=30) if terms else []
    return kept, verdicts, infos


def probe_stream(ctx, w, label):
    kept, verdicts, infos = run_stream_specs(ctx, [w], label)
    return set(verdicts[0]) if verdicts else set()


FINDING_KINDS['stream'] = probe_stream


def run_streams(ctx):
    from harness.props import c01_tadvan as T
    reps = 2 if ctx.tier == 'quick' else 12
    specs = [json.loads(p.read_text()) for p in sorted((VERIF / 'regress' / 'C01').glob('stream-*.json'))]
    for a in sorted(T.VALID, key=lambda x: int(x[1:])):
        for ti in T.VALID[a]:
            for _ in range(reps):
                specs.append(gen_stream_spec(ctx.rng, a, ti))
    kept, verdicts, infos = run_stream_specs(ctx, specs, 'streams')
    stats = {'ok': 0, 'known': 0, 'violation': 0}
    for spec, tags, info in zip(kept, verdicts, infos):
        tags = set(tags)
        bad = sorted(t for t in tags if t in ADV_TAGS)
        if not bad:
            stats['ok'] += 1
        elif bad == [41] and 241 in tags and ctx.open_finding(TRANS56):
            stats['known'] += 1
            ctx.coverage.setdefault('known_hits', {}).setdefault(TRANS56, 0)
            ctx.coverage['known_hits'][TRANS56] += 1
        else:
            stats['violation'] += 1
            for t in bad:
                ctx.violation(ADV_TAGS[t], {'kind': 'stream', 'spec': spec, 'control_stream': info['text'], 'tags': sorted(tags)})
    cov = ctx.coverage
    cov['stream_cases'] = len(kept)
    cov['stream_status'] = stats
    cov['evaluations'] += 5 * len(kept) * 4
    cov['distinct_nontrivial'] += len({i['text'] for i in infos})
    cov.setdefault('input_distribution', {})['streams'] = {
        'pairs': sorted({f"{s['advan']}/T{s['trans']}" for s in kept}),
        'scale': {k: sum(1 for s in kept if s['scale'] == k) for k in ('none', 'obs', 'sc', 'other')},
        'with_alag': sum(1 for s in kept if s['alag']), 'with_bio': sum(1 for s in kept if s['bio']),
        'default_trans': sum(1 for s in kept if not s['explicit_trans']),
        'inconclusive': sum(1 for v in verdicts if 1041 in v),
    }
    cov['samples'] += [{'control_stream': infos[0]['text'], 'tags': verdicts[0]}] if infos else []


# ====================================================================================================
# _find_rates
# ====================================================================================================
def real_find_rate(name, ncomps):
    from pharmpy.basic import Expr
    from pharmpy.model import Assignment, ModelSyntaxError
    from pharmpy.model.external.nonmem import advan as adv

    class Rec:
        statements = [Assignment.create(Expr.symbol(name), Expr.integer(1))]

    class CS:
        def get_records(self, what):
            assert what == 'PK'
            return [Rec()]
    try:
        r = list(adv._find_rates(CS(), ncomps))
    except ModelSyntaxError:
        return 'RAmbiguous'
    except ValueError:
        return 'RError'
    if not r:
        return 'RSkip'
    assert len(r) == 1 and str(r[0][2]) == name
    return f'(RFlow {ct.nat(r[0][0])} {ct.nat(r[0][1])})'


def run_rates(ctx, mutate=None):
    rng = ctx.rng
    cases, specs = [], []
    n = 400 if ctx.tier == 'quick' else 4000
    for _ in range(n):
        ncomps = rng.choice([2, 3, 5, 9, 10, 11, 12, 15, 20, 25, 99])
        if rng.random() < 0.25:
            f, t = rng.randrange(0, 30), rng.randrange(0, 30)
            name, term = f'K{f}T{t}', f'(RT {ct.nat(f)} {ct.nat(t)})'
        else:
            digits = [rng.randrange(10) for _ in range(rng.choice([1, 2, 2, 3, 3, 3, 4, 4, 5]))]
            name, term = 'K' + ''.join(map(str, digits)), '(RPlain ' + ct.lst([ct.nat(d) for d in digits]) + ')'
        res = real_find_rate(name, ncomps)
        if mutate:
            res = mutate(res)
        cases.append(f'({term}, {ct.nat(ncomps)}, {res})')
        specs.append((name, ncomps, res))
    verdicts = ctx.run_cases('rates', IMPORTS, 'rate_name * nat * rate_res', cases, 'verdict_rate', shard=400)
    badn = 0
    for (name, ncomps, res), v in zip(specs, verdicts):
        if 51 in v:
            badn += 1
            if badn <= 3:
                ctx.broken.append(f'correspondence C01 find_rate vs advan._find_rates: {name} with {ncomps} compartments gave {res}')
    ctx.coverage['rate_cases'] = len(cases)
    ctx.coverage['evaluations'] += len(cases)
    ctx.coverage.setdefault('input_distribution', {})['rates'] = {
        'results': {k: sum(1 for s in specs if s[2].startswith(k) or s[2].startswith('(' + k)) for k in ('RFlow', 'RSkip', 'RAmbiguous', 'RError')}}


# ====================================================================================================
# parameter records: $THETA / $OMEGA / $SIGMA against a reference reading of the generated record
# ====================================================================================================
PNUMS = ['0.1', '0.5', '1', '2', '1.5', '0.25', '3', '1E-2', '10', '0.3', '4.0']


def gen_theta_item(rng):
    init = rng.choice(PNUMS)
    lo = rng.choice(['0', '-1', '1E-3', '-5', '-INF', '-1000000'])
    up = rng.choice(['20', '100', '1E3', 'INF', '1000000'])
    form = rng.choice(['bare', 'bare', 'barefix', 'p1', 'p2', 'p3', 'p3', 'p3fix', 'p1fix', 'p3xn', 'p1xn', 'p2xn', 'allsame'])
    it = {'form': form, 'init': init, 'lo': lo, 'up': up, 'n': rng.choice([2, 3]),
          'name': rng.choice([None, None, 'CL', 'V', 'KA', 'TVQ'])}
    return it


def theta_text_expected(it):
    init, lo, up, n = it['init'], it['lo'], it['up'], 1
    fix = False
    f = it['form']
    L = None if lo in ('-INF', '-1000000') else F(lo)
    U = None if up in ('INF', '1000000') else F(up)
    if f == 'bare':
        t, L, U = init, None, None
    elif f == 'barefix':
        t, L, U, fix = init + ' FIX', None, None, True
    elif f == 'p1':
        t, L, U = f'({init})', None, None
    elif f == 'p1fix':
        t, L, U, fix = f'({init} FIXED)', None, None, True
    elif f == 'p2':
        t, U = f'({lo},{init})', None
    elif f == 'p3':
        t = f'({lo}, {init}, {up})'
    elif f == 'p3fix':
        t, fix = f'({lo},{init},{up}) FIX', True
    elif f == 'p3xn':
        n = it['n']
        t = f'({lo},{init},{up})x{n}'
    elif f == 'p1xn':
        n = it['n']
        t, L, U = f'({init})x{n}', None, None
    elif f == 'p2xn':          # refused before fix bd27e55 (finding C01-THETA-XN-REFUSED)
        n = it['n']
        t, U = f'({lo},{init})x{n}', None
    else:  # low = init = up: implicitly fixed
        t, L, U, fix = f'({init},{init},{init})', F(init.replace('E', 'e')), F(init.replace('E', 'e')), True
    return t, [(F(init), L, U, fix)] * n


def gen_cov_record(rng, first):
    r = rng.random()
    if r < 0.45:
        items = []
        for _ in range(rng.choice([1, 1, 2, 3])):
            it = {'v': rng.choice(PNUMS[:8]), 'form': rng.choice(['bare', 'bare', 'fix', 'xn', 'sd', 'var'])}
            if it['form'] == 'sd':       # the square is computed in floating point: keep it exact (dyadic values)
                it['v'] = rng.choice(['0.5', '2', '0.25', '1.5', '1', '3'])
            items.append(it)
        return {'kind': 'diag', 'items': items, 'header': rng.choice(['', '', 'DIAGONAL'])}
    if r < 0.85 or first:
        n = rng.choice([1, 2, 2, 3])
        vals = []
        for i in range(n):
            for j in range(i + 1):
                vals.append(rng.choice(['0.5', '1', '2', '0.25']) if i == j else rng.choice(['0.01', '0.05', '-0.01', '0.1']))
        return {'kind': 'block', 'n': n, 'vals': vals, 'fix': rng.random() < 0.25}
    return {'kind': 'same'}


def cov_text_expected(recs, rec_name):
    lines, blocks = [], []
    prev = None
    for r in recs:
        if r['kind'] == 'diag':
            toks = []
            for it in r['items']:
                v = F(it['v'])
                if it['form'] == 'bare':
                    toks.append(it['v']); blocks.append((1, [(v, False)]))
                elif it['form'] == 'fix':
                    toks.append(f"({it['v']} FIX)"); blocks.append((1, [(v, True)]))
                elif it['form'] == 'xn':
                    toks.append(f"({it['v']})x2"); blocks += [(1, [(v, False)])] * 2
                elif it['form'] == 'sd':
                    toks.append(f"({it['v']} SD)"); blocks.append((1, [(v * v, False)]))
                else:
                    toks.append(f"(VAR {it['v']})"); blocks.append((1, [(v, False)]))
            head = f"DIAGONAL({len(blocks_count(r))}) " if r['header'] else ''
            lines.append(f"${rec_name} {head}" + ' '.join(toks))
            prev = blocks[-1]
        elif r['kind'] == 'block':
            b = (r['n'], [(F(v), r['fix']) for v in r['vals']])
            lines.append(f"${rec_name} BLOCK({r['n']})" + (' FIX' if r['fix'] else '') + ' ' + ' '.join(r['vals']))
            blocks.append(b)
            prev = b
        else:
            m = r.get('m')
            lines.append(f"${rec_name} BLOCK({prev[0]}) SAME" + (f'({m})' if m else ''))
            blocks += [prev] * (m or 1)
    return lines, blocks


def blocks_count(r):
    return [1 for it in r['items'] for _ in range(2 if it['form'] == 'xn' else 1)]


def gen_param_spec(rng):
    thetas = [gen_theta_item(rng) for _ in range(rng.choice([1, 2, 3, 4]))]
    om, prev_block = [], False
    for k in range(rng.choice([1, 2, 3])):
        r = gen_cov_record(rng, first=not prev_block)
        prev_block = r['kind'] in ('block', 'same')
        om.append(r)
    si = [gen_cov_record(rng, first=True) for _ in range(rng.choice([1, 1, 2]))]
    si = [r for r in si if r['kind'] != 'same']
    return {'theta': thetas, 'omega': om, 'sigma': si}


def param_text(spec):
    tl, texp = [], []
    for it in spec['theta']:
        t, e = theta_text_expected(it)
        tl.append('$THETA ' + t + (f" ; {it['name']}" if it.get('name') else ''))
        texp += e
    ol, oexp = cov_text_expected(spec['omega'], 'OMEGA')
    sl, sexp = cov_text_expected(spec['sigma'], 'SIGMA')
    txt = ("$PROBLEM c01\n$INPUT ID TIME DV WGT APGR\n$DATA c01.csv IGNORE=@\n$PRED\nY = THETA(1) + ETA(1) + EPS(1)\n"
           + '\n'.join(tl + ol + sl) + '\n')
    return txt, texp, oexp, sexp


def fq(x):
    return F(repr(float(x)))


def pval_term(t):
    i, l, u, f = t
    return ct.tup(ct.q(i), ct.opt(None if l is None else ct.q(l)), ct.opt(None if u is None else ct.q(u)), ct.boolean(f))


def cblock_term(b):
    return ct.pair(ct.nat(b[0]), ct.lst([ct.pair(ct.q(v), ct.boolean(f)) for v, f in b[1]]))


def observe_params(spec, mutate=None):
    import math
    from pharmpy.modeling import read_model_from_string
    txt, texp, oexp, sexp = param_text(spec)
    try:
        model = read_model_from_string(txt)
    except Exception as e:
        raise Refused(f'{type(e).__name__}: {str(e)[:120]}')
    pars = model.parameters
    rvs = model.random_variables
    cov_names = set()
    obs = {'ETA': [], 'EPS': []}
    for dist in rvs:
        n = len(dist.names)
        kind = 'EPS' if str(dist.level).upper() == 'RUV' else 'ETA'
        cells = []
        if n == 1:
            sym = str(dist.variance)
            cells.append((fq(pars[sym].init), pars[sym].fix))
            cov_names.add(sym)
        else:
            var = dist.variance
            for i in range(n):
                for j in range(i + 1):
                    sym = str(var[i, j])
                    cells.append((fq(pars[sym].init), pars[sym].fix))
                    cov_names.add(sym)
        obs[kind].append((n, cells))
    tobs = []
    for p in pars:
        if p.name in cov_names:
            continue
        tobs.append((fq(p.init), None if math.isinf(p.lower) else fq(p.lower), None if math.isinf(p.upper) else fq(p.upper), p.fix))
    if mutate:
        tobs = mutate(tobs)
    term = ("(mkPCase " + ct.lst([pval_term(t) for t in texp]) + "\n  " + ct.lst([pval_term(t) for t in tobs]) + "\n  "
            + ct.lst([cblock_term(b) for b in oexp]) + "\n  " + ct.lst([cblock_term(b) for b in obs['ETA']]) + "\n  "
            + ct.lst([cblock_term(b) for b in sexp]) + "\n  " + ct.lst([cblock_term(b) for b in obs['EPS']]) + ")")
    return term, {'text': txt, 'n': len(texp) + sum(len(b[1]) for b in oexp + sexp), 'model': model}


def observe_blocks(model, rec_name, mutate=None):
    """The real OmegaRecord.parse() blocks of the model's control stream, and what the real
    parameters_from_blocks / rvs_from_blocks make of them."""
    from pharmpy.model import ModelSyntaxError
    from pharmpy.model.external.nonmem import parsing
    blocks = parsing.parse_omegas_sigmas(model.internals.control_stream, rec_name)
    bterms = []
    for names, inits, fix, same in blocks:
        if same:
            bterms.append('(mkOB [] false true)')
        else:
            bterms.append(f"(mkOB {ct.lst([ct.q(fq(v)) for v in inits])} {ct.boolean(bool(fix))} false)")
    rvtype = 'ETA' if rec_name == 'OMEGA' else 'EPS'
    try:
        pars, _ = parsing.parameters_from_blocks(blocks, set(), rec_name)
    except ModelSyntaxError:
        return f"(mkBCase {ct.boolean(rvtype == 'EPS')} {ct.lst(bterms)} None [])", len(blocks)
    pterms, index = [], {}
    for k, p in enumerate(pars):
        m = re.fullmatch(rec_name + r'_(\d+)_(\d+)', p.name)
        pterms.append(f"(mkOP {ct.nat(int(m.group(1)))} {ct.nat(int(m.group(2)))} {ct.q(fq(p.init))} {ct.boolean(p.fix)})")
        index[p.name] = k
    if mutate:
        pterms = mutate(pterms)
    rvs, _ = parsing.rvs_from_blocks({}, blocks, pars, rvtype)
    rterms = []
    for dist in rvs:
        etas = [int(re.fullmatch(rvtype + r'_(\d+)', nm).group(1)) for nm in dist.names]
        n = len(etas)
        if n == 1:
            cov = [index[str(dist.variance)]]
        else:
            cov = [index[str(dist.variance[i, j])] for i in range(n) for j in range(i + 1)]
        rterms.append(f"(mkRV {ct.lst([ct.nat(e) for e in etas])} {str(dist.level).upper()} {ct.lst([ct.nat(c) for c in cov])})")
    return (f"(mkBCase {ct.boolean(rvtype == 'EPS')} {ct.lst(bterms)} (Some {ct.lst(pterms)}) {ct.lst(rterms)})", len(blocks))


def run_blocks(ctx, models, mutate=None):
    terms = []
    nb = 0
    for model in models:
        for rec in ('OMEGA', 'SIGMA'):
            t, k = observe_blocks(model, rec, mutate)
            terms.append(t)
            nb += k
    verdicts = ctx.run_cases('blocks', IMPORTS, 'bcase', terms, 'verdict_blocks', shard=150) if terms else []
    bad = [v for v in verdicts if 71 in v or 72 in v]
    if bad:
        ctx.broken.append(f'correspondence C01 parameters_from_blocks / rvs_from_blocks vs parsing.py: {len(bad)} of {len(terms)} '
                          f'records disagree (tags {sorted({t for v in bad for t in v})})')
    ctx.coverage['block_cases'] = len(terms)
    ctx.coverage['evaluations'] += nb


PARAM_TAGS = {61: 'a THETA read from the record differs from the record text (initial value, bounds, fixedness or count)',
              62: 'the OMEGA/SIGMA structure read differs from the record text (block sizes, initial values, fixedness)'}
SAME_M = 'C01-OMEGA-SAME-M'


def run_param_specs(ctx, specs, label, mutate=None):
    terms, kept, infos, refused = [], [], [], 0
    for spec in specs:
        try:
            term, info = observe_params(spec, mutate)
        except Refused as e:
            refused += 1
            # every generated layout is documented NONMEM syntax the reader accepted when this check was built
            # (incl. `(low,init)xn` since bd27e55): a refusal is a violation of the property (reading is not total)
            ctx.violation('a documented $THETA/$OMEGA/$SIGMA form is refused by the reader',
                          {'kind': 'params', 'spec': spec, 'control_stream': param_text(spec)[0], 'error': str(e)})
            continue
        terms.append(term)
        kept.append(spec)
        infos.append(info)
    verdicts = ctx.run_cases(label, IMPORTS, 'pcase', terms, 'verdict_params', shard=100) if terms else []
    return kept, verdicts, infos, refused


def probe_params(ctx, w, label):
    try:
        observe_params(w)
    except Refused:
        return {31}
    kept, verdicts, infos, refused = run_param_specs(ctx, [w], label)
    return set(verdicts[0]) if verdicts else set()


def probe_refuse(ctx, w, label):
    """tag 31: the reader raises on this (documented) input"""
    from pharmpy.modeling import read_model_from_string
    try:
        read_model_from_string(w['text'])
    except Exception as e:
        if w.get('error') is None or w['error'] in f'{type(e).__name__}: {e}':
            return {31}
        return {32}
    return set()


FINDING_KINDS['params'] = probe_params
FINDING_KINDS['refuse'] = probe_refuse


def run_params(ctx):
    n = 150 if ctx.tier == 'quick' else 1500
    specs = [json.loads(p.read_text()) for p in sorted((VERIF / 'regress' / 'C01').glob('params-*.json'))]
    specs += [gen_param_spec(ctx.rng) for _ in range(n)]
    kept, verdicts, infos, refused = run_param_specs(ctx, specs, 'params')
    run_blocks(ctx, [i['model'] for i in infos])
    stats = {'ok': 0, 'known': 0, 'violation': 0}
    for spec, tags, info in zip(kept, verdicts, infos):
        bad = sorted(t for t in tags if t in PARAM_TAGS)
        if not bad:
            stats['ok'] += 1
        elif bad == [62] and any(r.get('m') for r in spec['omega']) and ctx.open_finding(SAME_M):
            stats['known'] += 1
        else:
            stats['violation'] += 1
            for t in bad:
                ctx.violation(PARAM_TAGS[t], {'kind': 'params', 'spec': spec, 'control_stream': info['text'], 'tags': sorted(tags)})
    cov = ctx.coverage
    cov['param_cases'] = len(kept)
    cov['param_status'] = stats
    cov['refused_by_reader'] = cov.get('refused_by_reader', 0) + refused
    cov['evaluations'] += sum(i['n'] for i in infos)
    cov['distinct_nontrivial'] += len({i['text'] for i in infos})
    cov.setdefault('input_distribution', {})['params'] = {
        'theta_forms': {f: sum(1 for s in kept for it in s['theta'] if it['form'] == f)
                        for f in ('bare', 'barefix', 'p1', 'p1fix', 'p2', 'p3', 'p3fix', 'p3xn', 'p1xn', 'p2xn', 'allsame')},
        'omega_kinds': {k: sum(1 for s in kept for r in s['omega'] + s['sigma'] if r['kind'] == k) for k in ('diag', 'block', 'same')},
        'named_thetas': sum(1 for s in kept for it in s['theta'] if it.get('name')),
    }


# ====================================================================================================
# numeric forms of $OMEGA / $SIGMA records (VARIANCE|STANDARD, COVARIANCE|CORRELATION, CHOLESKY, DIAGONAL SD)
# ====================================================================================================
SPELL = {'SD': ['SD', 'STANDARD', 'STAN', 'STA', 'S'], 'CORR': ['CORRELATION', 'CORR', 'COR'],
         'VAR': ['VARIANCE', 'VAR', 'VARI', 'V'], 'COV': ['COVARIANCE', 'COV', 'COVAR'],
         'CHOL': ['CHOLESKY', 'CHOL', 'CHO'], 'FIX': ['FIX', 'FIXED', 'FIXE']}
DYADIC_SD = ['0.5', '1', '2', '1.5', '0.25', '3']
SQUARES = ['0.25', '1', '4', '2.25', '0.0625', '9', '6.25']          # variances whose square root is dyadic
CORRS = ['0.5', '0.25', '-0.5', '0', '0.125', '-0.25']
COVS = ['0.1', '0.01', '-0.05', '0.3', '0', '0.125']
OFORM_TAGS = {81: 'inits returned by OmegaRecord.parse() differ from the model omega_block_parse',
              82: 'the covariance values read from an $OMEGA/$SIGMA record differ from NONMEM\'s definition of its form '
                  '(VARIANCE|STANDARD, COVARIANCE|CORRELATION, CHOLESKY)',
              83: 'initial values of the model\'s OMEGA/SIGMA parameters differ from what OmegaRecord.parse() returned'}


def gen_oform_record(rng, rec_name):
    kind = rng.choice(['block'] * 6 + ['diag'] * 2)
    if kind == 'diag':
        items = []
        for _ in range(rng.choice([1, 2, 3])):
            sd = rng.random() < 0.5
            items.append({'v': rng.choice(DYADIC_SD if sd else PNUMS[:8]), 'sd': sd, 'var': (not sd) and rng.random() < 0.3,
                          'fix': rng.random() < 0.2, 'first': rng.random() < 0.5})
        return {'rec': rec_name, 'kind': 'diag', 'items': items}
    n = rng.choice([1, 2, 2, 3, 3])
    form = rng.choice(['varcov', 'sdcov', 'varcorr', 'sdcorr', 'sdcorr', 'chol'])
    sd, corr, chol = form in ('sdcov', 'sdcorr'), form in ('varcorr', 'sdcorr'), form == 'chol'
    # values are chosen so that (a) every result is exactly representable (dyadic standard deviations, variances that
    # are squares of dyadic numbers under CORRELATION, dyadic correlations and Cholesky factors) and (b) the matrix is
    # positive definite (diagonally dominant / small correlations / positive Cholesky diagonal): pharmpy silently
    # replaces a non positive definite initial block by a nearby one when it builds the model
    vals = []
    for i in range(n):
        for j in range(i + 1):
            if chol:
                vals.append(rng.choice(['1', '2', '0.5', '1.5']) if i == j else rng.choice(['1', '0.5', '-0.5', '0.25', '0', '-1']))
            elif i == j:
                vals.append(rng.choice(['1', '2', '1.5', '3'] if sd else (SQUARES if corr else ['1', '2', '4', '0.5', '1.5'])))
            elif corr:
                vals.append(rng.choice(CORRS if n == 2 else ['0.25', '-0.25', '0.125', '0']))
            else:
                vals.append(rng.choice(['0.1', '0.01', '-0.05', '0', '0.125'] if not (corr or sd) or True else COVS))
    wrong = rng.random() < 0.06
    if wrong:
        vals = vals[:-1] if rng.random() < 0.5 and len(vals) > 1 else vals + ['0.5']
    opts = []
    if chol:
        opts.append('CHOL')
    else:
        if sd:
            opts.append('SD')
        elif rng.random() < 0.3:
            opts.append('VAR')
        if corr:
            opts.append('CORR')
        elif rng.random() < 0.3:
            opts.append('COV')
    if rng.random() < 0.2:
        opts.append('FIX')
    rng.shuffle(opts)
    placed = [(o, rng.choice(SPELL[o]), rng.choice(['pre', 'post', 'post', 'trail', 'paren'])) for o in opts]
    return {'rec': rec_name, 'kind': 'block', 'n': n, 'sd': sd, 'corr': corr, 'chol': chol, 'vals': vals,
            'opts': placed, 'anchor': rng.randrange(len(vals)), 'sep': False,   # (commas between the values of a BLOCK are refused by omega_record.lark)
            'blk': rng.choice(['BLOCK', 'BLOCK', 'BLOC', 'BLO'])}


def oform_record_text(r):
    if r['kind'] == 'diag':
        toks = []
        for it in r['items']:
            o = (['SD'] if it['sd'] else (['VAR'] if it['var'] else [])) + (['FIX'] if it['fix'] else [])
            if not o:
                toks.append(it['v'])
            elif it['first']:
                toks.append('(' + ' '.join(o) + ' ' + it['v'] + ')')
            else:
                toks.append('(' + it['v'] + ' ' + ' '.join(o) + ')')
        return f"${r['rec']} " + ' '.join(toks)
    pre = [s for (_, s, w) in r['opts'] if w == 'pre']
    post = [s for (_, s, w) in r['opts'] if w == 'post']
    trail = [s for (_, s, w) in r['opts'] if w == 'trail']
    paren = [s for (_, s, w) in r['opts'] if w == 'paren']
    vals = list(r['vals'])
    k = r['anchor'] % len(vals)
    if paren:
        vals[k] = '(' + vals[k] + ' ' + ' '.join(paren) + ')'
        if trail:      # `init _roptions` cannot follow a parenthesised init: put the trailing options on another init or in front
            k2 = (k + 1) % len(vals)
            if k2 != k:
                vals[k2] = vals[k2] + ' ' + ' '.join(trail)
            else:
                post += trail
    elif trail:
        vals[k] = vals[k] + ' ' + ' '.join(trail)
    sep = ', ' if r['sep'] else ' '
    return (f"${r['rec']} " + ' '.join(pre) + (' ' if pre else '') + f"{r['blk']}({r['n']}) " + ' '.join(post) + (' ' if post else '')
            + sep.join(vals))


def gen_oform_spec(rng):
    om = [gen_oform_record(rng, 'OMEGA') for _ in range(rng.choice([1, 2, 3]))]
    si = [gen_oform_record(rng, 'SIGMA') for _ in range(rng.choice([1, 1, 2]))]
    return {'records': om + si}


def oform_text(spec):
    return ("$PROBLEM c01\n$INPUT ID TIME DV WGT APGR\n$DATA c01.csv IGNORE=@\n$PRED\nY = THETA(1) + ETA(1) + EPS(1)\n$THETA 1\n"
            + '\n'.join(oform_record_text(r) for r in spec['records']) + '\n')


def ores_term(x):
    return x if isinstance(x, str) else '(OOk ' + ct.lst([ct.q(v) for v in x]) + ')'


def observe_oforms(spec, mutate=None):
    """One Coq case per BLOCK record / DIAGONAL item: the written values + flags (reference reading of the generated
    record) and what the real OmegaRecord.parse() returned; plus the parameter inits of the model when it reads."""
    from pharmpy.model import ModelSyntaxError
    from pharmpy.model.external.nonmem.nmtran_parser import NMTranParser
    from pharmpy.modeling import read_model_from_string
    txt = oform_text(spec)
    cs = NMTranParser().parse(txt)
    recs = {'OMEGA': list(cs.get_records('OMEGA')), 'SIGMA': list(cs.get_records('SIGMA'))}
    par_inits = None
    try:
        model = read_model_from_string(txt)
        par_inits = {'OMEGA': [fq(p.init) for p in model.parameters if p.name.startswith('OMEGA')],
                     'SIGMA': [fq(p.init) for p in model.parameters if p.name.startswith('SIGMA')]}
    except Exception:
        model = None
    idx = {'OMEGA': 0, 'SIGMA': 0}
    pos = {'OMEGA': 0, 'SIGMA': 0}
    terms = []
    for r in spec['records']:
        rec = recs[r['rec']][idx[r['rec']]]
        idx[r['rec']] += 1
        try:
            blocks = rec.parse()
            err = None
        except ModelSyntaxError:
            blocks, err = None, 'OSyntaxError'
        except ValueError:
            blocks, err = None, 'OInternalError'
        if r['kind'] == 'diag':
            for k, it in enumerate(r['items']):
                obs = err or [fq(blocks[k][1][0])]
                if mutate and not err:
                    obs = mutate(obs)
                par = None
                if par_inits is not None:
                    par = par_inits[r['rec']][pos[r['rec']]:pos[r['rec']] + 1]
                    pos[r['rec']] += 1
                terms.append(f"(mkOCase true 1%nat {ct.boolean(it['sd'])} false false {ct.lst([ct.q(F(it['v']))])} {ores_term(obs)} "
                             f"{ct.opt(None if par is None else ct.lst([ct.q(v) for v in par]))})")
        else:
            obs = err or [fq(v) for v in blocks[0][1]]
            if mutate and not err:
                obs = mutate(obs)
            par = None
            if par_inits is not None and not err:
                par = par_inits[r['rec']][pos[r['rec']]:pos[r['rec']] + len(obs)]
                pos[r['rec']] += len(obs)
            terms.append(f"(mkOCase false {ct.nat(r['n'])} {ct.boolean(r['sd'])} {ct.boolean(r['corr'])} {ct.boolean(r['chol'])} "
                         f"{ct.lst([ct.q(F(v)) for v in r['vals']])} {ores_term(obs)} "
                         f"{ct.opt(None if par is None else ct.lst([ct.q(v) for v in par]))})")
    return terms, txt


def run_oform_specs(ctx, specs, label, mutate=None):
    terms, owner, texts, refused = [], [], [], 0
    for k, spec in enumerate(specs):
        try:
            t, txt = observe_oforms(spec, mutate)
        except Exception as e:      # the record text is refused by the real parser
            refused += 1
            ctx.coverage.setdefault('refused_samples', [])
            if len(ctx.coverage['refused_samples']) < 5:
                ctx.coverage['refused_samples'].append({'code': oform_text(spec), 'error': f'{type(e).__name__}: {str(e)[:120]}'})
            continue
        terms += t
        owner += [k] * len(t)
        texts.append(txt)
    verdicts = ctx.run_cases(label, IMPORTS, 'ocase', terms, 'verdict_oform', shard=200) if terms else []
    return owner, verdicts, texts, refused


def probe_oform(ctx, w, label):
    owner, verdicts, texts, refused = run_oform_specs(ctx, [w], label)
    return {t for v in verdicts for t in v}


FINDING_KINDS['oform'] = probe_oform


def run_oforms(ctx):
    n = 200 if ctx.tier == 'quick' else 1500
    specs = [json.loads(p.read_text()) for p in sorted((VERIF / 'regress' / 'C01').glob('oform-*.json'))]
    specs += [gen_oform_spec(ctx.rng) for _ in range(n)]
    owner, verdicts, texts, refused = run_oform_specs(ctx, specs, 'oforms')
    stats = {'ok': 0, 'violation': 0, 'broken': 0, 'inconclusive': 0}
    seen = set()
    for k, v in zip(owner, verdicts):
        v = set(v)
        if 1081 in v:
            stats['inconclusive'] += 1
        elif 82 in v or 83 in v:
            stats['violation'] += 1
            if k not in seen:
                seen.add(k)
                t = 82 if 82 in v else 83
                ctx.violation(OFORM_TAGS[t], {'kind': 'oform', 'spec': specs[k], 'control_stream': oform_text(specs[k]), 'tags': sorted(v)})
        elif 81 in v:
            stats['broken'] += 1
            if stats['broken'] <= 3:
                ctx.broken.append('correspondence C01 omega_block_parse vs OmegaRecord.parse: ' + oform_text(specs[k]).split('$THETA 1\n')[1])
        else:
            stats['ok'] += 1
    cov = ctx.coverage
    cov['oform_cases'] = len(verdicts)
    cov['oform_status'] = stats
    cov['refused_by_reader'] = cov.get('refused_by_reader', 0) + refused
    cov['evaluations'] += len(verdicts)
    cov['distinct_nontrivial'] += len(set(texts))
    blocks = [r for s in specs for r in s['records'] if r['kind'] == 'block']
    cov.setdefault('input_distribution', {})['oforms'] = {
        'forms': {f: sum(1 for r in blocks if (r['sd'], r['corr'], r['chol']) == key)
                  for f, key in (('var_cov', (False, False, False)), ('sd_cov', (True, False, False)), ('var_corr', (False, True, False)),
                                 ('sd_corr', (True, True, False)), ('cholesky', (False, False, True)))},
        'sizes': {str(k): sum(1 for r in blocks if r['n'] == k) for k in (1, 2, 3)},
        'option_positions': {w: sum(1 for r in blocks for o in r['opts'] if o[2] == w) for w in ('pre', 'post', 'trail', 'paren')},
        'diag_items_sd': sum(1 for s in specs for r in s['records'] if r['kind'] == 'diag' for it in r['items'] if it['sd']),
        'wrong_number_of_inits': sum(1 for r in blocks if len(r['vals']) != r['n'] * (r['n'] + 1) // 2),
    }
    cov['samples'] += [{'control_stream': texts[0], 'tags': verdicts[0]}] if texts else []


# ====================================================================================================
# $DES: linear systems with symbol-only coefficients -> to_compartmental_system -> eqs
# ====================================================================================================
DES_TAGS = {91: 'an equation of the compartmental system rebuilt from $DES evaluates differently from the DADT(i) written',
            92: 'an equation of the $DES system is missing in the compartmental system'}
DES_CORR = {93: 'flows of the system built from $DES differ from the model C01/Des.v (des_flows / des_outs)',
            94: 'the parsed $DES equations are not sums of terms k*A', 96: 'internal: des_guard true but des_sound fails'}
DES_NAMES = ['DEPOT', 'CENTRAL', 'PERI', 'EFFECT']


def gen_des_spec(rng):
    n = rng.choice([1, 2, 2, 3, 3, 4])
    flows = []
    pairs = [(i, j) for i in range(1, n + 1) for j in range(0, n + 1) if i != j]
    rng.shuffle(pairs)
    for (i, j) in pairs[:rng.randrange(1, min(len(pairs), 2 * n) + 1)]:
        flows.append([i, j])
    if not any(j == 0 for _, j in flows):
        flows.append([rng.randrange(1, n + 1), 0])
    flows = [list(x) for x in sorted({tuple(f) for f in flows})]
    return {'n': n, 'flows': flows, 'order': rng.randrange(10 ** 6), 'factor_first': rng.random() < 0.5}


def des_terms(spec):
    """per compartment i: list of (sign, rate name, amount index)"""
    rng = random.Random(f"des-{spec['order']}")
    terms = {i: [] for i in range(1, spec['n'] + 1)}
    for i, j in spec['flows']:
        k = f'K{i}{j}'
        terms[i].append(('-', k, i))
        if j != 0:
            terms[j].append(('+', k, i))
    for i in terms:
        rng.shuffle(terms[i])
    return terms


def des_text_tokens(spec):
    terms = des_terms(spec)
    n = spec['n']
    names = DES_NAMES[:n]
    rates = sorted({f'K{i}{j}' for i, j in spec['flows']})
    lines, toks = [], []
    for i in range(1, n + 1):
        parts, tk = [], [('id', f'D{i}'), '=']
        for k, (sg, r, a) in enumerate(terms[i]):
            fac = f'{r}*A({a})' if spec['factor_first'] else f'A({a})*{r}'
            parts.append(('-' if sg == '-' else ('+' if k else '')) + fac)
            if sg == '-' or k:
                tk.append(sg)
            pair = [('id', r), '*', ('id', f'A_{names[a - 1]}(t)')]
            tk += pair if spec['factor_first'] else pair[::-1]
        if not terms[i]:
            parts, tk = ['0'], tk + [('num', '0')]
        lines.append(f'DADT({i}) = ' + ' '.join(parts))
        toks += tk + ['nl']
    model = ' '.join(f"COMP=({nm}{' DEFDOSE' if k == 0 else ''}{' DEFOBS' if nm == 'CENTRAL' or (n == 1) else ''})" for k, nm in enumerate(names))
    pk = '\n'.join(f'{r} = THETA({k + 1})' for k, r in enumerate(rates))
    txt = ("$PROBLEM des\n$INPUT ID TIME AMT DV\n$DATA c01.csv IGNORE=@\n$SUBROUTINE ADVAN6 TOL=5\n$MODEL " + model + "\n$PK\n" + pk
           + "\n$DES\n" + '\n'.join(lines) + "\n$ERROR\nY = F + EPS(1)\n" + ''.join(f'$THETA {k + 1}\n' for k in range(len(rates)))
           + "$OMEGA 0.1\n$SIGMA 1\n")
    return txt, toks, rates, names


def observe_des(spec, prng, mutate=None):
    from pharmpy.modeling import read_model_from_string
    txt, toks, rates, cnames = des_text_tokens(spec)
    model = read_model_from_string(txt)
    cs = model.statements.ode_system
    from pharmpy.model import output
    names = ct.Names()
    names.get('__output__')          # id 1 = the output compartment in d_flows
    cmap = model.internals.compartment_map
    eqs = []
    for eq in cs.eqs:
        lhs = sc.to_sympy(eq.lhs)
        cname = str(lhs.args[0].func)[2:]        # Derivative(A_NAME(t), t)
        eqs.append(ct.pair(names.p(f'D{cmap[cname]}'), sc.expr(eq.rhs, names)))
    lhs_map = ct.lst([ct.pair(names.p(f'D{k + 1}'), names.p(f'A_{c}(t)')) for k, c in enumerate(cnames)])
    comps = [cs.find_compartment(nm) for nm in cs.compartment_names]
    flows = []
    for c1 in comps:
        for c2 in comps + [output]:
            fl = cs.get_flow(c1, c2)
            if fl != 0:
                to = names.p('__output__') if c2 is output else names.p(f'A_{c2.name}(t)')
                flows.append(ct.tup(names.p(f'A_{c1.name}(t)'), to, sc.expr(fl, names)))
    if mutate:
        eqs, flows = mutate(eqs, flows)
    leaves = rates + [f'A_{c}(t)' for c in cnames] + ['t']
    pts = [{nm: prng.choice([F(1), F(2), F(3), F(5), F(7), F(1, 2), F(4), F(3, 2), F(11)]) for nm in leaves} for _ in range(4)]
    term = (f"(mkDCase {tok_term(toks, names)}\n  {ct.lst(eqs)}\n  {lhs_map}\n  {ct.lst(flows)}\n  "
            f"{ct.lst([sc.env(p, names) for p in pts])})")
    return term, txt


def run_des(ctx, mutate=None):
    n = 60 if ctx.tier == 'quick' else 400
    specs = [gen_des_spec(ctx.rng) for _ in range(n)]
    prng = random.Random(f'{ctx.seed}-des-pts')
    terms, kept, texts = [], [], []
    for spec in specs:
        try:
            t, txt = observe_des(spec, prng, mutate)
        except sc.Unconvertible:
            ctx.coverage['skipped_unconvertible'] = ctx.coverage.get('skipped_unconvertible', 0) + 1
            continue
        except Exception as e:
            ctx.violation('a linear $DES system is refused by the reader', {'kind': 'des', 'spec': spec,
                          'control_stream': des_text_tokens(spec)[0], 'error': f'{type(e).__name__}: {str(e)[:150]}'})
            continue
        terms.append(t)
        kept.append(spec)
        texts.append(txt)
    verdicts = ctx.run_cases('des', IMPORTS, 'dcase', terms, 'verdict_des', shard=100) if terms else []
    bad = 0
    for spec, v, txt in zip(kept, verdicts, texts):
        if 1091 in v:
            ctx.broken.append('the reference parser refuses the $DES tokens of ' + json.dumps(spec))
        oracle = [t for t in sorted(set(v)) if t in DES_TAGS]
        for t in oracle:
            bad += 1
            ctx.violation(DES_TAGS[t], {'kind': 'des', 'spec': spec, 'control_stream': txt, 'tags': v})
        corr = [t for t in sorted(set(v)) if t in DES_CORR]
        if corr and not oracle:
            bad += 1
            if len([b for b in ctx.broken if 'C01/Des.v' in b]) < 3:
                ctx.broken.append('correspondence C01/Des.v vs to_compartmental_system: ' + ', '.join(DES_CORR[t] for t in corr)
                                  + ' on ' + json.dumps(spec))
    cov = ctx.coverage
    cov['des_cases'] = len(kept)
    cov['des_bad'] = bad
    cov['des_guard_false'] = sum(1 for v in verdicts if 295 in v)
    cov['evaluations'] += sum(s['n'] for s in kept) * 4
    cov['distinct_nontrivial'] += len(set(texts))
    cov.setdefault('input_distribution', {})['des'] = {
        'compartments': {str(k): sum(1 for s in kept if s['n'] == k) for k in (1, 2, 3, 4)},
        'flows_hist': {str(k): sum(1 for s in kept if len(s['flows']) == k) for k in sorted({len(s['flows']) for s in kept})}}


def probe_des(ctx, w, label):
    prng = random.Random('des-replay')
    t, txt = observe_des(w, prng)
    v = ctx.run_cases(label, IMPORTS, 'dcase', [t], 'verdict_des')
    return set(v[0])


FINDING_KINDS['des'] = probe_des


def run(ctx):
    # entries staged in known_findings.d replace those of known_findings.json with the same id
    ctx.findings = list({f['id']: f for f in ctx.findings}.values())
    ctx.build_gate(['C01'])
    ctx.trusted += [
        'harness/lib/sym2coq.py + coqterm.py (conversion of real sympy trees to Gallina terms)',
        'harness/props/c01.py: generator, Fortran printer of the generated programs (minimal parentheses by the '
        'NM-TRAN/Fortran precedence rules), reference reading of numeric literals, classification',
        'Base/Interp.v + C01/Check.v exact interpretation of exp/log/sqrt/pow/Fortran MOD used only for comparing by evaluation',
        'SPECIFICATION (coq/theories/C01/Model.v): NM-TRAN abbreviated-code reference semantics nm_body; NONMEM '
        'ADVAN/TRANS definitions nonmem_rates/nonmem_struct written from the NONMEM users guide',
    ]
    ctx.assumptions += [
        'sympy canonicalisation is an engine: statements are exported after construction and compared by exact evaluation over Q',
        'the lark LALR grammar acceptance set is not modelled: expressions are tied by evaluation of printed random expressions',
        'integrating the ODE system is not covered: compartmental systems are compared as systems (flows, rates)',
        'a never-assigned symbol is undefined in the reference semantics (NONMEM would use an unspecified value); such outputs are excluded',
        'integer constants denote reals (NM-TRAN converts constants in abbreviated code to double precision)',
        'not covered: LOG10/PLOG/PLOG10/PDZ/GAMLN/PHI (no exact rational interpretation), DO WHILE, verbatim code, EXIT/CALL, $MIX, PRIOR',
    ]
    ctx.coverage['source_sha'] = source_sha('src/pharmpy/model/external/nonmem/records/code_record.py',
                                            'src/pharmpy/model/external/nonmem/advan.py',
                                            'src/pharmpy/model/external/nonmem/parsing.py')
    finding_probes(ctx)
    run_advan(ctx)
    run_code(ctx)
    run_streams(ctx)
    run_rates(ctx)
    run_params(ctx)
    run_oforms(ctx)
    run_des(ctx)
    ctx.coverage['rule'] = ('abbreviated code: random programs (<= 14 statements, nesting <= 2, 8 program symbols, '
                            'THETA/ETA/data leaves, intrinsic + protected functions, layout noise) from VERIF_SEED; '
                            'non-trivial = at least 3 statements; distinct by printed text')


def replay(ctx, rep):
    kind = rep.get('kind', 'code')
    if kind in ('advan-table', 'advan-struct'):
        run_advan(ctx)
        print('violations', [v['what'] for v in ctx.violations], 'broken', ctx.broken)
        return 1 if ctx.violations or ctx.broken else 0
    if kind not in FINDING_KINDS:
        print('nothing to replay:', rep.get('what'))
        return 1
    if kind == 'code':
        spec = rep.get('spec', rep)
        kept, verdicts, infos, skipped = run_specs(ctx, [spec], 'replay')
        if not verdicts:
            print('not readable any more:', skipped)
            return 1
        print('code:\n' + infos[0]['code'])
        status = classify(ctx, spec, verdicts[0], infos[0])
        print('tags', verdicts[0], 'status', status)
        return 1 if status in ('violation', 'broken') else 0
    tags = FINDING_KINDS[kind](ctx, rep.get('spec', rep), 'replay')
    if kind == 'stream' and 241 in tags and ctx.open_finding(TRANS56):
        tags = tags - {41}
    allt = {**TAGS, **ADV_TAGS, **PARAM_TAGS, **OFORM_TAGS, **DES_TAGS}
    print('tags', sorted(tags), [allt.get(t, t) for t in sorted(tags)])
    return 1 if any(t in tags for t in (1, 2, 11, 21, 31, 41, 42, 43, 44, 61, 62, 81, 82, 83, 91, 92)) else 0
