"""C03 T-tables translator: regenerates, from the CURRENT source text of /repo, the literal tables and
constants the C03 model depends on, as a Coq file with obligations.  Fail-closed: any AST shape it does
not know raises Refused (reported as TRANSLATOR-REFUSED)."""
import ast
import hashlib

from harness.lib.core import REPO

FACTORY = 'src/pharmpy/model/external/nonmem/records/factory.py'
NMTRAN = 'src/pharmpy/model/external/nonmem/nmtran_parser.py'
PARSERS = 'src/pharmpy/model/external/nonmem/records/parsers.py'
IGNORED = 'src/pharmpy/internals/parse/ignored.py'
SIZES = 'src/pharmpy/model/external/nonmem/records/sizes_record.py'


class Refused(Exception):
    pass


def T(s):
    assert all(32 <= ord(c) < 127 and c != '"' for c in s), s
    return f'(T "{s}")'


def lst(xs):
    return '[' + '; '.join(xs) + ']'


def _const_str(node):
    if isinstance(node, ast.Constant) and isinstance(node.value, str):
        return node.value
    raise Refused(f'expected a string constant, got {ast.dump(node)[:80]}')


def _find(tree, kind, name):
    for node in tree.body:
        if isinstance(node, kind):
            if kind is ast.Assign and any(isinstance(t, ast.Name) and t.id == name for t in node.targets):
                return node
            if kind in (ast.FunctionDef, ast.ClassDef) and node.name == name:
                return node
    raise Refused(f'{name} not found')


def known_records(tree):
    node = _find(tree, ast.Assign, 'known_records')
    if not isinstance(node.value, ast.Dict):
        raise Refused('known_records is not a dict literal')
    out = []
    for k, v in zip(node.value.keys, node.value.values):
        if not (isinstance(v, ast.Tuple) and len(v.elts) == 2 and all(isinstance(e, ast.Name) for e in v.elts)):
            raise Refused('known_records value is not (Class, Parser)')
        out.append((_const_str(k), v.elts[0].id, v.elts[1].id))
    return out


def canonical_rules(tree):
    fn = _find(tree, ast.FunctionDef, 'get_canonical_record_name')
    body = [s for s in fn.body if not (isinstance(s, ast.Expr) and isinstance(s.value, ast.Constant))]
    if len(body) != 3:
        raise Refused('get_canonical_record_name: unexpected number of statements')
    bare, top, ret = body
    if ast.unparse(bare) != 'bare = raw_name.lstrip()[1:].upper()':
        raise Refused('bare assignment changed: ' + ast.unparse(bare))
    if ast.unparse(ret) != 'return None':
        raise Refused('final return changed')
    if not isinstance(top, ast.If):
        raise Refused('no top-level if')
    t = top.test
    if not (isinstance(t, ast.Compare) and ast.unparse(t.left) == 'len(bare)' and len(t.ops) == 1
            and isinstance(t.ops[0], ast.GtE) and isinstance(t.comparators[0], ast.Constant)):
        raise Refused('length test changed: ' + ast.unparse(t))
    minlen = t.comparators[0].value
    if len(top.body) != 2:
        raise Refused('unexpected body of the length branch')
    loop, chain = top.body
    if ast.unparse(loop) != 'for name in known_records:\n    if name.startswith(bare):\n        return name':
        raise Refused('known_records loop changed: ' + ast.unparse(loop))
    rules = []
    node = chain
    while True:
        if not isinstance(node, ast.If) or len(node.body) != 1 or not isinstance(node.body[0], ast.Return):
            raise Refused('synonym chain: unexpected statement ' + ast.unparse(node)[:80])
        res = _const_str(node.body[0].value)
        test = node.test
        if (isinstance(test, ast.Call) and isinstance(test.func, ast.Attribute) and test.func.attr == 'startswith'
                and len(test.args) == 1 and ast.unparse(test.args[0]) == 'bare'):
            rules.append(('prefix', _const_str(test.func.value), res))
        else:
            cmps = test.values if isinstance(test, ast.BoolOp) and isinstance(test.op, ast.Or) else [test]
            alts = []
            for c in cmps:
                if not (isinstance(c, ast.Compare) and ast.unparse(c.left) == 'bare' and len(c.ops) == 1
                        and isinstance(c.ops[0], ast.Eq)):
                    raise Refused('synonym test: ' + ast.unparse(c))
                alts.append(_const_str(c.comparators[0]))
            rules.append(('eq', alts, res))
        if not node.orelse:
            break
        if len(node.orelse) != 1:
            raise Refused('synonym chain else branch')
        node = node.orelse[0]
    # elif bare == 'PK': return bare
    if len(top.orelse) != 1 or not isinstance(top.orelse[0], ast.If):
        raise Refused('short-name branch changed')
    sh = top.orelse[0]
    if sh.orelse or ast.unparse(sh.body[0]) != 'return bare':
        raise Refused('short-name branch changed')
    cmps = sh.test.values if isinstance(sh.test, ast.BoolOp) and isinstance(sh.test.op, ast.Or) else [sh.test]
    short = []
    for c in cmps:
        if not (isinstance(c, ast.Compare) and ast.unparse(c.left) == 'bare' and isinstance(c.ops[0], ast.Eq)):
            raise Refused('short-name test')
        short.append(_const_str(c.comparators[0]))
    return minlen, rules, short


def record_order(tree):
    node = _find(tree, ast.Assign, 'default_record_order')
    if not isinstance(node.value, ast.List):
        raise Refused('default_record_order is not a list literal')
    return [_const_str(e) for e in node.value.elts]


def parser_steps(tree):
    out = []
    for node in tree.body:
        if not isinstance(node, ast.ClassDef):
            continue
        if not any(isinstance(d, ast.Name) and d.id == 'install_grammar' for d in node.decorator_list):
            continue
        steps = []
        for st in node.body:
            if isinstance(st, ast.Assign) and any(isinstance(t, ast.Name) and t.id == 'post_process' for t in st.targets):
                if not isinstance(st.value, ast.Tuple):
                    raise Refused('post_process is not a tuple literal')
                for e in st.value.elts:
                    if isinstance(e, ast.Call) and isinstance(e.func, ast.Name) and e.func.id == 'InsertMissing':
                        steps.append(0)
                    elif isinstance(e, ast.Call) and isinstance(e.func, ast.Name) and e.func.id == 'InitOrLow':
                        steps.append(1)
                    elif isinstance(e, ast.Name) and e.id == 'with_ignored_tokens':
                        steps.append(2)
                    else:
                        raise Refused('unknown post processor ' + ast.unparse(e))
        out.append((node.name, steps))
    return out


def regex_constants(nm_tree, fac_tree, ign_tree):
    """The two regular expressions and the character classes that the hand-written scanners model."""
    consts = {}
    for node in ast.walk(nm_tree):
        if isinstance(node, ast.Call) and ast.unparse(node.func) == 're.split':
            consts['split'] = ast.unparse(node)
    fn = _find(fac_tree, ast.FunctionDef, 'split_raw_record_name')
    for node in ast.walk(fn):
        if isinstance(node, ast.Call) and ast.unparse(node.func) == 're.match':
            consts['name'] = ast.unparse(node)
    for name in ('WS', 'LF'):
        node = _find(ign_tree, ast.Assign, name)
        if not isinstance(node.value, ast.Set):
            raise Refused(f'{name} is not a set literal')
        consts[name] = sorted(ord(_const_str(e)) for e in node.value.elts)
    return consts


EXPECT_SPLIT = "re.split('^([ \\\\t]*\\\\$)', text, flags=re.MULTILINE)"
EXPECT_NAME = "re.match('(\\\\s*\\\\$[A-za-z]+)(.*)', line, flags=re.MULTILINE | re.DOTALL)"


def sizes_thresholds(tree):
    """(bound of `if value < B` in set_LTH, bound of `if value > D` that sets PC, bound of `if value > M` that raises)."""
    cls = _find(tree, ast.ClassDef, 'SizesRecord')
    fns = {n.name: n for n in cls.body if isinstance(n, ast.FunctionDef)}

    def cmp_const(test, op):
        if not (isinstance(test, ast.Compare) and ast.unparse(test.left) == 'value' and len(test.ops) == 1
                and isinstance(test.ops[0], op) and isinstance(test.comparators[0], ast.Constant)
                and isinstance(test.comparators[0].value, int)):
            raise Refused('sizes_record: unexpected test ' + ast.unparse(test))
        return test.comparators[0].value
    lth = [n for n in fns['set_LTH'].body if isinstance(n, ast.If)]
    if len(lth) != 1 or "remove_option('LTH')" not in ast.unparse(lth[0].body[0]) or "set_option('LTH', str(value))" not in ast.unparse(lth[0].orelse[0]):
        raise Refused('set_LTH changed: ' + ast.unparse(fns['set_LTH'])[:200])
    b = cmp_const(lth[0].test, ast.Lt)
    pc = [n for n in fns['set_PC'].body if isinstance(n, ast.If)]
    if len(pc) != 2 or not isinstance(pc[0].body[0], ast.Raise) or "set_option('PC', str(value))" not in ast.unparse(pc[1].body[0]) \
            or "remove_option('PC')" not in ast.unparse(pc[1].orelse[0]):
        raise Refused('set_PC changed: ' + ast.unparse(fns['set_PC'])[:200])
    return b, cmp_const(pc[1].test, ast.Gt), cmp_const(pc[0].test, ast.Gt)


def python_space_ranges():
    """Code points matched by \\s in a str pattern (= stripped by str.lstrip()), as ranges, from the running interpreter."""
    import re
    pat = re.compile(r'\s')
    pts = [c for c in range(0x110000) if pat.match(chr(c))]
    strip = [c for c in range(0x110000) if not chr(c).lstrip()]
    if pts != strip:
        raise Refused('re \\s and str.lstrip() disagree on what is white space')
    ranges = []
    for c in pts:
        if ranges and ranges[-1][1] == c - 1:
            ranges[-1][1] = c
        else:
            ranges.append([c, c])
    return ranges


def generate(outfile):
    srcs = {}
    trees = {}
    for rel in (FACTORY, NMTRAN, PARSERS, IGNORED, SIZES):
        srcs[rel] = (REPO / rel).read_text()
        trees[rel] = ast.parse(srcs[rel])
    known = known_records(trees[FACTORY])
    minlen, rules, short = canonical_rules(trees[FACTORY])
    order = record_order(trees[NMTRAN])
    psteps = parser_steps(trees[PARSERS])
    consts = regex_constants(trees[NMTRAN], trees[FACTORY], trees[IGNORED])
    thr = sizes_thresholds(trees[SIZES])
    if consts.get('split') != EXPECT_SPLIT:
        raise Refused('record-splitting regex changed: ' + str(consts.get('split')))
    if consts.get('name') != EXPECT_NAME:
        raise Refused('record-name regex changed: ' + str(consts.get('name')))
    syn = []
    for r in rules:
        if r[0] == 'prefix':
            syn.append(f'SynPrefix {T(r[1])} {T(r[2])}')
        else:
            syn.append(f'SynEq {lst([T(a) for a in r[1]])} {T(r[2])}')
    text = (
        '(* GENERATED by harness/props/c03_tables.py from the current /repo source; do not edit *)\n'
        'From Coq Require Import String Ascii.\nFrom Coq Require Import List Bool NArith PArith Arith.\n'
        'From PV Require Import Base.PyData C03.Model C03.Check.\nImport ListNotations.\n'
        'Definition gen_tables : tables := mkTables\n  '
        + lst([f'({T(a)}, {T(b)}, {T(c)})' for a, b, c in known]) + f'\n  {minlen}%nat\n  ' + lst(syn) + '\n  '
        + lst([T(s) for s in short]) + '\n  ' + lst([T(s) for s in order]) + '\n  '
        + lst([f'({T(n)}, {lst([str(k) + "%nat" for k in ks])})' for n, ks in psteps]) + '.\n'
        f'Definition gen_ws : list N := {lst([str(c) + "%N" for c in consts["WS"]])}.\n'
        f'Definition gen_lf : list N := {lst([str(c) + "%N" for c in consts["LF"]])}.\n'
        f'Definition gen_space : list (N * N) := {lst([f"({a}%N, {b}%N)" for a, b in python_space_ranges()])}.\n'
        f'Definition gen_sizes : sizes_thr := mkSizesThr {thr[0]}%nat {thr[1]}%nat {thr[2]}%nat.\n'
        'Example gen_sizes_match : Nat.eqb (lth_bound gen_sizes) (lth_bound static_sizes) && Nat.eqb (pc_default gen_sizes) '
        '(pc_default static_sizes) && Nat.eqb (pc_max gen_sizes) (pc_max static_sizes) = true.\nProof. vm_compute. reflexivity. Qed.\n'
        'Example gen_space_match : list_eqb (fun a b => N.eqb (fst a) (fst b) && N.eqb (snd a) (snd b)) gen_space space_ranges = true.\n'
        'Proof. vm_compute. reflexivity. Qed.\n'
        'Example gen_tables_match : tables_eqb gen_tables static_tables = true.\nProof. vm_compute. reflexivity. Qed.\n'
        'Example gen_abbrev_ok : abbrev_ok gen_tables = true.\nProof. vm_compute. reflexivity. Qed.\n'
        'Example gen_parsers_ok : parsers_ok gen_tables = true.\nProof. vm_compute. reflexivity. Qed.\n'
        'Example gen_ws_match : forallb is_ws gen_ws && forallb (fun c => Bool.eqb (is_ws c) (existsb (N.eqb c) gen_ws)) '
        '(map N.of_nat (seq 0 300)) = true.\nProof. vm_compute. reflexivity. Qed.\n'
        'Example gen_lf_match : forallb is_crlf gen_lf && forallb (fun c => Bool.eqb (is_crlf c) (existsb (N.eqb c) gen_lf)) '
        '(map N.of_nat (seq 0 300)) = true.\nProof. vm_compute. reflexivity. Qed.\n')
    outfile.parent.mkdir(parents=True, exist_ok=True)
    outfile.write_text(text)
    sha = {rel: hashlib.sha256(s.encode()).hexdigest()[:16] for rel, s in srcs.items()}
    return {'obligations': 7, 'sha': sha, 'known': len(known), 'synonyms': len(rules), 'order': len(order),
            'parsers': len(psteps)}
