"""C03 T-tables translator: regenerates, from the CURRENT source text of /repo, the literal tables and
constants the C03 model depends on, as a Coq file with obligations.  Fail-closed: any AST shape it does
not know raises Refused (reported as TRANSLATOR-REFUSED)."""
import ast
import hashlib

from harness.lib.core import REPO

FACTORY = 'src/pharmpy/model/external/nonmem/records/factory.py'
NMTRAN = 'src/pharmpy/model/external/nonmem/nmtran_parser.py'
PARSERS = 'src/pharmpy/model/external/nonmem/records/parsers.py'
IGNORED = 'src/pharmpy/internals/parse/ignored.py'
SIZES = 'src/pharmpy/model/external/nonmem/records/sizes_record.py'


class Refused(Exception):
    pass


def T(s):
    assert all(32 <= ord(c) < 127 and c != '"' for c in s), s
    return f'(T "{s}")'


def lst(xs):
    return '[' + '; '.join(xs) + ']'


def _const_str(node):
    if isinstance(node, ast.Constant) and isinstance(node.value, str):
        return node.value
    raise Refused(f'expected a string constant, got {ast.dump(node)[:80]}')


def _find(tree, kind, name):
    for node in tree.body:
        if isinstance(node, kind):
            if kind is ast.Assign and any(isinstance(t, ast.Name) and t.id == name for t in node.targets):
                return node
            if kind in (ast.FunctionDef, ast.ClassDef) and node.name == name:
                return node
    raise Refused(f'{name} not found')


def known_records(tree):
    node = _find(tree, ast.Assign, 'known_records')
    if not isinstance(node.value, ast.Dict):
        raise Refused('known_records is not a dict literal')
    out = []
    for k, v in zip(node.value.keys, node.value.values):
        if not (isinstance(v, ast.Tuple) and len(v.elts) == 2 and all(isinstance(e, ast.Name) for e in v.elts)):
            raise Refused('known_records value is not (Class, Parser)')
        out.append((_const_str(k), v.elts[0].id, v.elts[1].id))
    return out


def canonical_rules(tree):
    fn = _find(tree, ast.FunctionDef, 'get_canonical_record_name')
    body = [s for s in fn.body if not (isinstance(s, ast.Expr) and isinstance(s.value, ast.Constant))]
    if len(body) != 3:
        raise Refused('get_canonical_record_name: unexpected number of statements')
    bare, top, ret = body
    if ast.unparse(bare) != 'bare = raw_name.lstrip()[1:].upper()':
        raise Refused('bare assignment changed: ' + ast.unparse(bare))
    if ast.unparse(ret) != 'return None':
        raise Refused('final return changed')
    if not isinstance(top, ast.If):
        raise Refused('no top-level if')
    t = top.test
    if not (isinstance(t, ast.Compare) and ast.unparse(t.left) == 'len(bare)' and len(t.ops) == 1
            and isinstance(t.ops[0], ast.GtE) and isinstance(t.comparators[0], ast.Constant)):
        raise Refused('length test changed: ' + ast.unparse(t))
    minlen = t.comparators[0].value
    if len(top.body) != 2:
        raise Refused('unexpected body of the length branch')
    loop, chain = top.body
    if ast.unparse(loop) != 'for name in known_records:\n    if name.startswith(bare):\n        return name':
        raise Refused('known_records loop changed: ' + ast.unparse(loop))
    rules = []
    node = chain
    while True:
        if not isinstance(node, ast.If) or len(node.body) != 1 or not isinstance(node.body[0], ast.Return):
            raise Refused('synonym chain: unexpected statement ' + ast.unparse(node)[:80])
        res = _const_str(node.body[0].value)
        test = node.test
        if (isinstance(test, ast.Call) and isinstance(test.func, ast.Attribute) and test.func.attr == 'startswith'
                and len(test.args) == 1 and ast.unparse(test.args[0]) == 'bare'):
            rules.append(('prefix', _const_str(test.func.value), res))
        else:
            cmps = test.values if isinstance(test, ast.BoolOp) and isinstance(test.op, ast.Or) else [test]
            alts = []
            for c in cmps:
                if not (isinstance(c, ast.Compare) and ast.unparse(c.left) == 'bare' and len(c.ops) == 1
                        and isinstance(c.ops[0], ast.Eq)):
                    raise Refused('synonym test: ' + ast.unparse(c))
                alts.append(_const_str(c.comparators[0]))
            rules.append(('eq', alts, res))
        if not node.orelse:
            break
        if len(node.orelse) != 1:
            raise Refused('synonym chain else branch')
        node = node.orelse[0]
    # elif bare == 'PK': return bare
    if len(top.orelse) != 1 or not isinstance(top.orelse[0], ast.If):
        raise Refused('short-name branch changed')
    sh = top.orelse[0]
    if sh.orelse or ast.unparse(sh.body[0]) != 'return bare':
        raise Refused('short-name branch changed')
    cmps = sh.test.values if isinstance(sh.test, ast.BoolOp) and isinstance(sh.test.op, ast.Or) else [sh.test]
    short = []
    for c in cmps:
        if not (isinstance(c, ast.Compare) and ast.unparse(c.left) == 'bare' and isinstance(c.ops[0], ast.Eq)):
            raise Refused('short-name test')
        short.append(_const_str(c.comparators[0]))
    return minlen, rules, short


def record_order(tree):
    node = _find(tree, ast.Assign, 'default_record_order')
    if not isinstance(node.value, ast.List):
        raise Refused('default_record_order is not a list literal')
    return [_const_str(e) for e in node.value.elts]


def parser_steps(tree):
    out = []
    for node in tree.body:
        if not isinstance(node, ast.ClassDef):
            continue
        if not any(isinstance(d, ast.Name) and d.id == 'install_grammar' for d in node.decorator_list):
            continue
        steps = []
        for st in node.body:
            if isinstance(st, ast.Assign) and any(isinstance(t, ast.Name) and t.id == 'post_process' for t in st.targets):
                if not isinstance(st.value, ast.Tuple):
                    raise Refused('post_process is not a tuple literal')
                for e in st.value.elts:
                    if isinstance(e, ast.Call) and isinstance(e.func, ast.Name) and e.func.id == 'InsertMissing':
                        steps.append(0)
                    elif isinstance(e, ast.Call) and isinstance(e.func, ast.Name) and e.func.id == 'InitOrLow':
                        steps.append(1)
                    elif isinstance(e, ast.Name) and e.id == 'with_ignored_tokens':
                        steps.append(2)
                    else:
                        raise Refused('unknown post processor ' + ast.unparse(e))
        out.append((node.name, steps))
    return out


def regex_constants(nm_tree, fac_tree, ign_tree):
    """The two regular expressions and the character classes that the hand-written scanners model."""
    consts = {}
    for node in ast.walk(nm_tree):
        if isinstance(node, ast.Call) and ast.unparse(node.func) == 're.split':
            consts['split'] = ast.unparse(node)
    fn = _find(fac_tree, ast.FunctionDef, 'split_raw_record_name')
    for node in ast.walk(fn):
        if isinstance(node, ast.Call) and ast.unparse(node.func) == 're.match':
            consts['name'] = ast.unparse(node)
    for name in ('WS', 'LF'):
        node = _find(ign_tree, ast.Assign, name)
        if not isinstance(node.value, ast.Set):
            raise Refused(f'{name} is not a set literal')
        consts[name] = sorted(ord(_const_str(e)) for e in node.value.elts)
    return consts



# ------------------------------------------------------------------ touched_kinds: component of the model -> record kinds
UPDATE = 'src/pharmpy/model/external/nonmem/update.py'
MODEL = 'src/pharmpy/model/external/nonmem/model.py'
EDIT_METHODS = {'insert_record', 'remove_records', 'replace_records', 'replace_all'}
GETTERS = {'get_pred_pk_record': ['PRED', 'PK'], 'get_error_pred_record': ['PRED', 'ERROR'], 'get_pk_record': ['PK'],
           'get_error_record': ['ERROR'], 'get_des_record': ['DES']}
# update functions whose component cannot be read off an `old_X` snapshot mention (documented rule of the translator)
FIXED_COMPONENTS = {'abbr_translation': {'random_variables'},
                    # the initial values in $OMEGA / $SIGMA are parameters of the model
                    'update_random_variables': {'parameters'},
                    'update_sizes': {'parameters', 'random_variables', 'statements'}}


def _literal_prefix(node):
    if isinstance(node, ast.Constant) and isinstance(node.value, str):
        return node.value
    if isinstance(node, ast.JoinedStr):
        return node.values[0].value if node.values and isinstance(node.values[0], ast.Constant) else ''
    return None


def touched_table():
    """{component: sorted record kinds} — which kinds of records update_source may regenerate when a component of the model
    differs from its old_* snapshot.  Kinds of an update function = record names in `$NAME...` string literals it contains,
    names passed to get_records / replace_all / local functions, records returned by the get_*_record getters, closed over
    the functions of update.py it calls; its components = old_X snapshots mentioned in the call, in the enclosing `if` tests
    of update_source and in its own (closed) body, or FIXED_COMPONENTS.  Over-approximation, validated on every real trace."""
    import re
    utree = ast.parse((REPO / UPDATE).read_text())
    mtree = ast.parse((REPO / MODEL).read_text())
    fac = ast.parse((REPO / FACTORY).read_text())
    known = [k for k, _, _ in known_records(fac)]
    minlen, rules, _ = canonical_rules(fac)
    names = set(known) | set(record_order(ast.parse((REPO / NMTRAN).read_text())))

    def canon(bare):
        bare = bare.upper()
        if len(bare) >= minlen:
            for n in known:
                if n.startswith(bare):
                    return n
            for r in rules:
                if (r[0] == 'prefix' and r[1].startswith(bare)) or (r[0] == 'eq' and bare in r[1]):
                    return r[2]
        return bare

    funcs = {n.name: n for n in utree.body if isinstance(n, ast.FunctionDef)}

    def base(fn):
        kinds, calls, edits, olds = set(), set(), False, set()
        for node in ast.walk(fn):
            if isinstance(node, ast.Call):
                f = node.func
                named_args = False
                if isinstance(f, ast.Attribute):
                    edits = edits or f.attr in EDIT_METHODS
                    kinds.update(GETTERS.get(f.attr, []))
                    named_args = f.attr in ('get_records', 'replace_all', '_get_first_record')
                elif isinstance(f, ast.Name) and f.id in funcs:
                    calls.add(f.id)
                    named_args = True
                if named_args:
                    for a in node.args:
                        if isinstance(a, ast.Constant) and isinstance(a.value, str) and a.value in names:
                            kinds.add(a.value)
            if isinstance(node, ast.Attribute) and node.attr.startswith('old_'):
                olds.add(node.attr[4:])
            p = _literal_prefix(node)
            if p:
                m = re.match(r'\s*\$([A-Za-z]+)', p)
                if m:
                    kinds.add(canon(m.group(1)))
        return kinds, calls, edits, olds

    info = {name: base(fn) for name, fn in funcs.items()}

    def closure(f, seen=()):
        if f in seen:
            return set(), False, set()
        k, c, e, o = info[f]
        k, o = set(k), set(o)
        for g in c:
            k2, e2, o2 = closure(g, seen + (f,))
            k |= k2
            e = e or e2
            o |= o2
        return k, e, o

    cls = _find(mtree, ast.ClassDef, 'Model')
    us = [n for n in cls.body if isinstance(n, ast.FunctionDef) and n.name == 'update_source']
    if len(us) != 1:
        raise Refused('Model.update_source not found')
    table = {}

    def olds_in(node):
        return {n.attr[4:] for n in ast.walk(node) if isinstance(n, ast.Attribute) and n.attr.startswith('old_')}

    def add(comps, kinds):
        for c in comps:
            table.setdefault(c, set()).update(kinds)

    def visit(stmts, ctx):
        for st in stmts:
            if isinstance(st, ast.If):
                c2 = ctx | olds_in(st.test)
                visit(st.body, c2)
                visit(st.orelse, c2)
                continue
            if isinstance(st, ast.For):
                visit(st.body, ctx)
                visit(st.orelse, ctx)
                continue
            if isinstance(st, (ast.While, ast.With, ast.Try, ast.FunctionDef, ast.ClassDef)):
                raise Refused('unexpected compound statement in update_source: ' + type(st).__name__)
            for node in ast.walk(st):
                if not isinstance(node, ast.Call):
                    continue
                f = node.func
                if isinstance(f, ast.Name) and f.id in funcs:
                    k, e, o = closure(f.id)
                    if not e:
                        continue
                    comps = ctx | olds_in(node) | o | FIXED_COMPONENTS.get(f.id, set())
                    if not comps:
                        raise Refused('update_source: no component found for ' + f.id)
                    if not k:
                        raise Refused('update_source: no record kind found for ' + f.id)
                    add(comps, k)
                elif isinstance(f, ast.Attribute) and f.attr == 'get_records':
                    if not (node.args and isinstance(node.args[0], ast.Constant)):
                        raise Refused('update_source: get_records with a computed name')
                    if not ctx:
                        raise Refused('update_source: inline record access outside a snapshot test')
                    add(ctx, {node.args[0].value})
                elif isinstance(f, ast.Attribute) and f.attr in EDIT_METHODS and not ctx:
                    raise Refused('update_source: inline edit outside a snapshot test')
    visit(us[0].body, set())
    return {c: sorted(k) for c, k in sorted(table.items())}


EXPECT_SPLIT = "re.split('^([ \\\\t]*\\\\$)', text, flags=re.MULTILINE)"
EXPECT_NAME = "re.match('(\\\\s*\\\\$[A-za-z]+)(.*)', line, flags=re.MULTILINE | re.DOTALL)"


def sizes_thresholds(tree):
    """(bound of `if value < B` in set_LTH, bound of `if value > D` that sets PC, bound of `if value > M` that raises)."""
    cls = _find(tree, ast.ClassDef, 'SizesRecord')
    fns = {n.name: n for n in cls.body if isinstance(n, ast.FunctionDef)}

    def cmp_const(test, op):
        if not (isinstance(test, ast.Compare) and ast.unparse(test.left) == 'value' and len(test.ops) == 1
                and isinstance(test.ops[0], op) and isinstance(test.comparators[0], ast.Constant)
                and isinstance(test.comparators[0].value, int)):
            raise Refused('sizes_record: unexpected test ' + ast.unparse(test))
        return test.comparators[0].value
    lth = [n for n in fns['set_LTH'].body if isinstance(n, ast.If)]
    if len(lth) != 1 or "remove_option('LTH')" not in ast.unparse(lth[0].body[0]) or "set_option('LTH', str(value))" not in ast.unparse(lth[0].orelse[0]):
        raise Refused('set_LTH changed: ' + ast.unparse(fns['set_LTH'])[:200])
    b = cmp_const(lth[0].test, ast.Lt)
    pc = [n for n in fns['set_PC'].body if isinstance(n, ast.If)]
    if len(pc) != 2 or not isinstance(pc[0].body[0], ast.Raise) or "set_option('PC', str(value))" not in ast.unparse(pc[1].body[0]) \
            or "remove_option('PC')" not in ast.unparse(pc[1].orelse[0]):
        raise Refused('set_PC changed: ' + ast.unparse(fns['set_PC'])[:200])
    return b, cmp_const(pc[1].test, ast.Gt), cmp_const(pc[0].test, ast.Gt)


def python_space_ranges():
    """Code points matched by \\s in a str pattern (= stripped by str.lstrip()), as ranges, from the running interpreter."""
    import re
    pat = re.compile(r'\s')
    pts = [c for c in range(0x110000) if pat.match(chr(c))]
    strip = [c for c in range(0x110000) if not chr(c).lstrip()]
    if pts != strip:
        raise Refused('re \\s and str.lstrip() disagree on what is white space')
    ranges = []
    for c in pts:
        if ranges and ranges[-1][1] == c - 1:
            ranges[-1][1] = c
        else:
            ranges.append([c, c])
    return ranges


def generate(outfile):
    srcs = {}
    trees = {}
    for rel in (FACTORY, NMTRAN, PARSERS, IGNORED, SIZES, UPDATE, MODEL):
        srcs[rel] = (REPO / rel).read_text()
        trees[rel] = ast.parse(srcs[rel])
    known = known_records(trees[FACTORY])
    minlen, rules, short = canonical_rules(trees[FACTORY])
    order = record_order(trees[NMTRAN])
    psteps = parser_steps(trees[PARSERS])
    consts = regex_constants(trees[NMTRAN], trees[FACTORY], trees[IGNORED])
    thr = sizes_thresholds(trees[SIZES])
    touched = touched_table()
    if consts.get('split') != EXPECT_SPLIT:
        raise Refused('record-splitting regex changed: ' + str(consts.get('split')))
    if consts.get('name') != EXPECT_NAME:
        raise Refused('record-name regex changed: ' + str(consts.get('name')))
    syn = []
    for r in rules:
        if r[0] == 'prefix':
            syn.append(f'SynPrefix {T(r[1])} {T(r[2])}')
        else:
            syn.append(f'SynEq {lst([T(a) for a in r[1]])} {T(r[2])}')
    text = (
        '(* GENERATED by harness/props/c03_tables.py from the current /repo source; do not edit *)\n'
        'From Coq Require Import String Ascii.\nFrom Coq Require Import List Bool NArith PArith Arith.\n'
        'From PV Require Import Base.PyData C03.Model C03.Check.\nImport ListNotations.\n'
        'Definition gen_tables : tables := mkTables\n  '
        + lst([f'({T(a)}, {T(b)}, {T(c)})' for a, b, c in known]) + f'\n  {minlen}%nat\n  ' + lst(syn) + '\n  '
        + lst([T(s) for s in short]) + '\n  ' + lst([T(s) for s in order]) + '\n  '
        + lst([f'({T(n)}, {lst([str(k) + "%nat" for k in ks])})' for n, ks in psteps]) + '.\n'
        f'Definition gen_ws : list N := {lst([str(c) + "%N" for c in consts["WS"]])}.\n'
        f'Definition gen_lf : list N := {lst([str(c) + "%N" for c in consts["LF"]])}.\n'
        f'Definition gen_space : list (N * N) := {lst([f"({a}%N, {b}%N)" for a, b in python_space_ranges()])}.\n'
        f'Definition gen_sizes : sizes_thr := mkSizesThr {thr[0]}%nat {thr[1]}%nat {thr[2]}%nat.\n'
        'Example gen_sizes_match : Nat.eqb (lth_bound gen_sizes) (lth_bound static_sizes) && Nat.eqb (pc_default gen_sizes) '
        '(pc_default static_sizes) && Nat.eqb (pc_max gen_sizes) (pc_max static_sizes) = true.\nProof. vm_compute. reflexivity. Qed.\n'
        'Definition gen_touched : list (text * list text) := '
        + lst([f'({T(c)}, {lst([T(k) for k in ks])})' for c, ks in touched.items()]) + '.\n'
        'Example gen_touched_match : list_eqb (fun a b => text_eqb (fst a) (fst b) && list_eqb text_eqb (snd a) (snd b)) '
        'gen_touched static_touched = true.\nProof. vm_compute. reflexivity. Qed.\n'
        'Example gen_space_match : list_eqb (fun a b => N.eqb (fst a) (fst b) && N.eqb (snd a) (snd b)) gen_space space_ranges = true.\n'
        'Proof. vm_compute. reflexivity. Qed.\n'
        'Example gen_tables_match : tables_eqb gen_tables static_tables = true.\nProof. vm_compute. reflexivity. Qed.\n'
        'Example gen_abbrev_ok : abbrev_ok gen_tables = true.\nProof. vm_compute. reflexivity. Qed.\n'
        'Example gen_parsers_ok : parsers_ok gen_tables = true.\nProof. vm_compute. reflexivity. Qed.\n'
        'Example gen_ws_match : forallb is_ws gen_ws && forallb (fun c => Bool.eqb (is_ws c) (existsb (N.eqb c) gen_ws)) '
        '(map N.of_nat (seq 0 300)) = true.\nProof. vm_compute. reflexivity. Qed.\n'
        'Example gen_lf_match : forallb is_crlf gen_lf && forallb (fun c => Bool.eqb (is_crlf c) (existsb (N.eqb c) gen_lf)) '
        '(map N.of_nat (seq 0 300)) = true.\nProof. vm_compute. reflexivity. Qed.\n')
    outfile.parent.mkdir(parents=True, exist_ok=True)
    outfile.write_text(text)
    sha = {rel: hashlib.sha256(s.encode()).hexdigest()[:16] for rel, s in srcs.items()}
    return {'obligations': 8, 'touched': touched, 'sha': sha, 'known': len(known), 'synonyms': len(rules), 'order': len(order),
            'parsers': len(psteps)}
