"""T-effects — fail-closed Python-`ast` translator: pharmpy source -> dataset-effect IR (Gallina text).

Every function/method defined in `pharmpy/modeling/*.py` and `pharmpy/model/external/nonmem/update.py`
(plus the two dataset helpers of `pharmpy/model/model.py`) is translated, *syntax-directed and without
any analysis on the Python side*, into a program of the regular-expression-like IR of
`coq/theories/C06/Model.v`:

    prog ::= Skip | Op o | Seq p q | Alt p q | Star p | Part p
    o    ::= Alias v                 v := <expr>.dataset | <expr>._dataset | get_and_check_dataset(..)
           | Move v [w..]            v := a value that may be (a view of / a container holding) any of w..
           | Copy v [w..]            v := freshly allocated object (w.copy(), w.query(..), pd.DataFrame(..) ...)
           | Write d w k             in-place mutation of the object w refers to; d = true: definite
                                     (subscript/attribute store, del, inplace=True, known mutator method),
                                     d = false: call of a method / function the tables below do not know
           | Call r f [[w..]..]      r := f(args) for an analysed function f (argument i derives from w..)

The analysis (which variable may alias the input dataset or a parameter, which origin is written,
interprocedural summaries) and its soundness proof are in Coq.  Trusted here: the mapping of Python
control flow to Seq/Alt/Star/Part (every Python execution is a prefix-closed trace of the regular
expression), and the three classification tables FRESH_METHODS / VIEW_METHODS / MUTATOR_METHODS.

Anything the translator does not understand raises `Refused` (TRANSLATOR-REFUSED, fail closed).
"""
import ast
import hashlib
import json
from pathlib import Path


class Refused(Exception):
    pass


# ---------------------------------------------------------------------------------- tables
# result is a NEW object that shares no memory with the receiver and the receiver is not mutated
# (pandas DataFrame/Series/GroupBy/Index, numpy, builtin containers)
FRESH_METHODS = {
    'copy', 'deepcopy', 'query', 'astype', 'reset_index', 'set_index', 'assign', 'drop', 'dropna', 'fillna',
    'rename', 'sort_values', 'sort_index', 'merge', 'join', 'unique', 'nunique', 'isna', 'isnull', 'notna',
    'notnull', 'any', 'all', 'sum', 'mean', 'median', 'std', 'var', 'min', 'max', 'count', 'cumsum', 'cumcount',
    'cumprod', 'cummax', 'cummin', 'diff', 'shift', 'transform', 'apply', 'agg', 'aggregate', 'map', 'applymap',
    'tolist', 'to_list', 'to_dict', 'to_csv', 'to_string', 'to_json', 'to_html', 'to_latex', 'value_counts',
    'first', 'last', 'nth', 'sample', 'where', 'mask', 'isin', 'between', 'duplicated', 'drop_duplicates',
    'pivot', 'pivot_table', 'melt', 'stack', 'unstack', 'round', 'abs', 'clip', 'corr', 'cov', 'describe',
    'equals', 'eq', 'ne', 'lt', 'gt', 'le', 'ge', 'sub', 'mul', 'div', 'truediv', 'floordiv', 'mod', 'pow',
    'dot', 'idxmax', 'idxmin', 'argmax', 'argmin', 'argsort', 'mode', 'quantile', 'rank', 'size', 'ngroup',
    'nlargest', 'nsmallest', 'replace', 'reindex', 'rename_axis', 'droplevel', 'to_frame', 'to_series',
    'explode', 'interpolate', 'ffill', 'bfill', 'pct_change', 'rolling', 'expanding', 'resample', 'get_group',
    'select_dtypes', 'convert_dtypes', 'infer_objects', 'total_seconds', 'format', 'split', 'strip', 'lower',
    'upper', 'startswith', 'endswith', 'index', 'find', 'encode', 'decode', 'isdigit', 'isnumeric', 'title',
    'lstrip', 'rstrip', 'zfill', 'ljust', 'rjust', 'capitalize', 'partition', 'rpartition', 'rsplit',
    'splitlines', 'isalpha', 'isalnum', 'isspace', 'is_integer', 'hexdigest', 'difference', 'union',
    'intersection', 'symmetric_difference', 'issubset', 'issuperset', 'isdisjoint', 'flatten', 'prod',
    'nonzero', 'repeat', 'searchsorted', 'tobytes', 'conjugate', 'cat', 'contains', 'match', 'fullmatch',
    'groups', 'group', 'sub_', 'filter', 'add_prefix', 'add_suffix', 'combine_first', 'compare', 'memory_usage',
    'is_unique', 'tolist_', 'item', 'bit_length', 'as_integer_ratio', 'with_suffix', 'with_name', 'resolve',
    'exists', 'is_file', 'is_dir', 'read_text', 'open', 'mkdir', 'write_text', 'absolute', 'relative_to',
    'joinpath', 'expanduser', 'samefile', 'iterdir', 'glob', 'rglob', 'to_datetime', 'to_timedelta', 'normalize',
    'floor', 'ceil', 'isoformat', 'strftime', 'date', 'time', 'timestamp', 'cumcount_', 'le_', 'ne_',
    'getvalue', 'readline', 'readlines', 'read', 'hist', 'histogram',
}
# the receiver is not mutated but the result MAY share memory with it (treated as an alias)
VIEW_METHODS = {
    'groupby', 'head', 'tail', 'squeeze', 'to_numpy', 'get', 'items', 'keys', 'values', 'iterrows', 'itertuples',
    'transpose', 'xs', 'take', 'view', 'reshape', 'ravel', 'swapaxes', 'swaplevel', 'get_level_values',
    'to_records', '__getitem__', 'set_axis', 'pipe', 'droplevel_', 'asof', 'at_time', 'between_time', 'truncate',
    'iteritems', '__iter__', '__next__', 'elements', 'most_common',
    # altair chart builders (return new chart objects referring to the same data)
    'mark_circle', 'mark_line', 'mark_point', 'mark_bar', 'mark_area', 'mark_text', 'mark_rule', 'mark_errorband',
    'mark_errorbar', 'mark_tick', 'mark_boxplot', 'mark_rect', 'mark_square', 'encode', 'properties', 'interactive',
    'facet', 'layer', 'resolve_scale', 'add_params', 'add_selection', 'transform_filter', 'transform_calculate',
    'transform_fold', 'transform_density', 'transform_regression', 'transform_loess', 'transform_window',
    'transform_aggregate', 'transform_joinaggregate', 'transform_quantile', 'configure_axis', 'configure_view',
    'configure_legend', 'configure_title', 'configure', 'to_dict_', 'bind_scales',
}
# the receiver IS mutated in place (pandas / numpy / list / dict / set / attribute machinery)
MUTATOR_METHODS = {
    'insert', 'pop', 'update', 'append', 'extend', 'remove', 'clear', 'sort', 'reverse', 'discard', 'setdefault',
    'popitem', 'setflags', 'fill', 'put', 'itemset', 'resize', '__setitem__', '__delitem__', '__setattr__',
    '__delattr__', '__iadd__', 'intersection_update', 'difference_update', 'symmetric_difference_update',
    'shuffle', 'add', 'appendleft', 'popleft', 'extendleft', 'rotate', 'write', 'writelines', 'truncate_',
    'eval', 'set_flags',
}
# module aliases whose functions are engine code: they do not mutate their arguments except the names in
# MODULE_MUTATORS; the result may share memory with the arguments
ENGINE_MODULES = {'np', 'numpy', 'pd', 'pandas', 'math', 'sympy', 'symengine', 'nx', 're', 'os', 'json', 'itertools',
                  'warnings', 'functools', 'operator', 'string', 'random', 'scipy', 'linalg', 'stats', 'alt',
                  'altair', 'time', 'datetime', 'collections', 'copy', 'shutil', 'sys', 'io', 'csv', 'textwrap',
                  'typing', 'dataclasses', 'importlib', 'subprocess', 'tempfile', 'uuid', 'inspect', 'pint',
                  'rich', 'lxml', 'etree'}
MODULE_MUTATORS = {'put', 'fill_diagonal', 'copyto', 'place', 'putmask', 'shuffle', 'put_along_axis', 'setattr',
                   'delattr', 'heappush', 'heappop', 'insort', 'rmtree', 'move'}
# fresh results from engine module functions (no sharing with the arguments)
MODULE_FRESH = {'concat', 'merge', 'DataFrame', 'Series', 'Index', 'MultiIndex', 'to_numeric', 'to_datetime',
                'to_timedelta', 'cut', 'qcut', 'read_csv', 'read_table', 'isna', 'notna', 'unique', 'where',
                'array', 'zeros', 'ones', 'empty', 'full', 'arange', 'linspace', 'tile', 'repeat', 'concatenate',
                'vstack', 'hstack', 'stack', 'cumsum', 'sum', 'mean', 'median', 'std', 'var', 'exp', 'log', 'sqrt',
                'abs', 'isnan', 'isfinite', 'isclose', 'allclose', 'any', 'all', 'min', 'max', 'argmax', 'argmin',
                'sort', 'argsort', 'diag', 'eye', 'identity', 'outer', 'dot', 'matmul', 'floor', 'ceil', 'round',
                'histogram', 'histogram_bin_edges', 'percentile', 'quantile', 'digitize', 'searchsorted', 'diff',
                'copy', 'deepcopy', 'dumps', 'loads', 'float64', 'int32', 'int64', 'nanmean', 'nanmedian',
                'nanstd', 'nanmin', 'nanmax', 'nansum', 'count_nonzero', 'prod', 'sign', 'power', 'maximum',
                'minimum', 'logical_and', 'logical_or', 'logical_not', 'interp', 'trapz', 'cov', 'corrcoef',
                'get_dummies', 'crosstab', 'pivot_table', 'melt', 'date_range', 'Timedelta', 'Timestamp',
                'isin', 'in1d', 'setdiff1d', 'union1d', 'intersect1d', 'meshgrid', 'nonzero', 'flatnonzero',
                'triu', 'tril', 'trace', 'inv', 'det', 'eig', 'eigh', 'eigvals', 'eigvalsh', 'cholesky', 'norm',
                'solve', 'lstsq', 'pinv', 'svd', 'matrix_rank', 'product', 'chain', 'combinations', 'permutations',
                'isinf', 'nan_to_num', 'clip', 'around', 'cumprod', 'average', 'unravel_index', 'zeros_like',
                'ones_like', 'empty_like', 'full_like', 'frombuffer', 'fromiter', 'sub', 'search', 'match',
                'fullmatch', 'findall', 'split', 'compile', 'escape'}
# builtins: fresh result
BUILTIN_FRESH = {'len', 'int', 'float', 'str', 'bool', 'list', 'tuple', 'set', 'frozenset', 'dict', 'sorted', 'sum',
                 'min', 'max', 'any', 'all', 'range', 'isinstance', 'issubclass', 'print', 'round', 'abs', 'repr',
                 'hash', 'id', 'type', 'callable', 'hasattr', 'ord', 'chr', 'divmod', 'pow', 'format', 'bytes',
                 'open', 'input', 'bin', 'hex', 'oct', 'complex', 'object', 'slice', 'super', 'ValueError',
                 'TypeError', 'KeyError', 'IndexError', 'NotImplementedError', 'RuntimeError', 'AttributeError',
                 'AssertionError', 'StopIteration', 'Exception', 'UserWarning', 'DeprecationWarning',
                 'FileNotFoundError', 'FileExistsError', 'OSError', 'ZeroDivisionError', 'ImportError',
                 'Path', 'locals', 'globals', 'vars', 'dir'}
# builtins: result may hold references to the arguments
BUILTIN_VIEW = {'zip', 'enumerate', 'map', 'filter', 'iter', 'next', 'reversed', 'getattr', 'cast', 'partial'}
BUILTIN_MUTATORS = {'setattr', 'delattr'}

# pandas methods that accept inplace=
INPLACE_CAPABLE = {'drop', 'dropna', 'fillna', 'rename', 'sort_values', 'sort_index', 'reset_index', 'set_index',
                   'replace', 'drop_duplicates', 'query', 'eval', 'where', 'mask', 'clip', 'interpolate', 'ffill',
                   'bfill', 'set_axis', 'rename_axis'}
# methods that, applied to a pandas object, give a pandas object (or a scalar) — used ONLY to decide that a
# local name is frame-typed, i.e. that `name[...] = v` copies v's data instead of keeping a reference to v
PANDAS_PRODUCERS = {'copy', 'query', 'astype', 'reset_index', 'set_index', 'assign', 'drop', 'dropna', 'fillna',
                    'rename', 'sort_values', 'sort_index', 'merge', 'join', 'where', 'mask', 'replace',
                    'drop_duplicates', 'reindex', 'head', 'tail', 'sample', 'transform', 'cumsum', 'diff', 'shift',
                    'round', 'abs', 'clip', 'squeeze', 'to_frame', 'unstack', 'stack', 'melt', 'pivot', 'agg',
                    'aggregate', 'apply', 'map', 'isna', 'notna', 'isin', 'first', 'last', 'nth', 'sum', 'mean',
                    'median', 'min', 'max', 'count', 'std', 'var', 'size', 'cumcount', 'rank', 'groupby'}
PANDAS_MODULE_PRODUCERS = {'DataFrame', 'Series', 'concat', 'merge', 'read_csv', 'read_table', 'to_numeric',
                           'to_datetime', 'cut', 'qcut', 'get_dummies', 'crosstab', 'pivot_table', 'melt'}
DATASET_ATTRS = {'dataset', '_dataset'}
ALIAS_FUNCS = {'get_and_check_dataset'}


# ---------------------------------------------------------------------------------- IR builders
def Seq(ps):
    ps = [p for p in ps if p != 'Skip']
    if not ps:
        return 'Skip'
    if len(ps) == 1:
        return ps[0]
    return '(seqs [' + '; '.join(ps) + '])'


def Alt(ps):
    if not ps:
        return 'Skip'
    if len(ps) == 1:
        return ps[0]
    return '(alts [' + '; '.join(ps) + '])'


def Star(p):
    return 'Skip' if p == 'Skip' else f'(Star {p})'


def Part(p):
    return 'Skip' if p == 'Skip' else f'(Part {p})'


def vl(vs):
    return '[' + ';'.join(str(v) for v in vs) + ']'


class FunctionTranslator:
    """Translates one FunctionDef (with nested functions / lambdas inlined)."""

    def __init__(self, world, module, qualname, node, cls=None):
        self.world = world
        self.module = module
        self.qualname = qualname
        self.node = node
        self.cls = cls
        self.vars = {}          # local name -> var id
        self.nvars = 1          # 0 is RET
        self.nested = {}        # scoped key of a nested function name -> FunctionDef
        self.nested_scopes = {}
        self.inlining = []      # stack of nested functions being inlined (recursion guard)
        self.ret_stack = [0]
        self.callinfo = {}
        self.weak = 0           # > 0 inside a recursive nested function: assignments never kill
        self.inline_rv = {}

    # ---- variables and scopes
    # Every value variable v has a shadow variable ds(v): what `.dataset` of the value denotes.  Parameter i is the
    # pair of IR parameters (2i+1, 2i+2); the return value is (0, ret2) with ret2 the first variable after the IR
    # parameters; locals and temporaries are allocated in pairs (v, v+1).
    def var(self, key):
        if key not in self.vars:
            self.vars[key] = self.nvars
            self.nvars += 2
        return self.vars[key]

    def tmp(self):
        v = self.nvars
        self.nvars += 2
        return v

    def ds(self, v):
        return self.ret2 if v == 0 else v + 1

    def refuse(self, node, why):
        raise Refused(f'{self.module}:{self.qualname}:{getattr(node, "lineno", "?")}: {why}')

    def lookup(self, name):
        """var id of a local name (innermost scope first); None for globals / builtins / modules"""
        for sc in reversed(self.scopes):
            if name in sc:
                return self.var(sc[name])
        return None

    def lvar(self, name, node):
        v = self.lookup(name)
        if v is None:
            self.refuse(node, f'binding of non-local name {name}')
        return v

    def all_scope_vars(self):
        return sorted({self.var(k) for sc in self.scopes for k in sc.values()})

    def nested_of(self, name):
        for sc in reversed(self.scopes):
            if name in sc:
                return self.nested.get(sc[name])
        return None

    def push_scope(self, names):
        self.nscopes += 1
        self.scopes.append({n: f'{n}@{self.nscopes}' for n in names})

    def pop_scope(self):
        self.scopes.pop()

    @staticmethod
    def arg_names(a):
        names = [x.arg for x in a.posonlyargs + a.args + a.kwonlyargs]
        if a.vararg:
            names.append(a.vararg.arg)
        if a.kwarg:
            names.append(a.kwarg.arg)
        return names

    def own_bindings(self, body, args=None):
        """names bound in this scope itself (not inside nested functions / lambdas / comprehensions)"""
        names = set(self.arg_names(args)) if args is not None else set()

        def visit(n):
            if isinstance(n, (ast.FunctionDef, ast.AsyncFunctionDef)):
                names.add(n.name)
                for d in n.decorator_list + list(n.args.defaults) + [x for x in n.args.kw_defaults if x is not None]:
                    visit(d)
                return
            if isinstance(n, ast.Lambda):
                for d in list(n.args.defaults) + [x for x in n.args.kw_defaults if x is not None]:
                    visit(d)
                for sub in ast.walk(n.body):            # walrus inside a lambda binds in the lambda: ignore
                    pass
                return
            if isinstance(n, (ast.ListComp, ast.SetComp, ast.DictComp, ast.GeneratorExp)):
                for sub in ast.walk(n):                 # walrus in a comprehension binds in the enclosing scope
                    if isinstance(sub, ast.NamedExpr) and isinstance(sub.target, ast.Name):
                        names.add(sub.target.id)
                return
            if isinstance(n, ast.Name) and isinstance(n.ctx, (ast.Store, ast.Del)):
                names.add(n.id)
            elif isinstance(n, ast.ExceptHandler) and n.name:
                names.add(n.name)
            elif isinstance(n, (ast.Import, ast.ImportFrom)):
                for al in n.names:
                    names.add((al.asname or al.name).split('.')[0])
            elif isinstance(n, (ast.Global, ast.Nonlocal)):
                self.refuse(n, 'global/nonlocal statement')
            elif isinstance(n, ast.ClassDef):
                self.refuse(n, 'nested class definition')
            elif isinstance(n, (ast.MatchAs, ast.MatchStar)) and getattr(n, 'name', None):
                names.add(n.name)
            elif isinstance(n, ast.MatchMapping) and n.rest:
                names.add(n.rest)
            for c in ast.iter_child_nodes(n):
                visit(c)

        for n in (body if isinstance(body, list) else [body]):
            visit(n)
        return names

    # ---- frame-typed locals (syntactic, flow-insensitive, outermost scope only)
    def infer_frame_locals(self, fn):
        bindings = {}      # name -> list of value expressions, or None when bound in any other way

        def bad(name):
            bindings[name] = None

        def add(name, value):
            if bindings.get(name, []) is not None:
                bindings.setdefault(name, []).append(value)

        def visit(n):
            if isinstance(n, (ast.FunctionDef, ast.AsyncFunctionDef)):
                bad(n.name)
                # names assigned inside nested functions live in their own scope, but a nested function may
                # rebind nothing of ours (nonlocal is refused)
                return
            if isinstance(n, (ast.Lambda, ast.ListComp, ast.SetComp, ast.DictComp, ast.GeneratorExp)):
                for sub in ast.walk(n):
                    if isinstance(sub, ast.NamedExpr) and isinstance(sub.target, ast.Name):
                        bad(sub.target.id)
                return
            if isinstance(n, (ast.Assign, ast.AnnAssign)):
                targets = n.targets if isinstance(n, ast.Assign) else [n.target]
                for t in targets:
                    if isinstance(t, ast.Name):
                        if n.value is not None:
                            add(t.id, n.value)
                    else:
                        for sub in ast.walk(t):
                            if isinstance(sub, ast.Name) and isinstance(sub.ctx, ast.Store):
                                bad(sub.id)
                if n.value is not None:
                    visit(n.value)
                return
            if isinstance(n, ast.Name) and isinstance(n.ctx, (ast.Store, ast.Del)):
                bad(n.id)
            elif isinstance(n, ast.ExceptHandler) and n.name:
                bad(n.name)
            elif isinstance(n, (ast.Import, ast.ImportFrom)):
                for al in n.names:
                    bad((al.asname or al.name).split('.')[0])
            elif isinstance(n, (ast.MatchAs, ast.MatchStar)) and getattr(n, 'name', None):
                bad(n.name)
            for c in ast.iter_child_nodes(n):
                visit(c)

        for a in self.arg_names(fn.args):
            bad(a)
        for st_ in fn.body:
            visit(st_)
        cand = {n for n, v in bindings.items() if v is not None}
        changed = True
        while changed:
            changed = False
            for n in sorted(cand):
                if not all(self.frame_producing(v, cand) for v in bindings[n]):
                    cand.discard(n)
                    changed = True
        return cand

    def frame_producing(self, e, cand):
        if isinstance(e, ast.Constant) and e.value is None:
            return True
        if isinstance(e, ast.Name):
            return e.id in cand
        if isinstance(e, ast.Attribute):
            if e.attr in DATASET_ATTRS:
                return True
            if e.attr in ('loc', 'iloc', 'at', 'iat', 'T'):
                return self.frame_producing(e.value, cand)
            return False
        if isinstance(e, ast.Subscript):
            return self.frame_producing(e.value, cand)
        if isinstance(e, ast.IfExp):
            return self.frame_producing(e.body, cand) and self.frame_producing(e.orelse, cand)
        if isinstance(e, ast.Call):
            f = e.func
            if isinstance(f, ast.Name):
                return f.id in ALIAS_FUNCS
            if isinstance(f, ast.Attribute):
                if isinstance(f.value, ast.Name) and f.value.id in ('pd', 'pandas'):
                    return f.attr in PANDAS_MODULE_PRODUCERS
                return f.attr in PANDAS_PRODUCERS and self.frame_producing(f.value, cand)
        return False

    def is_frame_expr(self, e):
        """the expression syntactically denotes a pandas object (only names of the outermost scope count)"""
        def ok_name(n):
            for sc in reversed(self.scopes):
                if n in sc:
                    return sc is self.scopes[0] and n in self.frame_locals
            return False
        cand = {n for n in self.frame_locals if ok_name(n)}
        if self.frame_producing(e, cand):
            return True
        # position-aware: the unique simple assignment that dominates the current statement
        if len(self.scopes) == 1 and self.cur_stmt is not None and id(self.cur_stmt) in self.stmt_pos:
            return self.frame_producing_at(e, self.cur_stmt, 0)
        return False

    # ---- position-aware frame typing: a name is a pandas object at a statement when the nearest binding that
    # dominates the statement (same block or an enclosing block, nothing in between binds the name, no loop back
    # edge can rebind it) is a simple assignment of a pandas-producing expression
    def index_statements(self, fn):
        self.stmt_pos = {}

        def blocks_of(st):
            out = []
            for fld in ('body', 'orelse', 'finalbody'):
                b = getattr(st, fld, None)
                if isinstance(b, list) and b and isinstance(b[0], ast.stmt):
                    out.append(b)
            for h in getattr(st, 'handlers', []) or []:
                out.append(h.body)
            for c in getattr(st, 'cases', []) or []:
                out.append(c.body)
            return out

        def walk(block, parent):
            for i, st in enumerate(block):
                self.stmt_pos[id(st)] = (block, i, parent)
                if isinstance(st, (ast.FunctionDef, ast.AsyncFunctionDef, ast.ClassDef)):
                    continue
                for b in blocks_of(st):
                    walk(b, st)
        walk(fn.body, None)

    def header_binds(self, parent, name):
        """does the header of a compound statement (test / iter / target / with items / handler names) bind name"""
        parts = []
        for fld in ('test', 'iter', 'target', 'subject'):
            x = getattr(parent, fld, None)
            if x is not None:
                parts.append(x)
        for it in getattr(parent, 'items', []) or []:
            parts.append(it.context_expr)
            if it.optional_vars is not None:
                parts.append(it.optional_vars)
        if any(name in self.own_bindings([ast.Expr(value=x)]) for x in parts):
            return True
        for h in getattr(parent, 'handlers', []) or []:
            if h.name == name:
                return True
        return False

    def reaching(self, name, stmt):
        cur = stmt
        while cur is not None:
            block, idx, parent = self.stmt_pos[id(cur)]
            for j in range(idx - 1, -1, -1):
                st = block[j]
                if (isinstance(st, ast.Assign) and len(st.targets) == 1 and isinstance(st.targets[0], ast.Name)
                        and st.targets[0].id == name and name not in self.own_bindings([ast.Expr(value=st.value)])):
                    return st.value, st
                if (isinstance(st, ast.AnnAssign) and isinstance(st.target, ast.Name) and st.target.id == name
                        and st.value is not None):
                    return st.value, st
                if name in self.own_bindings([st]):
                    return None
            if parent is not None:
                if isinstance(parent, (ast.For, ast.AsyncFor, ast.While)) and name in self.own_bindings([parent]):
                    return None
                if isinstance(parent, ast.Try) and block is not parent.body and name in self.own_bindings(parent.body):
                    return None
                if self.header_binds(parent, name):
                    return None
            cur = parent
        return None

    def frame_producing_at(self, e, stmt, depth):
        if depth > 12:
            return False
        if isinstance(e, ast.Constant) and e.value is None:
            return True
        if isinstance(e, ast.Name):
            if e.id not in self.scopes[0]:
                return False
            r = self.reaching(e.id, stmt)
            return r is not None and self.frame_producing_at(r[0], r[1], depth + 1)
        if isinstance(e, ast.Attribute):
            if e.attr in DATASET_ATTRS:
                return True
            if e.attr in ('loc', 'iloc', 'at', 'iat', 'T'):
                return self.frame_producing_at(e.value, stmt, depth + 1)
            return False
        if isinstance(e, ast.Subscript):
            return self.frame_producing_at(e.value, stmt, depth + 1)
        if isinstance(e, ast.IfExp):
            return self.frame_producing_at(e.body, stmt, depth + 1) and self.frame_producing_at(e.orelse, stmt, depth + 1)
        if isinstance(e, ast.Call):
            f = e.func
            if isinstance(f, ast.Name):
                if f.id in ALIAS_FUNCS:
                    return True
                if f.id in self.scopes[0]:
                    return False
                tgt = self.world.resolve(self.module, f.id)
                return tgt is not None and tgt[0] == 'func' and self.world.returns_frame(tgt[1])
            if isinstance(f, ast.Attribute):
                if isinstance(f.value, ast.Name) and f.value.id in ('pd', 'pandas') and f.value.id not in self.scopes[0]:
                    return f.attr in PANDAS_MODULE_PRODUCERS
                return f.attr in PANDAS_PRODUCERS and self.frame_producing_at(f.value, stmt, depth + 1)
        return False

    def is_new_pandas_object(self, name):
        """the nearest dominating binding of the name is `<e>.iloc[..]`, `<e>.loc[..]` or a pandas-producing method call"""
        if len(self.scopes) != 1 or self.cur_stmt is None or id(self.cur_stmt) not in self.stmt_pos or name not in self.scopes[0]:
            return False
        r = self.reaching(name, self.cur_stmt)
        if r is None:
            return False
        e = r[0]
        if isinstance(e, ast.Subscript) and isinstance(e.value, ast.Attribute) and e.value.attr in ('iloc', 'loc'):
            return True
        return (isinstance(e, ast.Call) and isinstance(e.func, ast.Attribute)
                and e.func.attr in (PANDAS_PRODUCERS - {'replace', 'apply', 'map', 'agg', 'aggregate', 'transform'}))

    def returns_frame(self):
        """every `return` of the function (nested functions excluded) gives a pandas object (or None)"""
        fn = self.node
        self.scopes = [{n: n for n in self.own_bindings(fn.body, fn.args)}]
        self.nscopes = 0
        self.frame_locals = self.infer_frame_locals(fn)
        self.index_statements(fn)
        rets = []

        def collect(n):
            if isinstance(n, (ast.FunctionDef, ast.AsyncFunctionDef, ast.Lambda, ast.ClassDef)):
                return
            if isinstance(n, ast.Return):
                rets.append(n)
            if isinstance(n, (ast.Yield, ast.YieldFrom)):
                rets.append(None)
            for c in ast.iter_child_nodes(n):
                collect(c)
        for st_ in fn.body:
            collect(st_)
        if not rets or any(r is None or r.value is None for r in rets):
            return False
        if all(isinstance(r.value, ast.Constant) for r in rets):
            return False
        return all(self.frame_producing(r.value, self.frame_locals) or self.frame_producing_at(r.value, r, 0) for r in rets)

    # ---- entry
    def translate(self):
        fn = self.node
        self.scopes = []
        self.nscopes = 0
        a = fn.args
        self.params = [arg.arg for arg in a.posonlyargs + a.args + a.kwonlyargs]
        self.scopes.append({n: n for n in self.own_bindings(fn.body, a)})
        self.nvars = 1
        for p in self.params:
            self.var(p)                      # 2i+1 (reach), 2i+2 (dataset)
        self.arity = 2 * len(self.params)
        self.ret2 = self.arity + 1           # Model.ret2 (arity)
        self.nvars = self.arity + 2
        self.frame_locals = self.infer_frame_locals(fn)
        self.index_statements(fn)
        self.cur_stmt = None
        # *args / **kwargs containers are fresh locals; surplus arguments are conservatively bound to EVERY
        # parameter at call sites (see emit_call)
        body = self.block(fn.body)
        pre = []
        for arg in a.posonlyargs + a.args + a.kwonlyargs:
            ann = ast.unparse(arg.annotation) if arg.annotation is not None else ''
            if ('DataFrame' in ann or 'Series' in ann) and 'Model' not in ann and 'Any' not in ann:
                # a pandas object has no `.dataset`: its dataset channel is empty
                self.raw_move(pre, self.ds(self.var(self.scopes[0][arg.arg])), [])
        body = Seq(pre + [body])
        if self.cls is not None and fn.name == '__init__' and self.params and self.params[0] == 'self':
            # a constructor call Cls(args) denotes what `self` reaches when __init__ is done
            out = []
            self.op_move(out, 0, [0, self.var(self.scopes[0]['self'])])
            body = Seq([body] + out)
        return {'arity': self.arity, 'body': body, 'params': self.params, 'nvars': self.nvars}

    # ---- op emission
    def op_alias(self, out, node):
        """a `.dataset` whose owner is not tracked: THE input dataset"""
        v = self.tmp()
        out.append(f'(Op (Alias {v}))')
        return [v]

    def op_dataset_of(self, out, owners, node):
        """v := <owners>.dataset"""
        if not owners:
            return self.op_alias(out, node)
        v = self.tmp()
        out.append(f'(Op (Move {v} {vl(sorted({self.ds(w) for w in owners}))}))')      # v is a new temporary
        out.append(f'(Op (Move {self.ds(v)} []))')
        return [v]

    def raw_move(self, out, v, ws):
        ws = list(ws) + ([v] if self.weak else [])
        out.append(f'(Op (Move {v} {vl(sorted(set(ws)))}))')

    def op_move(self, out, v, ws):
        ws = list(ws) + ([v] if self.weak else [])
        out.append(f'(Op (Move {v} {vl(sorted(set(ws)))}))')
        out.append(f'(Op (Move {self.ds(v)} {vl(sorted({self.ds(w) for w in ws}))}))')

    def op_copy(self, out, v, ws):
        if self.weak:
            t = self.tmp()
            out.append(f'(Op (Copy {t} {vl(sorted(set(ws)))}))')
            out.append(f'(Op (Move {v} {vl(sorted({v, t}))}))')
            out.append(f'(Op (Move {self.ds(v)} {vl(sorted({self.ds(w) for w in list(ws) + [v]}))}))')
            return
        out.append(f'(Op (Copy {v} {vl(sorted(set(ws)))}))')
        out.append(f'(Op (Move {self.ds(v)} {vl(sorted({self.ds(w) for w in ws}))}))')

    def set_dataset_field(self, out, v, ws):
        """the value in v is a model whose dataset is (one of) ws"""
        ws = list(ws) + ([self.ds(v)] if self.weak else [])
        out.append(f'(Op (Move {self.ds(v)} {vl(sorted(set(ws)))}))')

    def op_write(self, out, definite, ws, node, what, attr=False):
        """write class: 0 = attribute store (obj.a = v, setattr), 1 = other definite in-place mutation,
        2 = call of code the tables do not know"""
        c = 0 if attr else (1 if definite else 2)
        for w in sorted(set(ws)):
            k = self.world.new_write(self.module, self.qualname, getattr(node, 'lineno', 0), c, what)
            out.append(f"(Op (Write {c}%nat {w} {k}))")

    # ---- expressions: returns the list of vars the value may derive from; appends ops to out
    def names(self, e, out):
        if e is None:
            return []
        m = getattr(self, 'e_' + type(e).__name__, None)
        if m is None:
            self.refuse(e, f'expression {type(e).__name__}')
        return m(e, out)

    def e_Constant(self, e, out):
        return []

    def e_Name(self, e, out):
        if self.nested_of(e.id) is not None:
            # a nested function used as a value: it may be called later by anybody with anything in scope
            return self.inline_nested(e.id, None, out, e, as_value=True)
        v = self.lookup(e.id)
        return [] if v is None else [v]

    def e_Attribute(self, e, out):
        base = self.names(e.value, out)
        if e.attr in DATASET_ATTRS:
            return self.op_dataset_of(out, base, e)
        return base

    def e_Subscript(self, e, out):
        base = self.names(e.value, out)
        self.names(e.slice, out)
        return base

    def e_Slice(self, e, out):
        for x in (e.lower, e.upper, e.step):
            self.names(x, out)
        return []

    def e_Starred(self, e, out):
        return self.names(e.value, out)

    def e_BinOp(self, e, out):
        self.names(e.left, out)
        self.names(e.right, out)
        return []

    def e_UnaryOp(self, e, out):
        self.names(e.operand, out)
        return []

    def e_Compare(self, e, out):
        self.names(e.left, out)
        for c in e.comparators:
            self.names(c, out)
        return []

    def e_BoolOp(self, e, out):
        r = []
        for v in e.values:
            r += self.names(v, out)
        return r

    def e_IfExp(self, e, out):
        self.names(e.test, out)
        return self.names(e.body, out) + self.names(e.orelse, out)

    def e_Tuple(self, e, out):
        r = []
        for v in e.elts:
            r += self.names(v, out)
        return r

    e_List = e_Tuple
    e_Set = e_Tuple

    def e_Dict(self, e, out):
        r = []
        for k, v in zip(e.keys, e.values):
            if k is not None:
                r += self.names(k, out)
            r += self.names(v, out)
        return r

    def e_JoinedStr(self, e, out):
        for v in e.values:
            self.names(v, out)
        return []

    def e_FormattedValue(self, e, out):
        self.names(e.value, out)
        return []

    def e_NamedExpr(self, e, out):
        vs = self.names(e.value, out)
        self.assign(e.target, vs, out, e)
        return vs

    def e_Yield(self, e, out):
        vs = self.names(e.value, out)
        self.op_move(out, self.ret_stack[-1], vs + [self.ret_stack[-1]])
        return []

    e_YieldFrom = e_Yield

    def e_Await(self, e, out):
        return self.names(e.value, out)

    def comprehension(self, gens, elts, out):
        inner = []
        # the first iterable is evaluated in the enclosing scope
        first = self.names(gens[0].iter, out)
        tnames = set()
        for g in gens:
            for sub in ast.walk(g.target):
                if isinstance(sub, ast.Name):
                    tnames.add(sub.id)
        self.push_scope(tnames)
        for i, g in enumerate(gens):
            vs = first if i == 0 else self.names(g.iter, inner)
            self.assign(g.target, vs, inner, g.iter)
            for c in g.ifs:
                self.names(c, inner)
        r = []
        for el in elts:
            r += self.names(el, inner)
        t = self.tmp()
        self.op_move(inner, t, r + [t])
        self.pop_scope()
        out.append(Star(Part(Seq(inner))))
        return [t]

    def e_ListComp(self, e, out):
        return self.comprehension(e.generators, [e.elt], out)

    e_SetComp = e_ListComp
    e_GeneratorExp = e_ListComp

    def e_DictComp(self, e, out):
        return self.comprehension(e.generators, [e.key, e.value], out)

    def e_Lambda(self, e, out):
        # a lambda used as a value outside a call argument position: callable later with anything in scope
        return self.inline_lambda(e, None, out)

    # ---- calls
    def call_args(self, e, out, skip_callables=False):
        """evaluates arguments; returns (positional list of name-lists, {kw: name-list}, star name-list, callables)"""
        pos, kws, star, callables = [], {}, [], []
        for a in e.args:
            if isinstance(a, ast.Starred):
                star += self.names(a.value, out)
            elif isinstance(a, ast.Lambda) or (isinstance(a, ast.Name) and self.nested_of(a.id) is not None):
                callables.append(a)
                pos.append([])
            else:
                pos.append(self.names(a, out))
        for k in e.keywords:
            if isinstance(k.value, ast.Lambda) or (isinstance(k.value, ast.Name) and self.nested_of(k.value.id) is not None):
                callables.append(k.value)
                if k.arg is not None:
                    kws[k.arg] = []
                continue
            vs = self.names(k.value, out)
            if k.arg is None:
                star += vs
            else:
                kws[k.arg] = vs
        self.callinfo[id(e)] = (pos, kws, star)
        return pos, kws, star, callables

    def run_callables(self, callables, bound, out, node):
        """callables passed as arguments are called by the callee with values derived from `bound`"""
        r = []
        for c in callables:
            if isinstance(c, ast.Lambda):
                r += self.inline_lambda(c, bound, out)
            else:
                r += self.inline_nested(c.id, None, out, node, as_value=True, bound=bound)
        return r

    def inplace_kw(self, e, meth=None):
        for k in e.keywords:
            if k.arg == 'inplace':
                if isinstance(k.value, ast.Constant) and k.value.value is False:
                    return False
                return True
            if k.arg is None and (meth is None or meth in INPLACE_CAPABLE or
                                  meth not in (FRESH_METHODS | VIEW_METHODS)):
                return True          # **kwargs may carry inplace=True
        return False

    def e_Call(self, e, out):
        """a call with a `dataset=` keyword gives a value whose `.dataset` is the keyword's value: exactly that for
        X.replace(dataset=..) / X.create(dataset=..) / Cls(dataset=..), possibly that otherwise"""
        res = self._call(e, out)
        has_ds = any(k.arg == 'dataset' for k in e.keywords)
        splat = any(k.arg is None for k in e.keywords)
        if not (has_ds or splat):
            return res
        pos, kws, star = self.callinfo.get(id(e), ([], {}, []))
        f = e.func
        exact = has_ds and ((isinstance(f, ast.Attribute) and f.attr in ('replace', 'create'))
                            or (isinstance(f, ast.Name) and f.id[:1].isupper() and self.lookup(f.id) is None))
        if not has_ds and not (isinstance(f, ast.Attribute) and f.attr in ('replace', 'create')):
            return res
        t = self.tmp()
        self.raw_move(out, t, res)
        src = list(kws.get('dataset', [])) + (list(star) if splat else [])
        if exact:
            self.set_dataset_field(out, t, src)
        else:
            self.set_dataset_field(out, t, src + [self.ds(w) for w in res])
        return [t]

    def _call(self, e, out):
        f = e.func
        # --- nested function called directly: inline
        if isinstance(f, ast.Name) and self.nested_of(f.id) is not None:
            pos, kws, star, callables = self.call_args(e, out)
            return self.inline_nested(f.id, (pos, kws, star), out, e)
        # --- model.dataset helpers
        if isinstance(f, ast.Name) and f.id in ALIAS_FUNCS and self.lookup(f.id) is None:
            pos, kws, star, callables = self.call_args(e, out)
            return self.op_dataset_of(out, [v for p in pos for v in p] + [v for p in kws.values() for v in p] + star, e)
        # --- plain name
        if isinstance(f, ast.Name) and self.lookup(f.id) is None:
            pos, kws, star, callables = self.call_args(e, out)
            allv = [v for p in pos for v in p] + [v for p in kws.values() for v in p] + star
            target = self.world.resolve(self.module, f.id)
            if target is not None:
                kind, tgt = target
                if kind == 'func':
                    r = self.emit_call(tgt, pos, kws, star, out, e)
                    r += self.run_callables(callables, allv, out, e)
                    return r
                if kind == 'class':
                    obj = self.tmp()
                    self.op_copy(out, obj, [])
                    init = self.world.method_of(tgt, '__init__')
                    if init is not None:
                        # the instance holds exactly what __init__ stored into it (its implicit `return self`)
                        res = self.emit_call(init, pos, kws, star, out, e, recv=[obj])
                        return [obj] + res + self.run_callables(callables, allv, out, e)
                    r = self.run_callables(callables, allv, out, e)
                    return [obj] + allv + r
            if f.id in BUILTIN_FRESH:
                self.run_callables(callables, allv, out, e)
                return []
            if f.id in BUILTIN_VIEW:
                return allv + self.run_callables(callables, allv, out, e)
            if f.id in BUILTIN_MUTATORS:
                if pos:
                    self.op_write(out, True, pos[0], e, f'{f.id}(...)', attr=True)
                return []
            if self.world.is_pharmpy_core(self.module, f.id):
                # pharmpy core code outside the analysed modules: assumed not to mutate its arguments
                self.world.trusted_core.add(f.id)
                return allv + self.run_callables(callables, allv, out, e)
            # unknown global callable
            self.op_write(out, False, allv, e, f'call of unanalysed {f.id}(...)')
            return allv + self.run_callables(callables, allv, out, e)
        # --- attribute call
        if isinstance(f, ast.Attribute):
            # engine module function  np.f(...) / pd.f(...) / np.linalg.f(...)
            root = f.value
            while isinstance(root, ast.Attribute):
                root = root.value
            if isinstance(root, ast.Name) and self.lookup(root.id) is None and root.id in ENGINE_MODULES:
                pos, kws, star, callables = self.call_args(e, out)
                allv = [v for p in pos for v in p] + [v for p in kws.values() for v in p] + star
                if f.attr in MODULE_MUTATORS or self.inplace_kw(e):
                    self.op_write(out, True, (pos[0] if pos else allv), e, f'{root.id}.{f.attr}(...) mutates its argument')
                r = self.run_callables(callables, allv, out, e)
                if f.attr in MODULE_FRESH:
                    return []
                return allv + r
            # self.method(...) of the same class / super().method(...)
            if isinstance(f.value, ast.Name) and f.value.id == 'self' and self.lookup('self') is not None and self.cls:
                m = self.world.method_of(self.cls, f.attr)
                if m is not None:
                    recv = self.names(f.value, out)
                    pos, kws, star, callables = self.call_args(e, out)
                    return self.emit_call(m, pos, kws, star, out, e, recv=recv)
            if (isinstance(f.value, ast.Call) and isinstance(f.value.func, ast.Name) and f.value.func.id == 'super'
                    and self.cls):
                m = self.world.method_of(self.cls, f.attr, skip_own=True)
                pos, kws, star, callables = self.call_args(e, out)
                if m is not None:
                    return self.emit_call(m, pos, kws, star, out, e, recv=[self.lookup('self')])
                return []
            # global (non-local) name as receiver: pharmpy class / module function, e.g. Expr.symbol(..)
            if isinstance(root, ast.Name) and self.lookup(root.id) is None:
                pos, kws, star, callables = self.call_args(e, out)
                allv = [v for p in pos for v in p] + [v for p in kws.values() for v in p] + star
                target = self.world.resolve_attr(self.module, root.id, f)
                if target is not None:
                    return self.emit_call(target, pos, kws, star, out, e, via_class=True) + self.run_callables(callables, allv, out, e)
                if self.world.is_pharmpy_core(self.module, root.id):
                    self.world.trusted_core.add(ast.unparse(f))
                    return allv + self.run_callables(callables, allv, out, e)
                self.op_write(out, False, allv, e, f'call of unanalysed {ast.unparse(f)}(...)')
                return allv + self.run_callables(callables, allv, out, e)
            # method call on an object
            recv = self.names(f.value, out)
            pos, kws, star, callables = self.call_args(e, out)
            allv = [v for p in pos for v in p] + [v for p in kws.values() for v in p] + star
            meth = f.attr
            if self.inplace_kw(e, meth):
                self.op_write(out, True, recv, e, f'.{meth}(..., inplace=...)')
                self.run_callables(callables, recv + allv, out, e)
                return recv
            if meth in MUTATOR_METHODS:
                self.op_write(out, True, recv, e, f'.{meth}(...) mutates the receiver')
                # the receiver now holds references to the arguments
                for w in set(recv):
                    self.op_move(out, w, [w] + allv)
                self.run_callables(callables, recv + allv, out, e)
                return recv + allv
            if meth in FRESH_METHODS:
                self.run_callables(callables, recv + allv, out, e)
                if any(k.arg == 'copy' for k in e.keywords):
                    return recv       # copy=False may return a view
                t = self.tmp()
                self.op_copy(out, t, recv)
                return [t]
            if meth in VIEW_METHODS:
                r = self.run_callables(callables, recv + allv, out, e)
                return recv + allv + r
            m = self.world.unique_method(meth)
            if m is not None:
                return self.emit_call(m, pos, kws, star, out, e, recv=recv) + self.run_callables(callables, recv + allv, out, e)
            # unknown method: may mutate the receiver and the arguments (fail closed, indefinite)
            self.op_write(out, False, recv + allv, e, f'unknown method .{meth}(...)')
            r = self.run_callables(callables, recv + allv, out, e)
            return recv + allv + r
        # --- anything else being called: local variable holding a callable, call result, subscript ...
        fn_names = self.names(f, out)
        pos, kws, star, callables = self.call_args(e, out)
        allv = [v for p in pos for v in p] + [v for p in kws.values() for v in p] + star
        self.op_write(out, False, fn_names + allv, e, f'call of local callable {ast.unparse(f)[:40]}')
        return fn_names + allv + self.run_callables(callables, fn_names + allv, out, e)

    def emit_call(self, target, pos, kws, star, out, node, recv=None, via_class=False):
        """Call of an analysed function; maps arguments to parameter positions.
        recv: names of the receiver for a bound call obj.m(..); via_class: Class.m(..)"""
        kind = self.world.kind(target)
        if recv is not None:
            if kind in ('method', 'function'):
                pos = [recv] + pos
            elif kind == 'class':
                pos = [[]] + pos
        elif via_class and kind == 'class':
            pos = [[]] + pos
        info = self.world.signature(target)
        params, has_var, has_kw = info
        args = [[] for _ in params]
        extra = list(star)
        for i, p in enumerate(pos):
            if i < len(params):
                args[i] += p
            else:
                extra += p
        for k, vs in kws.items():
            if k in params:
                args[params.index(k)] += vs
            else:
                extra += vs
        if extra:
            # *args / **kwargs / surplus: may reach any parameter
            args = [a + extra for a in args]
        r = self.tmp()
        fid = self.world.fid(target)
        both = []
        for a in args:
            both.append(vl(sorted(set(a))))
            both.append(vl(sorted({self.ds(w) for w in a})))
        out.append(f"(Op (Call {r} {self.ds(r)} {fid} [{';'.join(both)}]))")
        return [r]

    # ---- nested functions and lambdas (inlined, in their own naming scope)
    def bind_params(self, fnargs, actual, bound, out, node):
        """must be called AFTER push_scope of the callee scope; `actual`/`bound` were evaluated before"""
        names_ = self.arg_names(fnargs)
        if actual is not None:
            pos, kws, star = actual
            everything = [v for p in pos for v in p] + [v for p in kws.values() for v in p] + star
            for i, n in enumerate(names_):
                vs = list(star)
                if i < len(pos):
                    vs += pos[i]
                if n in kws:
                    vs += kws[n]
                if (fnargs.vararg and n == fnargs.vararg.arg) or (fnargs.kwarg and n == fnargs.kwarg.arg):
                    vs = everything
                self.op_move(out, self.lvar(n, node), vs)
        else:
            for n in names_:
                self.op_move(out, self.lvar(n, node), bound)

    def inline_lambda(self, lam, bound, out):
        if bound is None:
            bound = self.all_scope_vars()
        inner = []
        for d in list(lam.args.defaults) + [d for d in lam.args.kw_defaults if d is not None]:
            self.names(d, out)
        self.push_scope(self.own_bindings([], lam.args))
        self.bind_params(lam.args, None, bound, inner, lam)
        r = self.names(lam.body, inner)
        self.pop_scope()
        t = self.tmp()
        self.op_move(inner, t, r + [t])
        out.append(Star(Part(Seq(inner))))
        return [t]

    def inline_nested(self, name, actual, out, node, as_value=False, bound=None):
        fn = self.nested_of(name)
        if fn in self.inlining:
            # a recursive call: the body (translated once, in weak mode, under Star) runs again with its parameters
            # ALSO bound to these arguments; every activation shares the variables, none of them is ever killed
            if actual is None and bound is None:
                bound = self.all_scope_vars()
            self.bind_params(fn.args, actual, bound, out, node)
            return [self.inline_rv[id(fn)]]
        if actual is None and bound is None:
            bound = self.all_scope_vars()
        recursive = any(isinstance(c, ast.Call) and isinstance(c.func, ast.Name) and c.func.id == fn.name
                        for st_ in fn.body for c in ast.walk(st_))
        self.inlining.append(fn)
        if recursive:
            self.weak += 1
        inner = []
        # the nested function sees the scopes that were active where it was DEFINED
        saved = self.scopes
        self.scopes = list(self.nested_scopes[id(fn)])
        self.push_scope(self.own_bindings(fn.body, fn.args))
        self.bind_params(fn.args, actual, bound, inner, node)
        rv = self.tmp()
        self.op_move(inner, rv, [])
        self.inline_rv[id(fn)] = rv
        self.ret_stack.append(rv)
        inner.append(self.block(fn.body))
        self.ret_stack.pop()
        self.scopes = saved
        self.inlining.pop()
        if recursive:
            self.weak -= 1
            out.append(Star(Part(Seq(inner))))
            return [rv]
        if as_value:
            out.append(Star(Part(Seq(inner))))
        else:
            out.append(Part(Seq(inner)))
        return [rv]

    # ---- assignment targets
    def assign(self, t, vs, out, node):
        if isinstance(t, ast.Name):
            self.op_move(out, self.lvar(t.id, t), vs)
        elif isinstance(t, (ast.Tuple, ast.List)):
            for el in t.elts:
                self.assign(el, vs, out, node)
        elif isinstance(t, ast.Starred):
            self.assign(t.value, vs, out, node)
        elif isinstance(t, (ast.Subscript, ast.Attribute)):
            base = self.names(t.value, out)
            if isinstance(t, ast.Subscript):
                self.names(t.slice, out)
            if (isinstance(t, ast.Attribute) and t.attr in ('index', 'columns', 'name') and isinstance(t.value, ast.Name)
                    and self.is_new_pandas_object(t.value.id)):
                # s = <frame>.iloc[...] / .loc[...] / <pandas-producing method>(...) is a NEW pandas object: replacing one of
                # its axis / name attributes changes that object only, never the frame it was taken from
                return
            if isinstance(t, ast.Attribute) and t.attr in DATASET_ATTRS:
                # obj.dataset = v: the object's dataset field (its shadow variable), not retained in the object's reach
                if not (isinstance(t.value, ast.Name) and t.value.id == 'self' and self.cls is not None):
                    self.op_write(out, True, base, t, 'store into ' + ast.unparse(t)[:60], attr=True)
                for w in set(base):
                    self.set_dataset_field(out, w, [self.ds(w)] + vs)
                return
            if (isinstance(t, ast.Attribute) and isinstance(t.value, ast.Name) and t.value.id == 'self'
                    and self.cls is not None and self.params and self.params[0] == 'self'
                    and t.attr not in DATASET_ATTRS):
                # instance field of an analysed class (none of them derives from a pandas class): the instance
                # is rebound to a new field value, no frame content changes; the instance now reaches vs
                pass
            else:
                self.op_write(out, True, base, t, 'store into ' + ast.unparse(t)[:60], attr=isinstance(t, ast.Attribute))
            if isinstance(t, ast.Subscript) and self.is_frame_expr(t.value):
                return        # DataFrame/Series __setitem__ copies the data in: no reference is retained
            for w in set(base):
                self.op_move(out, w, [w] + vs)
        else:
            self.refuse(t, f'assignment target {type(t).__name__}')

    # ---- statements
    def block(self, stmts):
        return Seq([self.stmt(s) for s in stmts])

    def stmt(self, s):
        m = getattr(self, 's_' + type(s).__name__, None)
        if m is None:
            self.refuse(s, f'statement {type(s).__name__}')
        saved = getattr(self, 'cur_stmt', None)
        self.cur_stmt = s
        try:
            return m(s)
        finally:
            self.cur_stmt = saved

    def s_Expr(self, s):
        out = []
        self.names(s.value, out)
        return Seq(out)

    def s_Assign(self, s):
        out = []
        vs = self.names(s.value, out)
        for t in s.targets:
            self.assign(t, vs, out, s)
        return Seq(out)

    def s_AnnAssign(self, s):
        out = []
        if s.value is not None:
            vs = self.names(s.value, out)
            self.assign(s.target, vs, out, s)
        return Seq(out)

    def s_AugAssign(self, s):
        out = []
        vs = self.names(s.value, out)
        t = s.target
        if isinstance(t, ast.Name):
            # `x += v` mutates x in place when x is a DataFrame / list / ndarray, rebinds otherwise
            self.op_write(out, False, [self.lvar(t.id, t)], s, f'augmented assignment to {t.id}')
            self.op_move(out, self.lvar(t.id, t), [self.lvar(t.id, t)] + vs)
        else:
            base = self.names(t.value, out)
            if isinstance(t, ast.Subscript):
                self.names(t.slice, out)
            self.op_write(out, True, base, s, 'augmented store into ' + ast.unparse(t)[:60],
                          attr=isinstance(t, ast.Attribute))
            if not (isinstance(t, ast.Subscript) and self.is_frame_expr(t.value)):
                for w in set(base):
                    self.op_move(out, w, [w] + vs)
        return Seq(out)

    def s_Delete(self, s):
        out = []
        for t in s.targets:
            if isinstance(t, ast.Name):
                self.op_move(out, self.lvar(t.id, t), [])
            elif isinstance(t, (ast.Subscript, ast.Attribute)):
                base = self.names(t.value, out)
                self.op_write(out, True, base, s, 'del ' + ast.unparse(t)[:60], attr=isinstance(t, ast.Attribute))
            else:
                self.refuse(t, 'del target')
        return Seq(out)

    def s_Return(self, s):
        out = []
        vs = self.names(s.value, out)
        rv = self.ret_stack[-1]
        self.op_move(out, rv, vs + [rv])
        return Seq(out)

    def s_Pass(self, s):
        return 'Skip'

    s_Break = s_Pass
    s_Continue = s_Pass

    def s_Import(self, s):
        out = []
        for al in s.names:
            self.op_move(out, self.lvar((al.asname or al.name).split('.')[0], s), [])
        return Seq(out)

    s_ImportFrom = s_Import

    def s_Raise(self, s):
        out = []
        self.names(s.exc, out)
        self.names(s.cause, out)
        return Seq(out)

    def s_Assert(self, s):
        out = []
        self.names(s.test, out)
        self.names(s.msg, out)
        return Seq(out)

    def s_If(self, s):
        out = []
        self.names(s.test, out)
        out.append(Alt([self.block(s.body), self.block(s.orelse)]))
        return Seq(out)

    def s_For(self, s):
        out = []
        vs = self.names(s.iter, out)
        inner = []
        self.assign(s.target, vs, inner, s)
        inner.append(self.block(s.body))
        out.append(Star(Part(Seq(inner))))
        out.append(self.block(s.orelse))
        return Seq(out)

    s_AsyncFor = s_For

    def s_While(self, s):
        inner = []
        self.names(s.test, inner)
        inner.append(self.block(s.body))
        return Seq([Star(Part(Seq(inner))), self.block(s.orelse)])

    def s_With(self, s):
        out = []
        for it in s.items:
            vs = self.names(it.context_expr, out)
            if it.optional_vars is not None:
                self.assign(it.optional_vars, vs, out, s)
        out.append(Part(self.block(s.body)))      # __exit__ may swallow an exception
        return Seq(out)

    s_AsyncWith = s_With

    def s_Try(self, s):
        hs = ['Skip', self.block(s.orelse)]
        for h in s.handlers:
            o = []
            self.names(h.type, o)
            if h.name:
                self.op_move(o, self.lvar(h.name, h), [])
            o.append(self.block(h.body))
            hs.append(Part(Seq(o)))
        return Seq([Part(self.block(s.body)), Alt(hs), self.block(s.finalbody)])

    s_TryStar = s_Try

    def s_FunctionDef(self, s):
        key = None
        for sc in reversed(self.scopes):
            if s.name in sc:
                key = sc[s.name]
                break
        if key is None:
            self.refuse(s, f'nested function {s.name} not bound')
        if key in self.nested:
            self.refuse(s, f'nested function {s.name} defined twice')
        self.nested[key] = s
        self.nested_scopes[id(s)] = list(self.scopes)
        out = []
        for d in s.decorator_list:
            self.names(d, out)
        return Seq(out)

    def s_Global(self, s):
        self.refuse(s, 'global')

    s_Nonlocal = s_Global

    def s_Match(self, s):
        out = []
        vs = self.names(s.subject, out)
        alts = ['Skip']
        for c in s.cases:
            o = []
            for sub in ast.walk(c.pattern):
                n = getattr(sub, 'name', None)
                if isinstance(sub, (ast.MatchAs, ast.MatchStar)) and n:
                    self.op_move(o, self.lvar(n, sub), vs)
                if isinstance(sub, ast.MatchMapping) and sub.rest:
                    self.op_move(o, self.lvar(sub.rest, sub), vs)
                if isinstance(sub, ast.MatchValue):
                    self.names(sub.value, o)
            self.names(c.guard, o)
            o.append(self.block(c.body))
            alts.append(Seq(o))
        out.append(Alt(alts))
        return Seq(out)


class World:
    """All analysed modules: function table, name resolution, write-site table."""

    def __init__(self, repo_src, extra_sources=None):
        self.src = Path(repo_src)
        self.modules = {}      # module name -> (path, ast)
        self.funcs = {}        # (module, qualname) -> (node, cls)
        self.order = []        # list of (module, qualname) : index = fname
        self.classes = {}      # (module, classname) -> {'bases': [...], 'methods': {name: key}}
        self.imports = {}      # module -> {local name: (module, name)}
        self.writes = []       # write-site table
        self.trusted_core = set()
        self.sha = {}
        files = sorted((self.src / 'pharmpy' / 'modeling').glob('*.py'))
        files.append(self.src / 'pharmpy' / 'model' / 'external' / 'nonmem' / 'update.py')
        files.append(self.src / 'pharmpy' / 'model' / 'model.py')
        self.core_count = len(files)
        # tools helpers and the workflow API (soft: a function the translator refuses gets a body that writes every
        # parameter through unknown code, and is listed)
        self.soft_modules = set()
        extra = sorted((self.src / 'pharmpy' / 'tools').rglob('*.py')) + sorted((self.src / 'pharmpy' / 'workflows').glob('*.py'))
        for f in extra:
            self.soft_modules.add('.'.join(f.relative_to(self.src).with_suffix('').parts))
        files += extra
        self.soft_refused = []
        for f in files:
            mod = '.'.join(f.relative_to(self.src).with_suffix('').parts)
            text = f.read_text()
            if extra_sources and mod in extra_sources:
                text = extra_sources[mod]
            self.add_module(mod, text)
        self.method_index = {}
        for (mod, cname), c in self.classes.items():
            for mname, key in c['methods'].items():
                self.method_index.setdefault(mname, []).append(key)

    def add_module(self, mod, text):
        tree = ast.parse(text)
        self.modules[mod] = tree
        self.sha[mod] = hashlib.sha256(text.encode()).hexdigest()[:16]
        imp = {}
        only_helpers = mod == 'pharmpy.model.model'
        for node in tree.body:
            self.top(mod, node, imp, only_helpers)
        self.imports[mod] = imp

    def top(self, mod, node, imp, only_helpers):
        if isinstance(node, (ast.FunctionDef, ast.AsyncFunctionDef)):
            if only_helpers and node.name not in ('get_and_check_dataset', 'get_and_check_odes', 'update_datainfo'):
                return
            self.funcs[(mod, node.name)] = (node, None)
            self.order.append((mod, node.name))
        elif isinstance(node, ast.ClassDef):
            if only_helpers:
                return
            methods = {}
            for sub in node.body:
                if isinstance(sub, (ast.FunctionDef, ast.AsyncFunctionDef)):
                    key = (mod, f'{node.name}.{sub.name}')
                    self.funcs[key] = (sub, (mod, node.name))
                    self.order.append(key)
                    methods[sub.name] = key
            bases = [b.id for b in node.bases if isinstance(b, ast.Name)]
            self.classes[(mod, node.name)] = {'bases': bases, 'methods': methods}
        elif isinstance(node, ast.ImportFrom):
            if node.module is None and node.level == 0:
                return
            base = mod.split('.')
            if node.level:
                base = base[:-node.level]
                target = '.'.join(base + ([node.module] if node.module else []))
            else:
                target = node.module
            for al in node.names:
                imp[al.asname or al.name] = (target, al.name)
        elif isinstance(node, (ast.If, ast.Try)):
            for sub in node.body + node.orelse + getattr(node, 'finalbody', []):
                self.top(mod, sub, imp, only_helpers)
            for h in getattr(node, 'handlers', []):
                for sub in h.body:
                    self.top(mod, sub, imp, only_helpers)

    # ---- resolution
    def resolve(self, mod, name, depth=0):
        if (mod, name) in self.funcs:
            return ('func', (mod, name))
        if (mod, name) in self.classes:
            return ('class', (mod, name))
        tgt = self.imports.get(mod, {}).get(name)
        if tgt is None or depth > 4:
            return None
        tmod, tname = tgt
        if tmod in self.modules:
            return self.resolve(tmod, tname, depth + 1)
        if tmod in ('pharmpy.modeling', 'pharmpy.model'):
            # re-exported from the package: find the unique definition
            pref = 'pharmpy.modeling.' if tmod == 'pharmpy.modeling' else 'pharmpy.model.model'
            cands = [k for k in self.funcs if k[1] == tname and k[0].startswith(pref)]
            if len(cands) == 1:
                return ('func', cands[0])
            cands = [k for k in self.classes if k[1] == tname and k[0].startswith(pref)]
            if len(cands) == 1:
                return ('class', cands[0])
        return None

    def resolve_attr(self, mod, rootname, f):
        """Class.method(...) with Class an analysed class"""
        if isinstance(f.value, ast.Name):
            r = self.resolve(mod, rootname)
            if r and r[0] == 'class':
                return self.method_of(r[1], f.attr)
        return None

    def returns_frame(self, key):
        memo = self.__dict__.setdefault('_returns_frame', {})
        if key in memo:
            return memo[key]
        memo[key] = False            # recursion: assume not
        node, cls = self.funcs[key]
        try:
            r = FunctionTranslator(self, key[0], key[1], node, cls).returns_frame()
        except Refused:
            r = False
        memo[key] = r
        return r

    def is_pharmpy_core(self, mod, name):
        tgt = self.imports.get(mod, {}).get(name)
        return tgt is not None and tgt[0] is not None and tgt[0].startswith('pharmpy') and tgt[0] not in self.modules

    def method_of(self, cls, name, skip_own=False, depth=0):
        c = self.classes.get(cls)
        if c is None or depth > 5:
            return None
        if not skip_own and name in c['methods']:
            return c['methods'][name]
        for b in c['bases']:
            r = self.resolve(cls[0], b)
            if r and r[0] == 'class':
                m = self.method_of(r[1], name, depth=depth + 1)
                if m is not None:
                    return m
        return None

    def unique_method(self, name):
        ks = self.method_index.get(name, [])
        if len(ks) == 1 and not name.startswith('__'):
            return ks[0]
        return None

    def signature(self, key):
        node, cls = self.funcs[key]
        a = node.args
        return ([x.arg for x in a.posonlyargs + a.args + a.kwonlyargs], a.vararg is not None, a.kwarg is not None)

    def kind(self, key):
        node, cls = self.funcs[key]
        if cls is None:
            return 'function'
        decos = {d.id for d in node.decorator_list if isinstance(d, ast.Name)}
        if 'staticmethod' in decos:
            return 'static'
        if 'classmethod' in decos:
            return 'class'
        return 'method'

    def fid(self, key):
        return self.order.index(key) if not hasattr(self, '_fid') else self._fid[key]

    def new_write(self, module, qualname, line, cls, what):
        self.writes.append({'k': len(self.writes), 'module': module, 'function': qualname, 'line': line,
                            'class': cls, 'what': what})
        return len(self.writes) - 1

    # ---- translate everything
    def translate_all(self):
        self._fid = {k: i for i, k in enumerate(self.order)}
        out = []
        for key in self.order:
            node, cls = self.funcs[key]
            ft = FunctionTranslator(self, key[0], key[1], node, cls)
            try:
                res = ft.translate()
            except Refused as r_:
                if key[0] not in self.soft_modules:
                    raise
                self.soft_refused.append(str(r_))
                a_ = node.args
                params = [x.arg for x in a_.posonlyargs + a_.args + a_.kwonlyargs]
                ws = [f"(Op (Write 2%nat {j + 1} {self.new_write(key[0], key[1], node.lineno, 2, 'function not translated: ' + str(r_)[-60:])}))"
                      for j in range(2 * len(params))]
                res = {'arity': 2 * len(params), 'body': Seq(ws), 'params': params, 'nvars': 2 * len(params) + 2}
            res['module'], res['qualname'] = key
            res['line'] = node.lineno
            out.append(res)
        return out


def public_names(world):
    """names in pharmpy.modeling.__all__ (read from the source of __init__.py)"""
    tree = world.modules['pharmpy.modeling.__init__']
    for node in tree.body:
        if isinstance(node, ast.Assign) and any(isinstance(t, ast.Name) and t.id == '__all__' for t in node.targets):
            return [ast.literal_eval(e) for e in node.value.elts]
    raise Refused('pharmpy.modeling.__all__ not found')


def generate(repo_src, extra_sources=None):
    """Returns (coq_text, meta).  meta: function table, write-site table, public function ids."""
    world = World(repo_src, extra_sources)
    fns = world.translate_all()
    pubs = []
    missing = []
    for name in public_names(world):
        r = world.resolve('pharmpy.modeling.__init__', name)
        if r is None:
            missing.append(name)
            continue
        kind, key = r
        if kind == 'func':
            pubs.append((name, world._fid[key]))
        else:
            for mname, mkey in world.classes[key]['methods'].items():
                pubs.append((f'{name}.{mname}', world._fid[mkey]))
    lines = ['(* GENERATED by harness/props/c06_effects.py from the current pharmpy source — do not edit *)',
             'From Coq Require Import List Bool Arith NArith.', 'From PV Require Import C06.Model.', 'Import ListNotations.',
             'Local Open Scope N_scope.', '']
    for i, f in enumerate(fns):
        lines.append(f"(* {i}: {f['module']}:{f['qualname']} line {f['line']} params {f['params']} *)")
        lines.append(f"Definition body_{i} : prog := {f['body']}.")
    lines.append('')
    lines.append('Definition effect_programs : list fdef := [')
    lines.append(';\n'.join(f"  mkfdef {f['arity']}%nat body_{i}" for i, f in enumerate(fns)))
    lines.append('].')
    lines.append('Definition public_functions : list N := ' + vl([i for _, i in pubs]) + '.')
    helpers = [i for i, f in enumerate(fns) if f['module'] == 'pharmpy.model.external.nonmem.update']
    lines.append('(* code generation helpers (reached from every modeling function through model.update_source()) *)')
    lines.append('Definition codegen_functions : list N := ' + vl(helpers) + '.')
    # tools helpers / workflow API taking a model: functions of pharmpy/tools/** and pharmpy/workflows/*.py with a parameter
    # annotated Model / ModelEntry or called model / model_entry / base_model ...
    tools_roots = []
    for i, f in enumerate(fns):
        if f['module'] in world.soft_modules:
            node, cls = world.funcs[(f['module'], f['qualname'])]
            a_ = node.args
            for arg in a_.posonlyargs + a_.args + a_.kwonlyargs:
                ann = ast.unparse(arg.annotation) if arg.annotation is not None else ''
                if 'Model' in ann or arg.arg in ('model', 'model_entry', 'base_model', 'input_model', 'models', 'model_entries',
                                                  'base_model_entry', 'parent_model', 'candidate', 'candidates'):
                    tools_roots.append(i)
                    break
    lines.append('Definition tools_functions : list N := ' + vl(tools_roots) + '.')
    # callees-first order for the Gauss-Seidel search of the summary table (only a search order)
    import re as _re
    callees = [sorted({int(x) for x in _re.findall(r'\(Call \d+ \d+ (\d+) ', f['body'])}) for f in fns]
    seen_, order_ = set(), []
    for root in range(len(fns)):
        if root in seen_:
            continue
        stack = [(root, iter(callees[root]))]
        seen_.add(root)
        while stack:
            node_, it_ = stack[-1]
            nxt_ = next((c for c in it_ if c not in seen_ and c < len(fns)), None)
            if nxt_ is None:
                order_.append(node_)
                stack.pop()
            else:
                seen_.add(nxt_)
                stack.append((nxt_, iter(callees[nxt_])))
    lines.append('Definition solve_order : list nat := [' + ';'.join(str(i) for i in order_) + ']%nat.')
    meta = {
        'functions': [{'id': i, 'module': f['module'], 'qualname': f['qualname'], 'line': f['line'],
                       'params': f['params'], 'arity': f['arity']} for i, f in enumerate(fns)],
        'writes': world.writes, 'public': pubs, 'codegen': helpers, 'tools': tools_roots, 'soft_refused': world.soft_refused, 'trusted_core': sorted(world.trusted_core), 'unresolved_public': missing, 'sha': world.sha,
    }
    return '\n'.join(lines) + '\n', meta


if __name__ == '__main__':
    import sys
    text, meta = generate(sys.argv[1] if len(sys.argv) > 1 else '/repo/src')
    outdir = Path(sys.argv[2] if len(sys.argv) > 2 else '/verif/build/gen/C06')
    outdir.mkdir(parents=True, exist_ok=True)
    (outdir / 'Effects.v').write_text(text)
    (outdir / 'effects_meta.json').write_text(json.dumps(meta, indent=0))
    print(len(meta['functions']), 'functions', len(meta['writes']), 'write sites', len(meta['public']), 'public',
          'unresolved', meta['unresolved_public'], len(text), 'bytes')
