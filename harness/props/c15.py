"""C15 — path locks give reader-writer exclusion without deadlock in every schedule.
Model: coq/theories/C15 (Model.v = thread level LTS, Check.v); theorems in Properties.v / Refuted.v.
Tie: the REAL lock.py is executed under a deterministic scheduler (c15_vsched.py), one atomic section
at a time; the same labels are fed to the model's `stepo` inside Coq and everything observable is
compared after every step; the property statements are evaluated on the implementation's own
observations (oracle tags)."""
import json
import random

from harness.lib import coqterm as ct
from harness.lib.core import REPO, VERIF, source_sha
from harness.props import c15_vsched as vs

LEVEL = 'proof'
MAXSTEPS = 400

TAGS = {
    1: 'a step the real code took is not enabled in the model',
    2: 'observable effect of a step (enter/leave/exit/wait/raise class) differs from the model',
    3: '_acquired_by differs from the model (or keeps a zero entry)',
    4: 'RLock owner/depth differs from the model',
    5: 'Condition waiters/notified differ from the model',
    6: 'final position of the unfinished threads differs from the model',
    7: 'set of runnable threads differs from the model',
    8: 'bodies the threads are inside differ from the model',
    9: 'an unexpected exception escaped from the lock code',
    11: 'a thread is inside an exclusive body while another thread holds the lock',
    12: 'a shared request was refused although no other thread holds exclusively',
    13: "a thread's hold changed during another thread's step",
    14: 'a non-blocking request waited, or entered in spite of a conflicting holder',
    15: 'a non-reentrant recursive request entered instead of raising',
    16: 'bookkeeping not empty after every thread has finished',
    21: 'lost wake-up: a waiter whose conflicting holders have all released was not notified and no thread can move',
    22: 'deadlock: no thread can move',
    23: 'step bound reached',
}
CORR = (1, 2, 3, 4, 5, 6, 7, 8)
ORACLE = (9, 11, 12, 13, 14, 15, 16, 21, 22, 23)
# oracle tags that are excused when the guard g_no_upgrade is false (tag 201), the model explains the run
# (no correspondence tag) and the finding is listed open
EXCUSED = {21: 'C15-LOST-WAKEUP-UPGRADE', 22: 'C15-MUTUAL-UPGRADE-DEADLOCK'}


# ------------------------------------------------------------------ generator
def gen_req(rng, depth, budget):
    req = {'sh': rng.random() < 0.6, 'b': rng.random() < 0.65, 'r': rng.random() < 0.6}
    if rng.random() < 0.04:
        req['boom'] = True
    budget[0] -= 1
    body = []
    while budget[0] > 0 and depth < 3 and rng.random() < 0.45:
        body.append(gen_req(rng, depth + 1, budget))
    if body:
        req['body'] = body
    return req


def gen_program(rng, maxreq):
    budget = [rng.randint(1, maxreq)]
    items = []
    while budget[0] > 0:
        items.append(gen_req(rng, 1, budget))
    return items


def gen_schedule(rng, n, length):
    out, cur = [], rng.randrange(n)
    for _ in range(length):
        if rng.random() < 0.45:
            cur = rng.randrange(n)
        out.append(cur)
    return out


def gen_thread_spec(rng, maxthreads=3, maxreq=3):
    n = rng.choice([1, 2, 2, 2, 3, 3, 3][:2 * maxthreads]) if maxthreads < 3 else rng.choice([1, 2, 2, 2, 3, 3, 3])
    return {'level': 'thread', 'threads': [gen_program(rng, maxreq) for _ in range(n)],
            'schedule': gen_schedule(rng, n, rng.choice([0, 8, 20, 40]))}


def count_reqs(items):
    return sum(1 + count_reqs(q.get('body', [])) for q in items)


# ------------------------------------------------------------------ running the real code
class Machine:
    """One module instance of lock.py (= one simulated process) with virtual primitives."""
    _count = 0

    def __init__(self, path=None):
        Machine._count += 1
        self.path = path or vs.lock_source(REPO)
        self.holder = vs.Holder()
        self.mod = vs.load_lock_module(self.holder, f'pv_c15_lock_{Machine._count}', self.path)

    def exc_name(self, e):
        m = self.mod
        if isinstance(e, m.AcquiringThreadLevelLockWouldBlockError):
            return 'WouldBlock'
        if isinstance(e, m.AcquiringProcessLevelLockWouldBlockError):
            return 'ProcWouldBlock'
        if isinstance(e, m.RecursiveDeadlockError):
            return 'Recursive'
        return None


def req_frame(q):
    return f"({'ShReq' if q['sh'] else 'ExReq'} {ct.boolean(q['b'])} {ct.boolean(q['r'])})"


def body_frames(reqs):
    return ['ShBody' if q['sh'] else 'ExBody' for q in reqs]


def run_thread_level(spec, machine):
    """Execute one schedule of the real ShareableThreadLock.  Returns the observation dict."""
    S = vs.Sched()
    machine.holder.S = S
    mod = machine.mod
    L = mod.ShareableThreadLock()
    cond = L._condition
    errs = (mod.AcquiringLockWouldBlockError, mod.RecursiveDeadlockError)

    def run_items(rec, items):
        for req in items:
            rec['req'] = req
            rec['phase'] = 'idle'
            S.yield_point(('idle',))
            rec['phase'] = 'entry'
            entered = False
            try:
                with L.lock(shared=req['sh'], blocking=req['b'], reentrant=req['r']):
                    entered = True
                    rec['bodies'].insert(0, req)
                    S.events.append(('enter', req['sh']))
                    run_items(rec, req.get('body', []))
                    rec['req'] = req
                    rec['phase'] = 'body'
                    S.yield_point(('body',))
                    rec['phase'] = 'exit'
                    if req.get('boom'):
                        raise vs.Boom()
                rec['bodies'].pop(0)
                S.events.append(('exitdone', req['sh']))
            except vs.Boom:
                if not entered or not req.get('boom'):
                    raise
                rec['bodies'].pop(0)
                S.events.append(('exitdone', req['sh']))
            except errs as e:
                if entered:
                    raise
                S.events.append(('raise', machine.exc_name(e)))

    recs = [S.spawn(lambda rec: run_items(rec, rec['prog']), prog=prog, bodies=[], req=None, phase='idle')
            for prog in spec['threads']]
    n = len(recs)
    schedule = spec.get('schedule', [])
    steps, final, pos, last = [], None, 0, n - 1
    while True:
        alive = [r for r in recs if not r['done']]
        if not alive:
            final = 0
            break
        runnable = [r for r in alive if S.runnable(r)]
        if not runnable:
            final = 1
            break
        if len(steps) >= MAXSTEPS:
            final = 2
            break
        want = schedule[pos] % n if pos < len(schedule) else (last + 1) % n
        pos += 1
        rec = min(runnable, key=lambda r: (r['id'] - want) % n)
        last = rec['id']
        push = rec['want'][0] == 'idle'
        act = f"(APush {req_frame(rec['req'])})" if push else 'AGo'
        leaving_sh = None
        ev = S.grant(rec)
        kinds = {e[0]: e for e in ev}
        if push:
            obs = 'OPush' if not ev else 'CRASH'
        elif 'enter' in kinds:
            obs = 'OEnterSh' if kinds['enter'][1] else 'OEnterEx'
        elif 'raise' in kinds:
            obs = f"(ORaise {kinds['raise'][1]})" if kinds['raise'][1] in ('WouldBlock', 'Recursive') else 'CRASH'
        elif 'exitdone' in kinds:
            obs = f"(OExitSh {ct.boolean('notify' in kinds)})" if kinds['exitdone'][1] else 'OExitEx'
        elif 'wait' in kinds:
            obs = 'OWait'
        elif not ev and not rec['done'] and rec['want'][0] == 'acquire' and rec['phase'] == 'exit':
            obs = 'OLeave'
        else:
            obs = 'CRASH'
        steps.append({
            't': rec['id'], 'act': act, 'obs': obs,
            'acq': sorted((k, v) for k, v in L._acquired_by.items()),
            'owner': cond.lock.owner, 'depth': cond.lock.depth,
            'waiting': sorted(cond.waiters), 'notified': sorted(cond.notified),
            'runnable': [r['id'] for r in recs if not r['done'] and S.runnable(r)],
            'done': [r['id'] for r in recs if r['done']],
            'bodies': [(r['id'], [q['sh'] for q in r['bodies']]) for r in recs if r['bodies']],
        })
    parked = []
    for r in recs:
        if r['done']:
            continue
        w = r['want'][0]
        if w in ('idle', 'body'):
            fr = body_frames(r['bodies'])
        elif w == 'acquire':
            fr = ([req_frame(r['req'])] + body_frames(r['bodies'])) if r['phase'] == 'entry' \
                else (['ShExit'] + body_frames(r['bodies'][1:]))
        else:
            fr = [f"(ExWait {ct.boolean(r['req']['r'])} {ct.boolean(r['id'] in cond.notified)})"] + body_frames(r['bodies'])
        parked.append((r['id'], fr))
    crashes = [r['crash'] for r in recs if r['crash']] + ['bad-observation' for s in steps if s['obs'] == 'CRASH']
    S.abort_all()
    return {'n': n, 'steps': steps, 'final': final, 'parked': parked, 'crashes': crashes,
            'effective': [s['t'] for s in steps]}


def natl(xs):
    return ct.lst([ct.nat(x) for x in xs])


def thread_case_term(o):
    steps = []
    for s in o['steps']:
        obs = s['obs'] if s['obs'] != 'CRASH' else 'OPush'
        steps.append(
            f"(mkStep {ct.nat(s['t'])} {s['act']} {obs} "
            + ct.lst([ct.pair(ct.nat(k), ct.nat(v)) for k, v in s['acq']]) + ' '
            + ct.opt(None if s['owner'] is None else ct.nat(s['owner'])) + f" {ct.nat(s['depth'])} "
            + natl(s['waiting']) + ' ' + natl(s['notified']) + ' ' + natl(s['runnable']) + ' ' + natl(s['done']) + ' '
            + ct.lst([ct.pair(ct.nat(t), ct.lst([ct.boolean(b) for b in bs])) for t, bs in s['bodies']]) + ')')
    parked = ct.lst([ct.pair(ct.nat(t), ct.lst(fr)) for t, fr in o['parked']])
    return (f"(mkCase {ct.nat(o['n'])} " + ct.lst(steps) + f" {ct.nat(o['final'])} " + parked
            + f" {ct.nat(len(o['crashes']))})")


# ------------------------------------------------------------------ classification
def classify(ctx, spec, tags, obs):
    tags = set(tags)
    corr = sorted(t for t in tags if t in CORR)
    oracle = sorted(t for t in tags if t in ORACLE)
    status = 'ok'
    for t in oracle:
        fid = EXCUSED.get(t)
        if fid and not corr and 201 in tags and ctx.open_finding(fid):
            kh = ctx.coverage.setdefault('known_hits', {})
            kh[fid] = kh.get(fid, 0) + 1
            if status == 'ok':
                status = 'known'
        else:
            ctx.violation(TAGS[t], {'spec': spec, 'tags': sorted(tags), 'tag_meaning': TAGS[t],
                                    'effective_schedule': obs.get('effective'), 'crashes': obs.get('crashes')})
            status = 'violation'
    if corr and status != 'violation':
        ctx.broken.append('correspondence C15 model vs lock.py: ' + ', '.join(TAGS[t] for t in corr)
                          + ' on ' + json.dumps(spec))
        ctx.coverage.setdefault('corr_disagreements', []).append({'spec': spec, 'tags': sorted(tags)})
        status = 'broken'
    return status


IMPORTS = 'C15.Model C15.Check'


def run_specs(ctx, specs, label, machine=None, quiet=False):
    machine = machine or Machine()
    terms, obss = [], []
    for spec in specs:
        o = run_thread_level(spec, machine)
        obss.append(o)
        terms.append(thread_case_term(o))
    verdicts = ctx.run_cases(label, IMPORTS, 'case', terms, 'verdict', shard=100)
    stats = {'ok': 0, 'known': 0, 'violation': 0, 'broken': 0}
    if not quiet:
        for spec, tags, o in zip(specs, verdicts, obss):
            stats[classify(ctx, spec, tags, o)] += 1
    return verdicts, obss, stats


def finding_probes(ctx, machine):
    for f in ctx.findings:
        if f.get('status') != 'open':
            continue
        verdicts, obss, _ = run_specs(ctx, [f['witness']], 'finding-' + f['id'], machine, quiet=True)
        tags = set(verdicts[0])
        if f['expect_tag'] in tags and not (tags & set(CORR)):
            ctx.known(f['id'])
        else:
            ctx.notes.append(f"finding_not_reproduced {f['id']} (tags {sorted(tags)})")


def run(ctx):
    ctx.build_gate(['C15'])
    ctx.trusted += [
        'harness/props/c15_vsched.py: virtual Lock/RLock/Condition/get_ident with the documented CPython semantics '
        '(RLock ownership+depth, Condition.wait releases every level and restores it, notify_all moves all waiters), '
        'one real OS thread per virtual thread, one atomic section granted at a time',
        'harness/props/c15.py: thread programs, label/observation export, classification',
    ]
    ctx.assumptions += [
        'atomic-section granularity: code between two blocking primitives of lock.py runs without interleaving; '
        'sound because every shared variable is accessed only while the corresponding lock is held and release is not a blocking point',
        'not covered: the OS scheduler and the kernel fcntl implementation themselves, fairness/starvation, the Windows msvcrt branch',
    ]
    ctx.coverage['source_sha'] = source_sha(vs.LOCK_PY)
    machine = Machine()
    finding_probes(ctx, machine)
    reg = sorted((VERIF / 'regress' / 'C15').glob('*.json'))
    specs = [json.loads(p.read_text()) for p in reg]
    specs = [s.get('spec', s) for s in specs]
    n = 1500 if ctx.tier == 'quick' else 30000
    specs += [gen_thread_spec(ctx.rng) for _ in range(n)]
    verdicts, obss, stats = run_specs(ctx, specs, 'thread', machine)
    ctx.coverage['evaluations'] = sum(len(o['steps']) for o in obss)
    ctx.coverage['schedules'] = len(specs)
    ctx.coverage['distinct_nontrivial'] = len({json.dumps([s['threads'], o['effective']]) for s, o in zip(specs, obss)
                                               if len(s['threads']) >= 2})
    ctx.coverage['rule'] = ('random programs of 1-3 threads x 1-3 nested/sequential requests with random '
                            '(shared, blocking, reentrant) flags and random schedules from VERIF_SEED; non-trivial = at least '
                            'two threads; distinct by (programs, effective schedule); evaluations = atomic sections compared')
    ctx.coverage['case_status'] = stats
    obs_hist = {}
    for o in obss:
        for s in o['steps']:
            k = s['obs'].strip('()')
            obs_hist[k] = obs_hist.get(k, 0) + 1
    ctx.coverage['input_distribution'] = {
        'threads_hist': {str(k): sum(1 for s in specs if len(s['threads']) == k) for k in (1, 2, 3)},
        'requests_hist': {str(k): sum(1 for s in specs if sum(count_reqs(p) for p in s['threads']) == k) for k in range(1, 10)},
        'step_kinds': obs_hist,
        'final': {'all_finished': sum(1 for o in obss if o['final'] == 0), 'deadlock': sum(1 for o in obss if o['final'] == 1),
                  'step_bound': sum(1 for o in obss if o['final'] == 2)},
        'guard_no_upgrade_false': sum(1 for v in verdicts if 201 in v),
        'lost_wakeup_deadlocks': sum(1 for v in verdicts if 21 in v),
        'circular_deadlocks': sum(1 for v in verdicts if 22 in v),
    }
    ctx.coverage['samples'] = [{'spec': s, 'tags': v, 'effective_schedule': o['effective']}
                               for s, v, o in list(zip(specs, verdicts, obss))[:4]]


def replay(ctx, rep):
    spec = rep.get('spec', rep)
    verdicts, obss, _ = run_specs(ctx, [spec], 'replay', quiet=True)
    tags = verdicts[0]
    print('spec', json.dumps(spec))
    print('effective schedule', obss[0]['effective'], 'final', obss[0]['final'], 'crashes', obss[0]['crashes'])
    print('tags', tags, [TAGS.get(t, t) for t in tags])
    bad = [t for t in tags if t in CORR or t in ORACLE]
    return 1 if bad else 0
